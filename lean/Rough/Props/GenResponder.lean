import Rough.Props.GenBasic
import Rough.Bridge.Keys
import Rough.Bridge.SendResponses
import Rough.Bridge.ServerLoopLemmas
import Rough.Props.C02
import Rough.Props.C09
import Rough.Props.C10
import Rough.Props.Extra3
/-
  Property theorems stated directly about the Lean code REGENERATED FROM /repo's RUST SOURCE on every run
  (`Gen.*`, Rough/Generated/Src/*.lean), obtained by composing a bridge theorem of Rough/Bridge/*.lean (generated
  function = model function up to `≃ᵣ`) with a model-level property theorem / lemma of Rough/Props/Cxx.lean,
  Rough/Lemmas/*.lean.  Nothing new is proved about the model here: every theorem is "bridge ∘ property", so it
  re-checks on every run against what the code says now.  (Same pattern as Props/GenKeys.lean, for the long-term
  key / certificate (`LongTermKey::new`, `LongTermKey::make_cert`, C10) and for one batch of the responder
  (`Responder::send_responses`, C09 / C02).)
-/
namespace Rough.Props.GenCore
open Rough Rough.Bridge Rough.Stats Rough.ServerSpec Rough.Spec
open Rough.Lemmas.ServerSpec (ss_reqOf ss_kindOf)

/-! ### C10 — the certificate: `LongTermKey::new`, `LongTermKey::make_cert` as generated -/

/-- the model's `LongTermKey.new` in closed form, for a 32-byte seed and a hash of at least 32 bytes -/
theorem ltk_new_model_ok (S : SigScheme) (H : Bytes → Bytes) (seed : Bytes) (hseed : seed.length = 32)
    (hH : 32 ≤ (H ((0xff : UInt8) :: S.pk seed)).length) :
    LongTermKey.new S H seed = .ok ⟨⟨seed, []⟩, (H ((0xff : UInt8) :: S.pk seed)).take 32⟩ := by
  unfold LongTermKey.new
  simp only [Signer.fromSeed, if_pos hseed, Res.bind, Signer.publicKey]
  rw [Lemmas.Keys.calcSrv_ok H _ hH]

/-- C10 (certificate) for the translated code, under the weakest length assumptions the model lemma
    (`Lemmas.Keys.cert_ok`, the body of `C10_cert_valid` for one responder) needs — the seed is 32 bytes, the hash of
    `0xff ‖ public key` is at least 32 bytes, the online public key and the long-term key's signatures are 4-byte
    aligned and below 1 GiB (no assumption on the online seed itself): for either protocol version and any online-key
    object, the generated `LongTermKey::new seed` returns a key object `k` whose `public_key()` is the public key of the
    seed and whose `srv_value()` is `H(0xff ‖ pk)[0..32]`; the generated `k.make_cert(version, online_key)` returns
    normally a message and THE SAME key object `k` (the signer's buffer is empty again: nothing is carried over into
    the next certificate); the message encodes (generated encoder) to bytes that the reference decoder reads as a CERT
    with fields SIG and DELE, where SIG verifies under the long-term public key `S.pk seed` over
    `delegation context of the version ‖ DELE bytes`, and DELE decodes to a message carrying PUBK = the online public
    key, MINT = 0 and MAXT = 2^64 − 1. -/
theorem GEN_cert_valid_aligned (S : SigScheme) (hS : S.Correct) (H : Bytes → Bytes) (seed : Bytes) (v : Version)
    (g : Gen.OnlineKey) (hseed : seed.length = 32)
    (hH : 32 ≤ (H ((0xff : UInt8) :: S.pk seed)).length)
    (hpk : (S.pk g.signer.seed).length % 4 = 0 ∧ (S.pk g.signer.seed).length < 2 ^ 30)
    (hsig : ∀ m, (S.sign seed m).length % 4 = 0 ∧ (S.sign seed m).length < 2 ^ 30) :
    ∃ k certG certB cert sig dele deleM,
      Gen.LongTermKey.new S H seed = .ok k ∧
      Gen.LongTermKey.public_key S H k = .ok (S.pk seed) ∧
      Gen.LongTermKey.srv_value_fn S H k = .ok ((H ((0xff : UInt8) :: S.pk seed)).take 32) ∧
      Gen.LongTermKey.make_cert S H k v g = .ok (certG, k) ∧
      Gen.RtMessage.encode certG = .ok certB ∧
      Spec.decode certB = some cert ∧ cert.get Tag.SIG = some sig ∧ cert.get Tag.DELE = some dele ∧
      S.verify (S.pk seed) (v.delePrefix ++ dele) sig = true ∧
      Spec.decode dele = some deleM ∧ deleM.get Tag.PUBK = some (S.pk g.signer.seed) ∧
      deleM.get Tag.MINT = some (le64 0) ∧ deleM.get Tag.MAXT = some (le64 (2 ^ 64 - 1)) := by
  have hnew : Gen.LongTermKey.new S H seed =
      .ok (toGenLtk ⟨⟨seed, []⟩, (H ((0xff : UInt8) :: S.pk seed)).take 32⟩) :=
    eq_ok_of_sim_map (ltk_new_sim S H seed) (ltk_new_model_ok S H seed hseed hH)
  have hcert := eq_ok_of_sim_map
    (make_cert_sim S H ⟨⟨seed, []⟩, (H ((0xff : UInt8) :: S.pk seed)).take 32⟩ v g)
    (Lemmas.Keys.makeCert_fresh S seed _ v g.signer.seed)
  obtain ⟨cert, sig, dele, deleM, h1, h2, h3, h4, h5, h6, h7, h8⟩ :=
    Lemmas.Keys.cert_ok S hS seed v g.signer.seed hseed hpk.1 hpk.2 (hsig _).1 (hsig _).2
  exact ⟨_, _, _, cert, sig, dele, deleM, hnew, ltk_public_key_eq S H _, ltk_srv_value_eq S H _, hcert,
    encode_eq _, h1, h2, h3, h4, h5, h6, h7, h8⟩

/-- C10 (certificate) for the translated code, with the SHA-512 / Ed25519 output lengths (`ServerSpec.EnvOK`, as in
    `C10_cert_valid`): for a 32-byte long-term seed, either protocol version and any online-key object, the generated
    `LongTermKey::new` followed by the generated `LongTermKey::make_cert version online_key` returns a message whose
    encoding the reference decoder reads as a CERT whose SIG verifies (`S.verify`, given completeness `S.Correct` of
    the scheme) under the long-term public key `S.pk seed` over `Version.delePrefix ‖ DELE bytes` and whose DELE
    carries the online public key, MINT = 0 and MAXT = 2^64 − 1; the key object is unchanged by `make_cert` (empty
    signer buffer: no carry-over into the next certificate), its `public_key()` is `S.pk seed` and its `srv_value()`
    is `H(0xff ‖ pk)[0..32]`. -/
theorem GEN_cert_valid (E : Env) (hS : E.S.Correct) (hE : EnvOK E) (seed : Bytes) (v : Version) (g : Gen.OnlineKey)
    (hseed : seed.length = 32) :
    ∃ k certG certB cert sig dele deleM,
      Gen.LongTermKey.new E.S E.H seed = .ok k ∧
      Gen.LongTermKey.public_key E.S E.H k = .ok (E.S.pk seed) ∧
      Gen.LongTermKey.srv_value_fn E.S E.H k = .ok ((E.H ((0xff : UInt8) :: E.S.pk seed)).take 32) ∧
      Gen.LongTermKey.make_cert E.S E.H k v g = .ok (certG, k) ∧
      Gen.RtMessage.encode certG = .ok certB ∧
      Spec.decode certB = some cert ∧ cert.get Tag.SIG = some sig ∧ cert.get Tag.DELE = some dele ∧
      E.S.verify (E.S.pk seed) (v.delePrefix ++ dele) sig = true ∧
      Spec.decode dele = some deleM ∧ deleM.get Tag.PUBK = some (E.S.pk g.signer.seed) ∧
      deleM.get Tag.MINT = some (le64 0) ∧ deleM.get Tag.MAXT = some (le64 (2 ^ 64 - 1)) :=
  GEN_cert_valid_aligned E.S hS E.H seed v g hseed (by rw [hE.hashLen]; omega) (by rw [hE.pkLen]; omega)
    (fun m => by rw [hE.sigLen]; omega)

/-! ### C09 / C02 — one batch: `Responder::send_responses` as generated

  The responder state is described as in the model lemma `Lemmas.ServerSpec.ss_send_spec` (what `Inv` + `collect`
  establish before each `send_responses` call): the responder for protocol `ver` of a server with keys `K` — online
  signer with an empty buffer, the certificate of `K` — whose queue holds (nonce, source) of the accepted requests
  `reqs` (datagram with its source, and the nonce extracted from it) in order, and whose Merkle tree is the result of
  pushing their leaves (nonce for classic, whole datagram for IETF) onto a reset tree. -/

/-- C09 (one batch) for the translated code: for a responder holding the queued requests `reqs` (at most 2^32, nonces
    of at least 4 bytes), a clock reading a `SystemTime` can produce, no fault injection (all pending decisions
    `Grease.none`), every `send_to` of this call succeeding and every log level, the generated
    `Responder::send_responses` returns normally and
      * the datagrams it appends to the socket are exactly `expectedBatch`: one per queued request, addressed to that
        request's source, in queue order, each equal to the reference responder's reply `Spec.RT.respond` for that
        position of the batch and that nonce (classic: bare message, IETF: framed), none missing, none extra;
      * the socket has counted one send per request;
      * the statistics events appended are one response event per datagram with its destination and byte count;
      * the responder afterwards is the same (key, certificate, queue) except for the Merkle tree (which still has a
        level) and the fault-injection queue, from which one decision per request was drawn. -/
theorem GEN_send_responses_replies (E : Env) (hE : EnvOK E) (K : Keys) (ver : Version)
    (reqs : List (Datagram × Bytes)) (r : Responder) (t0 : Tree)
    (hver : r.ver = ver) (honl : r.onl = ⟨onlOf K ver, []⟩) (hcert : r.cert = certOf E K ver)
    (hreq : r.requests = reqs.map (fun x => (x.2, x.1.src))) (ht0 : t0.levels ≠ [])
    (htree : Merkle.pushAll (E.mcfg ver) (Merkle.reset t0) (reqs.map (leafOf ver)) = .ok r.tree)
    (hrt : r.tree.levels ≠ []) (hsz : reqs.length ≤ 2 ^ 32) (hn : ∀ x ∈ reqs, 4 ≤ x.2.length)
    (gs : List Grease) (cur : Grease) (hg : ∀ g ∈ gs, g = Grease.none)
    (sock : Gen.Sock) (hok : ∀ a k, sock.ok a (sock.n + k) = true)
    (hclk : clockOK ((sock.clock sock.n).secs, (sock.clock sock.n).nanos))
    (LOG : Nat) (ev0 : List Event) :
    ∃ t', t'.levels ≠ [] ∧
      Gen.Responder.send_responses E.S E.H LOG (toGenResponder r ⟨gs, cur⟩) sock ev0 = .ok
        (toGenResponder { r with tree := t' } ⟨gs.drop reqs.length, curAfter gs cur reqs.length⟩,
         ({ sock with
            n := sock.n + reqs.length,
            out := sock.out ++
              (expectedBatch E K ver ((sock.clock sock.n).secs, (sock.clock sock.n).nanos) reqs).map some } : Gen.Sock),
         ev0 ++ (expectedBatch E K ver ((sock.clock sock.n).secs, (sock.clock sock.n).nanos) reqs).map
                  (fun x => (⟨ss_kindOf ver, x.dst, x.bytes.length⟩ : Event))) := by
  have hreq' : r.requests = reqs.map ss_reqOf := hreq
  obtain ⟨t', hspec, ht'⟩ := Lemmas.ServerSpec.ss_send_spec E hE K ver
    ((sock.clock sock.n).secs, (sock.clock sock.n).nanos) reqs r t0 (decide (LOG ≥ 4)) gs hver honl hcert hreq' ht0
    htree hrt hsz hn hclk hg
  have hsim := send_responses_exact E hE.hashLen r gs cur sock LOG ev0
  have hlen : r.requests.length = reqs.length := by rw [hreq, List.length_map]
  rw [sendResponsesF_all_ok _ (fun a k => hok a k), hspec, hlen] at hsim
  exact ⟨t', ht', eq_ok_of_sim hsim⟩

/-- C02 / C09 (one batch) for the translated code: under the hypotheses of `GEN_send_responses_replies`, with key
    material of the right lengths (`K.OK`), a complete signature scheme (`S.Correct`) and nonces of 32 or 64 bytes
    (what the request classifier accepts), the generated `Responder::send_responses` returns normally, appends exactly
    one entry per queued request to what the socket has sent, and the entry for the i-th queued request is a datagram
    (the send was not dropped) addressed to that request's source, equal to the reference reply for position i, and
    ACCEPTED BY THE INDEPENDENT VERIFIER `Spec.RT.verifyResponse` for that request (its datagram and nonce) under the
    long-term public key `S.pk K.seed`, yielding the midpoint of the clock reading and the protocol's radius. -/
theorem GEN_send_responses_verified (E : Env) (hE : EnvOK E) (hS : E.S.Correct) (K : Keys) (hK : K.OK) (ver : Version)
    (reqs : List (Datagram × Bytes)) (r : Responder) (t0 : Tree)
    (hver : r.ver = ver) (honl : r.onl = ⟨onlOf K ver, []⟩) (hcert : r.cert = certOf E K ver)
    (hreq : r.requests = reqs.map (fun x => (x.2, x.1.src))) (ht0 : t0.levels ≠ [])
    (htree : Merkle.pushAll (E.mcfg ver) (Merkle.reset t0) (reqs.map (leafOf ver)) = .ok r.tree)
    (hrt : r.tree.levels ≠ []) (hsz : reqs.length ≤ 2 ^ 32)
    (hn : ∀ x ∈ reqs, x.2.length = 64 ∨ x.2.length = 32)
    (gs : List Grease) (cur : Grease) (hg : ∀ g ∈ gs, g = Grease.none)
    (sock : Gen.Sock) (hok : ∀ a k, sock.ok a (sock.n + k) = true)
    (hclk : clockOK ((sock.clock sock.n).secs, (sock.clock sock.n).nanos))
    (LOG : Nat) (ev0 : List Event) :
    ∃ g' sock' ev', Gen.Responder.send_responses E.S E.H LOG (toGenResponder r ⟨gs, cur⟩) sock ev0
        = .ok (g', sock', ev') ∧
      sock'.out.length = sock.out.length + reqs.length ∧
      ∀ i (h : i < reqs.length), ∃ x : Sent, sock'.out[sock.out.length + i]? = some (some x) ∧
        x.dst = reqs[i].1.src ∧
        x.bytes = RT.respond E.S E.H (protoOfVer ver) K.seed (onlOf K ver)
          (midpVal ver ((sock.clock sock.n).secs, (sock.clock sock.n).nanos)) (radiOf ver) 0 (2 ^ 64 - 1)
          (reqs.map (leafOf ver)) i reqs[i].2 ∧
        RT.verifyResponse E.S E.H (protoOfVer ver) (E.S.pk K.seed) reqs[i].1.bytes reqs[i].2 x.bytes
          = .ok (midpVal ver ((sock.clock sock.n).secs, (sock.clock sock.n).nanos), radiOf ver) := by
  obtain ⟨t', _, hgen⟩ := GEN_send_responses_replies E hE K ver reqs r t0 hver honl hcert hreq ht0 htree hrt hsz
    (fun x hx => by rcases hn x hx with h | h <;> omega) gs cur hg sock hok hclk LOG ev0
  refine ⟨_, _, _, hgen, ?_, ?_⟩
  · simp only [List.length_append, List.length_map,
      (Props.C09.C09_exactly_once E K ver ((sock.clock sock.n).secs, (sock.clock sock.n).nanos) reqs).1]
  · intro i h
    refine ⟨⟨reqs[i].1.src, RT.respond E.S E.H (protoOfVer ver) K.seed (onlOf K ver)
      (midpVal ver ((sock.clock sock.n).secs, (sock.clock sock.n).nanos)) (radiOf ver) 0 (2 ^ 64 - 1)
      (reqs.map (leafOf ver)) i reqs[i].2⟩, ?_, rfl, rfl, ?_⟩
    · simp only
      rw [List.getElem?_append_right (Nat.le_add_right _ _), Nat.add_sub_cancel_left, List.getElem?_map,
        Lemmas.ServerSpec.ss_expectedBatch_getElem? E K ver _ reqs i h]
      rfl
    · exact Lemmas.ServerAssembly.sa_reply_verifies E hE hS K hK ver _ hclk reqs hsz i h
        (hn _ (List.getElem_mem h))

/-- C08 / C17 (one batch) for the translated code: for a responder holding the queued requests `reqs` (at most 2^32,
    nonces of at least 4 bytes; any certificate bytes), a clock reading a `SystemTime` can produce, ANY fault-injection
    decisions the Rust code can draw (`GreaseOK`: none, a permutation of the six field positions, 64 random bytes), ANY
    pattern of failing `send_to` calls and every log level, the generated `Responder::send_responses` returns
    normally (no panic, no error); afterwards the responder is the same (key with an empty signer buffer,
    certificate, queue) except for the Merkle tree (which still has a level) and the fault-injection queue, from which
    one decision per request was drawn, the socket has counted one send attempt per request and has only appended to
    what it had sent, and the statistics have only been appended to. -/
theorem GEN_send_responses_returns (E : Env) (hE : EnvOK E) (K : Keys) (ver : Version)
    (reqs : List (Datagram × Bytes)) (r : Responder) (t0 : Tree)
    (hver : r.ver = ver) (honl : r.onl = ⟨onlOf K ver, []⟩)
    (hreq : r.requests = reqs.map (fun x => (x.2, x.1.src))) (ht0 : t0.levels ≠ [])
    (htree : Merkle.pushAll (E.mcfg ver) (Merkle.reset t0) (reqs.map (leafOf ver)) = .ok r.tree)
    (hrt : r.tree.levels ≠ []) (hsz : reqs.length ≤ 2 ^ 32) (hn : ∀ x ∈ reqs, 4 ≤ x.2.length)
    (gs : List Grease) (cur : Grease) (hg : ∀ g ∈ gs, GreaseOK g)
    (sock : Gen.Sock) (hclk : clockOK ((sock.clock sock.n).secs, (sock.clock sock.n).nanos))
    (LOG : Nat) (ev0 : List Event) :
    ∃ t' outs evs, t'.levels ≠ [] ∧
      Gen.Responder.send_responses E.S E.H LOG (toGenResponder r ⟨gs, cur⟩) sock ev0 = .ok
        (toGenResponder { r with tree := t' } ⟨gs.drop reqs.length, curAfter gs cur reqs.length⟩,
         ({ sock with n := sock.n + reqs.length, out := sock.out ++ outs } : Gen.Sock), ev0 ++ evs) := by
  have hreq' : r.requests = reqs.map ss_reqOf := hreq
  obtain ⟨t', sent, ev, hsafe, ht'⟩ := Lemmas.ServerSpec.ss_send_safe E hE K ver
    ((sock.clock sock.n).secs, (sock.clock sock.n).nanos) reqs r t0 (decide (LOG ≥ 4)) gs hver honl hreq' ht0
    htree hrt hsz hn hclk hg
  have hsim := send_responses_exact E hE.hashLen r gs cur sock LOG ev0
  have hlen : r.requests.length = reqs.length := by rw [hreq, List.length_map]
  rw [Props.Extra3.C17_send_failure_refines, hsafe, hlen] at hsim
  exact ⟨t', _, _, ht', eq_ok_of_sim hsim⟩

end Rough.Props.GenCore

import Rough.Props.GenBasic
import Rough.Bridge.Message
import Rough.Props.C05
import Rough.Props.C06
/-
  Property theorems stated directly about the Lean code REGENERATED FROM /repo's RUST SOURCE on every run
  (`Gen.*`, Rough/Generated/Src/*.lean), obtained by composing a bridge theorem of Rough/Bridge/*.lean (generated
  function = model function up to `≃ᵣ`) with a model-level property theorem of Rough/Props/Cxx.lean.  Nothing new is
  proved about the model here: every theorem is "bridge ∘ property", so it re-checks on every run against what the
  code says now.  (Same pattern as Props/GenLoop.lean, for the codec, the request classifier, the Merkle tree, the
  signed midpoint, the incremental signer / verifier, the seed envelope, the client validation path and the
  per-client statistics.)
-/
namespace Rough.Props.GenCore
open Rough Rough.Bridge

/-! ### C05 — codec round trip, for `RtMessage::encode` / `RtMessage::from_bytes` as generated -/

/-- C05 (decode ∘ encode = id) for the translated code: for every message built through the API (strictly increasing
    tags) from 4-byte aligned values whose encoding is shorter than 2^32 bytes, the generated `RtMessage::encode`
    returns the model encoding (its internal `assert_eq!` on the size does not fire), and the generated
    `RtMessage::from_bytes` applied to those bytes returns exactly the message that was encoded. -/
theorem GEN_decode_encode (m : Msg) (hs : m.Sorted) (ha : m.Aligned) (hsz : encodedSize m < 2 ^ 32) :
    Gen.RtMessage.encode (toGen m) = .ok (encode m) ∧
    Gen.RtMessage.from_bytes (encode m) = .ok (toGen m) :=
  ⟨encode_eq m, eq_ok_of_sim_map (from_bytes_sim (encode m)) (Props.C05.C05_decode_encode m hs ha hsz)⟩

/-- C05 (canonical encoding) for the translated code: whatever the generated `RtMessage::from_bytes` accepts is the
    image of a model message accepted by the model decoder, and — when the message is non-empty and the input is
    shorter than 2^32 bytes — the generated `RtMessage::encode` of the decoded message returns the identical input
    bytes: the decoder accepts only canonical encodings. -/
theorem GEN_encode_decode (b : Bytes) (g : Gen.RtMessage) (h : Gen.RtMessage.from_bytes b = .ok g) :
    ∃ m : Msg, g = toGen m ∧ fromBytes b = .ok m ∧
      (g.tags ≠ [] → b.length < 2 ^ 32 → Gen.RtMessage.encode g = .ok b) := by
  obtain ⟨m, hm, hg⟩ := ok_of_sim_map (from_bytes_sim b) h
  refine ⟨m, hg, hm, fun hne hlen => ?_⟩
  have hne' : m.fields ≠ [] := by
    intro he
    apply hne
    rw [hg]
    simp [toGen, Msg.tags, he]
  rw [hg, encode_eq, Props.C05.C05_encode_decode b m hm hne' hlen]

/-- C05 (framing) for the translated code: the generated `RtMessage::encode_framed` returns the 8-byte magic
    "ROUGHTIM", the little-endian length of the encoding, and the encoding — 12 bytes more than the encoding. -/
theorem GEN_encode_framed (m : Msg) :
    Gen.RtMessage.encode_framed (toGen m) = .ok (Rough.strBytes "ROUGHTIM" ++ le32 (encode m).length ++ encode m) ∧
    (Rough.strBytes "ROUGHTIM" ++ le32 (encode m).length ++ encode m).length = 12 + (encode m).length := by
  obtain ⟨h1, h2⟩ := Props.C05.C05_framed m
  rw [← h1]
  exact ⟨encode_framed_eq m, h2⟩

/-- C05 (size) for the translated code: the generated `RtMessage::encoded_size` is the length of what the generated
    `RtMessage::encode` returns. -/
theorem GEN_encoded_size (m : Msg) :
    ∃ out, Gen.RtMessage.encode (toGen m) = .ok out ∧ Gen.RtMessage.encoded_size (toGen m) = .ok out.length :=
  ⟨encode m, encode_eq m, by rw [encoded_size_eq, Props.C05.C05_encoded_size]⟩

/-! ### C06 — decoding untrusted bytes -/

/-- C06 (totality) for the translated code: on every byte string, of any length, the generated
    `RtMessage::from_bytes` returns a message or an error — it never panics (no out-of-bounds slice or index, no
    arithmetic underflow, no failed `unwrap`). -/
theorem GEN_from_bytes_total (b : Bytes) (s : String) : Gen.RtMessage.from_bytes b ≠ .panic s := by
  intro h
  have := from_bytes_no_panic b
  rw [h] at this
  cases this

/-- C06 (payload) for the translated code: the values of a non-empty message accepted by the generated
    `RtMessage::from_bytes`, concatenated in order, are exactly the input bytes after the 8·n-byte header (n = number
    of fields): nothing invented, nothing read past the end. -/
theorem GEN_payload (b : Bytes) (g : Gen.RtMessage) (h : Gen.RtMessage.from_bytes b = .ok g) (hne : g.tags ≠ []) :
    8 * g.tags.length ≤ b.length ∧ g.values.flatten = b.drop (8 * g.tags.length) := by
  obtain ⟨m, hm, hg⟩ := ok_of_sim_map (from_bytes_sim b) h
  have hne' : m.fields ≠ [] := by
    intro he
    apply hne
    rw [hg]
    simp [toGen, Msg.tags, he]
  have hp := Props.C06.C06_payload b m hm hne'
  have ht : g.tags.length = m.fields.length := by rw [hg]; exact Lemmas.tags_length m
  have hv : g.values = m.values := by rw [hg]; rfl
  rw [ht, hv]
  exact hp


end Rough.Props.GenCore

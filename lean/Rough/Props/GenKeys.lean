import Rough.Props.GenBasic
import Rough.Bridge.Keys
import Rough.Props.C11
/-
  Property theorems stated directly about the Lean code REGENERATED FROM /repo's RUST SOURCE on every run
  (`Gen.*`, Rough/Generated/Src/*.lean), obtained by composing a bridge theorem of Rough/Bridge/*.lean (generated
  function = model function up to `≃ᵣ`) with a model-level property theorem of Rough/Props/Cxx.lean.  Nothing new is
  proved about the model here: every theorem is "bridge ∘ property", so it re-checks on every run against what the
  code says now.  (Same pattern as Props/GenLoop.lean, for the codec, the request classifier, the Merkle tree, the
  signed midpoint, the incremental signer / verifier, the seed envelope, the client validation path and the
  per-client statistics.)
-/
namespace Rough.Props.GenCore
open Rough Rough.Bridge

/-! ### C11 — the signed midpoint: `OnlineKey::classic_midp`, `rfc_midp`, `make_srep` as generated
     (a clock reading `t : Rs.Time` is seconds and nanoseconds since the Unix epoch: only readings not before the
     epoch are representable) -/

/-- C11 (classic) for the translated code: for every clock reading whose microsecond count fits a u64 (beyond year
    584 000), the generated `classic_midp` returns ⌊t / 1 µs⌋ — no overflow panic in that range. -/
theorem GEN_midpoint_classic (S : SigScheme) (g : Gen.OnlineKey) (t : Rs.Time) (hn : t.nanos < 1000000000)
    (hs : t.secs * 1000000 + 999999 < 2 ^ 64) :
    Gen.OnlineKey.classic_midp S g t = .ok (Props.C11.ns t.secs t.nanos / 1000) := by
  have h := classic_midp_sim S g t
  have hm : classicMidp t.secs t.nanos = .ok (Props.C11.ns t.secs t.nanos / 1000) :=
    Props.C11.C11_classic t.secs t.nanos hn hs
  rw [hm] at h
  exact eq_ok_of_sim h

/-- C11 (IETF) for the translated code: for every clock reading, the generated `rfc_midp` returns ⌊t / 1 s⌋. -/
theorem GEN_midpoint_ietf (S : SigScheme) (g : Gen.OnlineKey) (t : Rs.Time) (hn : t.nanos < 1000000000) :
    Gen.OnlineKey.rfc_midp S g t = .ok (Props.C11.ns t.secs t.nanos / 1000000000) := by
  have hm : midpOf .ietf t.secs t.nanos = .ok (Props.C11.ns t.secs t.nanos / 1000000000) :=
    Props.C11.C11_ietf t.secs t.nanos hn
  rw [rfc_midp_eq]
  exact hm

/-- C11 (what is signed) for the translated code: for a key object as `OnlineKey::new` builds it, either protocol
    version, every clock reading (for the classic protocol: one whose microsecond count fits a u64) and every root of
    4-byte aligned length below 2^16, the generated `make_srep` returns normally a message whose SREP field decodes
    (reference decoder) to a message carrying MIDP = ⌊t / unit⌋ (unit = 1 µs classic, 1 s IETF) as a little-endian
    u64, RADI = five seconds in that unit, ROOT = the given root and, for IETF, VER = draft-13 and VERS = the
    supported list; whose SIG field is the online key's signature over context ‖ SREP; and the signer's buffer is
    empty afterwards. -/
theorem GEN_srep_midpoint (S : SigScheme) (g : Gen.OnlineKey) (hv : g.vers_wire_bytes = Version.supportedWire)
    (v : Version) (t : Rs.Time) (root : Bytes) (hn : t.nanos < 1000000000)
    (hs : v = .google → t.secs * 1000000 + 999999 < 2 ^ 64)
    (hroot : root.length % 4 = 0) (hsz : root.length < 2 ^ 16) :
    ∃ res g' srepB srep, Gen.OnlineKey.make_srep S g v t root = .ok (res, g') ∧
      Gen.RtMessage.get_field res Tag.SREP = .ok (some srepB) ∧
      Gen.RtMessage.get_field res Tag.SIG =
        .ok (some (S.sign g.signer.seed (g.signer.buf ++ v.srepPrefix ++ srepB))) ∧
      g' = { g with signer := ⟨g.signer.seed, []⟩ } ∧
      Spec.decode srepB = some srep ∧
      srep.get Tag.MIDP = some (le64 (Props.C11.ns t.secs t.nanos / Props.C11.unitNs v)) ∧
      srep.get Tag.RADI = some (le32 (radiOf v)) ∧ srep.get Tag.ROOT = some root ∧
      (v = .ietf → srep.get Tag.VER = some Version.ietf.wire ∧ srep.get Tag.VERS = some Version.supportedWire) := by
  have hm : midpOf v t.secs t.nanos = .ok (Props.C11.ns t.secs t.nanos / Props.C11.unitNs v) := by
    cases v with
    | google => exact Props.C11.C11_classic t.secs t.nanos hn (hs rfl)
    | ietf => exact Props.C11.C11_ietf t.secs t.nanos hn
  obtain ⟨res, onl', srepB, hmk, h1, h2, h3, srep, h4, h5, h6, h7, h8⟩ :=
    Props.C11.C11_fields S g.signer v t.secs t.nanos root _ hroot hsz hm
  have hgen := make_srep_sim S g hv v t root
  rw [hmk] at hgen
  refine ⟨toGen res, { g with signer := onl' }, srepB, srep, eq_ok_of_sim hgen, ?_, ?_, ?_, h4, h5, h6, h7, h8⟩
  · rw [get_field_eq, h1]
  · rw [get_field_eq, h2]
  · rw [h3]


end Rough.Props.GenCore

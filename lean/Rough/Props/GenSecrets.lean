import Rough.Bridge.ResponderNew
import Rough.Props.C20
/-
  C20 (theorem part) stated about the constructors as REGENERATED from /repo's Rust source: the two responders that
  `Server::new` keeps — everything of the key material that lives on in a worker — are a function of the seed's public
  interface (public key and the two certificate signatures). Composition of `server_responders_sim` with `C20_factor`.
-/
namespace Rough.Props.GenCore
open Rough Rough.Bridge

/-- the responders `Server::new` creates (IETF first, then classic, one long-term key object), as translated -/
def genResponders (E : Env) (seed onlI onlC : Bytes) (gqI gqC : List Grease) (cfg : Config.Cfg) :
    Res (Gen.Responder × Gen.Responder) :=
  (Gen.LongTermKey.new E.S E.H seed).bind fun ltk =>
    (Gen.Responder.new E.S E.H onlI gqI Version.ietf cfg ltk).bind fun r1 =>
      (Gen.Responder.new E.S E.H onlC gqC Version.google cfg r1.2).bind fun r2 =>
        Res.ok (r1.1, r2.1)

/-- C20: two seeds with the same public interface (same public key, same two certificate signatures) yield identical
    responders — the state a worker keeps holds nothing else of the seed -/
theorem GEN_responders_factor (E : Env) (seed seed' onlI onlC : Bytes) (b : Nat) (gqI gqC : List Grease)
    (cfg : Config.Cfg) (h32 : seed.length = 32) (h32' : seed'.length = 32)
    (hi : Props.C20.Iface E seed onlI onlC = Props.C20.Iface E seed' onlI onlC) :
    genResponders E seed onlI onlC gqI gqC cfg ≃ᵣ genResponders E seed' onlI onlC gqI gqC cfg := by
  have key : ∀ sd : Bytes, genResponders E sd onlI onlC gqI gqC cfg ≃ᵣ
      (Server.new E sd onlI onlC b).map fun s =>
        (toGenResponder s.ietf ⟨gqI, Grease.none⟩, toGenResponder s.classic ⟨gqC, Grease.none⟩) := by
    intro sd
    have h := server_responders_sim E sd onlI onlC b gqI gqC cfg
    unfold genResponders
    revert h
    cases h0 : Gen.LongTermKey.new E.S E.H sd with
    | ok ltk =>
      simp only [Res.bind_ok]
      cases h1 : Gen.Responder.new E.S E.H onlI gqI Version.ietf cfg ltk with
      | ok r1 =>
        simp only [Res.bind_ok]
        cases h2 : Gen.Responder.new E.S E.H onlC gqC Version.google cfg r1.2 with
        | ok r2 =>
          simp only [Res.bind_ok]
          cases hs : Server.new E sd onlI onlC b <;> simp [Res.Sim, Res.map]
          intro a b c; exact ⟨a, b⟩
        | err => simp only [Res.bind_err]; cases hs : Server.new E sd onlI onlC b <;> simp [Res.Sim, Res.map]
        | panic p => simp only [Res.bind_panic]; cases hs : Server.new E sd onlI onlC b <;> simp [Res.Sim, Res.map]
      | err => simp only [Res.bind_err]; cases hs : Server.new E sd onlI onlC b <;> simp [Res.Sim, Res.map]
      | panic p => simp only [Res.bind_panic]; cases hs : Server.new E sd onlI onlC b <;> simp [Res.Sim, Res.map]
    | err => simp only [Res.bind_err]; cases hs : Server.new E sd onlI onlC b <;> simp [Res.Sim, Res.map]
    | panic p => simp only [Res.bind_panic]; cases hs : Server.new E sd onlI onlC b <;> simp [Res.Sim, Res.map]
  have e := Props.C20.C20_factor E seed seed' onlI onlC b h32 h32' hi
  have k1 := key seed
  have k2 := key seed'
  rw [e] at k1
  exact Res.Sim.trans k1 (Res.Sim.symm k2)

end Rough.Props.GenCore

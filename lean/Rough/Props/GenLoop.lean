import Rough.Bridge.ProcessEvents
import Rough.Props.Loop
import Rough.Lemmas.Loop2
/-
  Property theorems stated directly about the Lean code REGENERATED FROM /repo's RUST SOURCE on every run
  (`Gen.Server.process_events`, Rough/Generated/Src/Server.lean), obtained by composing the bridge theorem
  `process_events_sim` (generated code refines the model `EventLoop.processEvents`) with the model-level theorems of
  Props/Loop.lean.  They re-check on every run against what the code says now.
-/
namespace Rough.Props.GenLoop
open Rough Rough.Bridge Rough.EventLoop Rough.LoopSpec Rough.ServerSpec Rough.Stats
open Rough.Lemmas.Loop Rough.Lemmas.Loop2

/-- the per-batch inputs that `process_events_sim` supplies are taken from the environment: clock readings of the
    socket's clock, fault-injection decisions that are suffixes of the pending lists -/
def FromEnv (sock : Gen.Sock) (gI gC : List Grease) (passes : Nat → PassIn) : Prop :=
  ∀ i, (passes i).arrivals = [] ∧
    (∃ k, (passes i).nowIetf = ((sock.clock k).secs, (sock.clock k).nanos)) ∧
    (∃ k, (passes i).nowClassic = ((sock.clock k).secs, (sock.clock k).nanos)) ∧
    (∃ n, (passes i).greaseIetf = gI.drop n) ∧ (∃ n, (passes i).greaseClassic = gC.drop n)

/-- `process_events_sim` with the provenance of the per-batch inputs made explicit -/
theorem process_events_sim_env (E : Env) (hH : ∀ z, (E.H z).length = 64) (LOG : Nat) (x : GenRest) (s : Server)
    (sock : Gen.Sock) (buf : Bytes) (backlog : Bool) (ev : List Event) (gI gC : List Grease) (cI cC : Grease)
    (evs0 : List Nat) (toks : List Token)
    (hok : ∀ a k, sock.ok a k = true) (hfit : ∀ p ∈ sock.inq, p.1.length ≤ buf.length)
    (hpoll : x.poll.fails = false) (htoks : x.poll.ready.mapM tokenOf = some toks) (hnodup : x.poll.ready.Nodup)
    (hconn : ∀ c ∈ x.tcp.pending, c.writeOk = true ∧ c.shutOk = true) :
    ∃ passes : Nat → PassIn, FromEnv sock gI gC passes ∧
      (Gen.Server.process_events E.S E.H LOG (toGenServer x s sock buf backlog ev ⟨gI, cI⟩ ⟨gC, cC⟩) evs0).map
          (fun r => obsLoopGen r.1)
        ≃ᵣ (processEvents E (decide (LOG ≥ 4)) (loopOf x s sock backlog ev) ⟨toks, passes⟩).map (obsLoopModel x sock) :=
  -- the witness of `process_events_sim` (`PEAux.passAt`) falls back to the default `PassIn` (clock `(0, 0)`) for the
  -- batches after one that does not return, which the model never reads; `PEAux.passEnv` falls back to an environment
  -- reading instead, and the model's result is the same (`PEAux.modelTail_passEnv`), so `FromEnv` holds as stated
  ⟨fun i => PEAux.passEnv E (decide (LOG ≥ 4)) i s sock gI gC,
    fun i => PEAux.passEnv_prov E (decide (LOG ≥ 4)) i s sock gI gC,
    process_events_sim_passEnv E hH LOG x s sock buf backlog ev gI gC cI cC evs0 toks hok hfit hpoll htoks hnodup hconn⟩

/-- inputs taken from an environment whose clock readings and fault-injection decisions are producible are `InsSafe` -/
theorem insSafe_of_fromEnv (sock : Gen.Sock) (gI gC : List Grease) (passes : Nat → PassIn)
    (h : FromEnv sock gI gC passes)
    (hclock : ∀ k, clockOK ((sock.clock k).secs, (sock.clock k).nanos))
    (hgI : ∀ g ∈ gI, GreaseOK g) (hgC : ∀ g ∈ gC, GreaseOK g) : InsSafe passes := by
  intro i
  obtain ⟨_, ⟨k1, h1⟩, ⟨k2, h2⟩, ⟨n1, h3⟩, ⟨n2, h4⟩⟩ := h i
  refine ⟨?_, ?_, ?_, ?_⟩
  · rw [h1]; exact hclock k1
  · rw [h2]; exact hclock k2
  · intro g hg
    rw [h3] at hg
    exact hgI g (List.mem_of_mem_drop hg)
  · intro g hg
    rw [h4] at hg
    exact hgC g (List.mem_of_mem_drop hg)

/-- the health-check token is among the model's tokens only if mio token 2 was reported -/
theorem two_mem_of_healthCheck : ∀ (ts : List Nat) (toks : List Token), PEAux.TokRel ts toks →
    Token.healthCheck ∈ toks → 2 ∈ ts := by
  intro ts toks h
  induction h with
  | nil => intro hm; cases hm
  | @cons n t ts toks hnt _ ih =>
    intro hm
    rcases List.mem_cons.mp hm with rfl | hm
    · rcases PEAux.tokenOf_cases n _ hnt with ⟨_, h⟩ | ⟨_, h⟩ | ⟨rfl, _⟩
      · cases h
      · cases h
      · exact List.mem_cons_self ..
    · exact List.mem_cons_of_mem _ (ih hm)

/-- the datagrams one model call sends when every token is reported at most once (the proof of
    `LOOP_call_batches_bounded`, which only uses that part of `EventsOK`) -/
theorem call_sent_bounded (E : Env) (debug : Bool) (st : Loop) (c : CallIn) (hnd : c.events.Nodup)
    (st' : Loop) (out : Out) (hr : processEvents E debug st c = .ok (st', out)) :
    out.sent.length ≤ 16 * st.srv.batchSize := by
  rw [lb_process_eq] at hr
  obtain ⟨⟨st1, o1, sv1⟩, h1, h2⟩ := lb_bind_inv hr
  obtain ⟨a1, _, a3, a4, a5⟩ := l2_handle_bound E debug c.passes c.events (lbSt0 st c) false st1 o1 sv1 hnd h1
  simp only [lb_st0_srv] at a1 a3
  by_cases hc : (st1.backlog && !sv1) = true
  · simp only [hc, if_true] at h2
    obtain ⟨⟨st2, o2⟩, g1, g2⟩ := lb_bind_inv h2
    obtain ⟨_, b2, _⟩ := l2_service_bound E debug _ st1 c.passes st2 o2 g1
    have hsv : sv1 = false := by
      cases hsv : sv1 with
      | false => rfl
      | true => simp [hsv] at hc
    have hm : Token.message ∉ c.events := by
      intro hm
      rw [a4 hm] at hsv
      cases hsv
    obtain ⟨_, c2, _⟩ := a5 hm
    cases g2
    rw [a1] at b2
    simp only [Out.append, c2, List.nil_append]
    exact b2
  · simp only [hc] at h2
    cases h2
    exact a3

/-- C08 for the translated code: from every server state satisfying the model invariant, for every set of tokens `poll`
    reports (the health-check token only with a configured listener), every receive queue, every clock a `SystemTime`
    can produce, every drawable fault-injection decision and every log level, `process_events` — as regenerated from
    the Rust source — returns normally (no panic, no error). -/
theorem GEN_process_events_returns (E : Env) (hE : EnvOK E) (hH : ∀ z, (E.H z).length = 64) (K : Keys) (hK : K.OK)
    (LOG : Nat) (x : GenRest) (s : Server) (hs : Inv E K s) (hb : s.batchSize ≤ 2 ^ 32)
    (sock : Gen.Sock) (buf : Bytes) (backlog : Bool) (ev : List Event) (gI gC : List Grease) (cI cC : Grease)
    (evs0 : List Nat) (toks : List Token)
    (hok : ∀ a k, sock.ok a k = true) (hfit : ∀ p ∈ sock.inq, p.1.length ≤ buf.length)
    (hpoll : x.poll.fails = false) (htoks : x.poll.ready.mapM tokenOf = some toks) (hnodup : x.poll.ready.Nodup)
    (hconn : ∀ c ∈ x.tcp.pending, c.writeOk = true ∧ c.shutOk = true)
    (hclock : ∀ k, clockOK ((sock.clock k).secs, (sock.clock k).nanos))
    (hgI : ∀ g ∈ gI, GreaseOK g) (hgC : ∀ g ∈ gC, GreaseOK g)
    (hhc : 2 ∈ x.poll.ready → x.health_listener.isSome) :
    ∃ r, Gen.Server.process_events E.S E.H LOG (toGenServer x s sock buf backlog ev ⟨gI, cI⟩ ⟨gC, cC⟩) evs0 = .ok r := by
  obtain ⟨passes, hfrom, hsim⟩ :=
    process_events_sim_env E hH LOG x s sock buf backlog ev gI gC cI cC evs0 toks hok hfit hpoll htoks hnodup hconn
  have hi : InsSafe passes := insSafe_of_fromEnv sock gI gC passes hfrom hclock hgI hgC
  have hh : Token.healthCheck ∈ toks → (loopOf x s sock backlog ev).hcListener = true := fun hm =>
    hhc (two_mem_of_healthCheck _ _ (PEAux.tokRel_of_mapM _ _ htoks) hm)
  obtain ⟨st', out, hr, _⟩ := Props.Loop.LOOP_call_safe E hE K hK (decide (LOG ≥ 4)) (loopOf x s sock backlog ev)
    hs hb ⟨toks, passes⟩ hi hh
  rw [hr] at hsim
  cases hg : Gen.Server.process_events E.S E.H LOG (toGenServer x s sock buf backlog ev ⟨gI, cI⟩ ⟨gC, cC⟩) evs0 with
  | ok r => exact ⟨r, rfl⟩
  | err => rw [hg] at hsim; exact False.elim hsim
  | panic p => rw [hg] at hsim; exact False.elim hsim

/-- the bound of `GEN_process_events_bounded` needs none of its assumptions on the server state, the clock, the
    fault-injection decisions or the listener: whenever the call returns, it has sent at most 16 · batch_size datagrams -/
theorem GEN_process_events_bounded_any (E : Env) (hH : ∀ z, (E.H z).length = 64)
    (LOG : Nat) (x : GenRest) (s : Server)
    (sock : Gen.Sock) (buf : Bytes) (backlog : Bool) (ev : List Event) (gI gC : List Grease) (cI cC : Grease)
    (evs0 : List Nat) (toks : List Token)
    (hok : ∀ a k, sock.ok a k = true) (hfit : ∀ p ∈ sock.inq, p.1.length ≤ buf.length)
    (hpoll : x.poll.fails = false) (htoks : x.poll.ready.mapM tokenOf = some toks) (hnodup : x.poll.ready.Nodup)
    (hconn : ∀ c ∈ x.tcp.pending, c.writeOk = true ∧ c.shutOk = true) :
    ∀ r, Gen.Server.process_events E.S E.H LOG (toGenServer x s sock buf backlog ev ⟨gI, cI⟩ ⟨gC, cC⟩) evs0 = .ok r →
      r.1.socket.out.length ≤ sock.out.length + 16 * s.batchSize := by
  intro r hr
  obtain ⟨passes, _, hsim⟩ :=
    process_events_sim_env E hH LOG x s sock buf backlog ev gI gC cI cC evs0 toks hok hfit hpoll htoks hnodup hconn
  rw [hr] at hsim
  cases hm : processEvents E (decide (LOG ≥ 4)) (loopOf x s sock backlog ev) ⟨toks, passes⟩ with
  | ok y =>
    rw [hm] at hsim
    have hobs : obsLoopGen r.1 = obsLoopModel x sock y := hsim
    have hout : r.1.socket.out = sock.out ++ y.2.sent.map some := congrArg (fun o => o.2.1) hobs
    have hbound := call_sent_bounded E (decide (LOG ≥ 4)) (loopOf x s sock backlog ev) ⟨toks, passes⟩
      (nodup_of_tokRel _ _ (PEAux.tokRel_of_mapM _ _ htoks) hnodup) y.1 y.2 hm
    have hbs : (loopOf x s sock backlog ev).srv.batchSize = s.batchSize := rfl
    rw [hbs] at hbound
    rw [hout, List.length_append, List.length_map]
    omega
  | err => rw [hm] at hsim; exact False.elim hsim
  | panic p => rw [hm] at hsim; exact False.elim hsim

set_option linter.unusedVariables false in
/-- C19 / C18 for the translated code: one call puts at most 16 batches' worth of replies on the wire — the number of
    datagrams sent by one `process_events` call never exceeds 16 · batch_size, whatever is queued.
    (The hypotheses `hE`, `hK`, `hs`, `hb`, `hclock`, `hgI`, `hgC`, `hhc` — under which the call does return,
    `GEN_process_events_returns` — are not needed for the bound: `GEN_process_events_bounded_any`.) -/
theorem GEN_process_events_bounded (E : Env) (hE : EnvOK E) (hH : ∀ z, (E.H z).length = 64) (K : Keys) (hK : K.OK)
    (LOG : Nat) (x : GenRest) (s : Server) (hs : Inv E K s) (hb : s.batchSize ≤ 2 ^ 32)
    (sock : Gen.Sock) (buf : Bytes) (backlog : Bool) (ev : List Event) (gI gC : List Grease) (cI cC : Grease)
    (evs0 : List Nat) (toks : List Token)
    (hok : ∀ a k, sock.ok a k = true) (hfit : ∀ p ∈ sock.inq, p.1.length ≤ buf.length)
    (hpoll : x.poll.fails = false) (htoks : x.poll.ready.mapM tokenOf = some toks) (hnodup : x.poll.ready.Nodup)
    (hconn : ∀ c ∈ x.tcp.pending, c.writeOk = true ∧ c.shutOk = true)
    (hclock : ∀ k, clockOK ((sock.clock k).secs, (sock.clock k).nanos))
    (hgI : ∀ g ∈ gI, GreaseOK g) (hgC : ∀ g ∈ gC, GreaseOK g)
    (hhc : 2 ∈ x.poll.ready → x.health_listener.isSome) :
    ∀ r, Gen.Server.process_events E.S E.H LOG (toGenServer x s sock buf backlog ev ⟨gI, cI⟩ ⟨gC, cC⟩) evs0 = .ok r →
      r.1.socket.out.length ≤ sock.out.length + 16 * s.batchSize :=
  GEN_process_events_bounded_any E hH LOG x s sock buf backlog ev gI gC cI cC evs0 toks hok hfit hpoll htoks hnodup hconn

end Rough.Props.GenLoop

import Rough.Lemmas.ServerSpec
/-
  C09 — exactly one response per accepted request, to its sender, for its own nonce.
  The socket is a parameter: a run is ANY list of passes, each pass having read any chunk of
  datagrams (only the first batch_size of a chunk are consumed) — this covers every arrival timing.
-/
namespace Rough.Props.C09
open Rough Rough.ServerSpec

/-- a freshly created server satisfies the invariant -/
theorem C09_new (E : Env) (hE : EnvOK E) (K : Keys) (hK : K.OK) (b : Nat) :
    ∃ s, Server.new E K.seed K.onlI K.onlC b = .ok s ∧ Inv E K s ∧ s.batchSize = b :=
  Lemmas.ServerSpec.new_inv E hE K hK b

/-- One pass, from any reachable state: the datagrams sent are exactly the reference responder's
    reply for each accepted IETF request (in arrival order, each to its own source, echoing its own
    nonce, with its own index and inclusion path in the batch of the accepted IETF requests of this
    pass, IETF-framed), followed by the same for the accepted classic requests (unframed).
    Rejected datagrams contribute nothing. The recorded statistics events are one per datagram
    received and one per datagram sent. The invariant is re-established (so the next pass starts
    from clean batches whatever sizes came before). -/
theorem C09_pass (E : Env) (hE : EnvOK E) (K : Keys) (hK : K.OK) (debug : Bool) (s : Server)
    (hs : Inv E K s) (hb : s.batchSize ≤ 2 ^ 32) (p : Server.Pass) (hp : PassOK p) :
    ∃ s', Server.pass E debug s p = .ok (s', expectedSent E K s p, expectedEvents E K s p) ∧
      Inv E K s' ∧ s'.batchSize = s.batchSize ∧ s'.srv = s.srv :=
  Lemmas.ServerSpec.pass_spec E hE K hK debug s hs hb p hp

/-- Any number of passes: the outputs are the concatenation of the per-pass expected outputs. -/
theorem C09_run (E : Env) (hE : EnvOK E) (K : Keys) (hK : K.OK) (debug : Bool) (s : Server)
    (hs : Inv E K s) (hb : s.batchSize ≤ 2 ^ 32) (ps : List Server.Pass) (hp : ∀ p ∈ ps, PassOK p) :
    ∃ s', Server.run E debug s ps = .ok (s', ps.flatMap (expectedSent E K s), ps.flatMap (expectedEvents E K s)) ∧
      Inv E K s' :=
  Lemmas.ServerSpec.run_spec E hE K hK debug s hs hb ps hp

/-- exactly one: the number of datagrams sent in a pass equals the number of accepted requests, and
    the i-th reply of a batch goes to the source of the i-th accepted request of that protocol -/
theorem C09_exactly_once (E : Env) (K : Keys) (ver : Version) (now : Nat × Nat) (reqs : List (Datagram × Bytes)) :
    (expectedBatch E K ver now reqs).length = reqs.length ∧
    ∀ i (h : i < reqs.length), ((expectedBatch E K ver now reqs)[i]?).map (·.dst) = some reqs[i].1.src :=
  Lemmas.ServerSpec.exactly_once E K ver now reqs

/-- protocol separation: an accepted request appears in exactly one of the two batches, the one of
    its own protocol -/
theorem C09_protocol_separation (srv : Bytes) (chunk : List Datagram) (d : Datagram) (n : Bytes) :
    ((d, n) ∈ accepted srv .ietf chunk → nonceFromRequest d.bytes srv = .ok (n, .ietf)) ∧
    ((d, n) ∈ accepted srv .google chunk → nonceFromRequest d.bytes srv = .ok (n, .google)) :=
  Lemmas.ServerSpec.protocol_separation srv chunk d n

end Rough.Props.C09

import Rough.Props.GenBasic
import Rough.Bridge.RequestLemmas
import Rough.Bridge.Sign
import Rough.Props.C13
/-
  Property theorems stated directly about the Lean code REGENERATED FROM /repo's RUST SOURCE on every run
  (`Gen.*`, Rough/Generated/Src/*.lean), obtained by composing a bridge theorem of Rough/Bridge/*.lean (generated
  function = model function up to `≃ᵣ`) with a model-level property theorem of Rough/Props/Cxx.lean.  Nothing new is
  proved about the model here: every theorem is "bridge ∘ property", so it re-checks on every run against what the
  code says now.  (Same pattern as Props/GenLoop.lean, for the codec, the request classifier, the Merkle tree, the
  signed midpoint, the incremental signer / verifier, the seed envelope, the client validation path and the
  per-client statistics.)
-/
namespace Rough.Props.GenCore
open Rough Rough.Bridge

/-! ### C13 — the incremental signer / verifier `MsgSigner`, `MsgVerifier` as generated -/

/-- run a history of `update` / `sign` calls on one generated signer object; outputs = the signatures in order -/
def genRunSigner (S : SigScheme) : Gen.MsgSigner → List SignerOp → Res (List Bytes)
  | _, [] => .ok []
  | g, .update d :: ops => (Gen.MsgSigner.update S g d).bind fun g' => genRunSigner S g' ops
  | g, .sign :: ops =>
    (Gen.MsgSigner.sign S g).bind fun p => (genRunSigner S p.2 ops).bind fun sigs => .ok (p.1 :: sigs)

/-- feed a list of chunks to one generated verifier object -/
def genUpdateAll (S : SigScheme) (g : Gen.MsgVerifier) (chunks : List Bytes) : Res Gen.MsgVerifier :=
  chunks.foldl (fun r d => r.bind fun g => Gen.MsgVerifier.update S g d) (.ok g)

/-- a history run on a generated `MsgSigner` never fails and yields the model's signatures (bridge `signer_update_eq` /
    `signer_sign_eq` iterated) -/
theorem genRunSigner_eq (S : SigScheme) (ops : List SignerOp) : ∀ s : Signer,
    genRunSigner S (toGenSigner s) ops = .ok (runSigner S s ops) := by
  induction ops with
  | nil => intro s; rfl
  | cons op ops ih =>
    intro s
    cases op with
    | update d => simp only [genRunSigner, runSigner, signer_update_eq, Res.bind_ok, ih]
    | sign => simp only [genRunSigner, runSigner, signer_sign_eq, Res.bind_ok, ih]

/-- feeding chunks to a generated `MsgVerifier` never fails and yields the model's verifier state (bridge
    `verifier_update_eq` iterated) -/
theorem genUpdateAll_eq (S : SigScheme) (chunks : List Bytes) : ∀ v : Verifier,
    genUpdateAll S (toGenVerifier v) chunks = .ok (toGenVerifier (chunks.foldl Verifier.update v)) := by
  induction chunks with
  | nil => intro v; rfl
  | cons d ds ih =>
    intro v
    have := ih (v.update d)
    unfold genUpdateAll at this ⊢
    simp only [List.foldl_cons, Res.bind_ok, verifier_update_eq]
    exact this

/-- C13 (signer) for the translated code: for every seed and every history of `update`s and `sign`s on one generated
    `MsgSigner` object starting with an empty buffer, every call returns normally and the k-th signature is the
    one-shot signature of the concatenated chunks of the k-th message alone (nothing carried over from earlier
    messages). -/
theorem GEN_signer (S : SigScheme) (seed : Bytes) (ops : List SignerOp) :
    genRunSigner S ⟨seed, []⟩ ops = .ok ((Props.C13.segments ops).map (S.sign seed)) := by
  have h := genRunSigner_eq S ops ⟨seed, []⟩
  rw [Props.C13.C13_signer] at h
  exact h

/-- C13 (no carry-over) for the translated code: the generated `MsgSigner::sign` signs exactly the buffered bytes and
    leaves an object indistinguishable from a new one for the same key. -/
theorem GEN_signer_no_carry_over (S : SigScheme) (g : Gen.MsgSigner) :
    Gen.MsgSigner.sign S g = .ok (S.sign g.signing_key g.buf, ⟨g.signing_key, []⟩) := by
  have h := signer_sign_eq S ⟨g.signing_key, g.buf⟩
  rw [Props.C13.C13_no_carry_over] at h
  exact h

/-- C13 (independence of chunking) for the translated code: feeding the same message to a generated `MsgSigner` in
    two different chunkings gives the same signature. -/
theorem GEN_signer_chunking (S : SigScheme) (seed : Bytes) (c1 c2 : List Bytes) (h : c1.flatten = c2.flatten) :
    genRunSigner S ⟨seed, []⟩ (c1.map .update ++ [.sign]) = genRunSigner S ⟨seed, []⟩ (c2.map .update ++ [.sign]) := by
  have h1 := genRunSigner_eq S (c1.map .update ++ [.sign]) ⟨seed, []⟩
  have h2 := genRunSigner_eq S (c2.map .update ++ [.sign]) ⟨seed, []⟩
  rw [Props.C13.C13_chunking S seed c1 c2 h] at h1
  exact h1.trans h2.symm

/-- C13 (verifier) for the translated code: for a parsable 32-byte key and a 64-byte signature, the generated
    `MsgVerifier` — `new`, then the message fed in arbitrary chunks through `update`, then `verify` — returns normally
    and accepts exactly when one-shot verification of the concatenation does. -/
theorem GEN_verifier (S : SigScheme) (pk : Bytes) (chunks : List Bytes) (sig : Bytes)
    (hpk : pk.length = 32) (hv : S.pkValid pk = true) (hs : sig.length = 64) :
    ((Gen.MsgVerifier.new S pk).bind fun g => (genUpdateAll S g chunks).bind fun g' => Gen.MsgVerifier.verify S g' sig)
      = .ok (S.verify pk chunks.flatten sig) := by
  have hm := Props.C13.C13_verifier S pk chunks sig hpk hv hs
  have hsim : ((Gen.MsgVerifier.new S pk).bind fun g => (genUpdateAll S g chunks).bind fun g' =>
      Gen.MsgVerifier.verify S g' sig) ≃ᵣ
      (Verifier.new S pk).bind (fun v => (chunks.foldl Verifier.update v).verify S sig) := by
    refine Sim.bind_map (verifier_new_sim S pk) fun v => ?_
    rw [genUpdateAll_eq, Res.bind_ok]
    exact verifier_verify_sim S _ sig
  rw [hm] at hsim
  exact eq_ok_of_sim hsim


end Rough.Props.GenCore

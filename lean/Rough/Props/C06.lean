import Rough.Lemmas.Codec
/-
  C06 — decoding and printing untrusted bytes never panics or reads out of bounds.
  In the model every Rust slice/index/unchecked subtraction of message.rs is an explicit
  `Res.panic` branch (Model/Codec.lean), so these are statements about reachable panic sites.
-/
namespace Rough.Props.C06
open Rough

/-- header length of an encoded message with n ≥ 1 fields -/
def headerLen (n : Nat) : Nat := 8 * n

/-- for every byte string of any length, decoding returns a message or an error, never a panic. -/
theorem C06_total (b : Bytes) (s : String) : fromBytes b ≠ .panic s :=
  Lemmas.fromBytes_no_panic b s

/-- the values of an accepted non-empty message, concatenated in order, are exactly the input
    bytes that follow the header: nothing invented, nothing read past the end. -/
theorem C06_payload (b : Bytes) (m : Msg) (h : fromBytes b = .ok m) (hne : m.fields ≠ []) :
    headerLen m.fields.length ≤ b.length ∧ m.values.flatten = b.drop (headerLen m.fields.length) :=
  Lemmas.payload b m h hne

/-- formatting any message for display (repaired code: a nested value that does not parse is
    printed as hex) returns normally whatever bytes its nested fields contain, at every
    indentation level ≥ 1 — in particular the fuel (= byte count + 2) is never exhausted. -/
theorem C06_display (m : Msg) (s : String) : display false m ≠ .panic s :=
  Lemmas.display_no_panic m s

/-- the unrepaired code (`from_bytes(value).unwrap()`) does panic: the concrete witness of finding F4. -/
theorem C06_display_unfixed_witness :
    ∃ b m s, fromBytes b = .ok m ∧ display true m = .panic s :=
  Lemmas.display_unfixed_witness

end Rough.Props.C06

import Rough.Lemmas.Config
/-
  C16 — effective settings equal the written ones (file or env), else start is refused.
  `start fs defaults src entries = some c` means the server starts with effective configuration c;
  `none` means start-up is refused (loader error, loader panic, or failed validation).
  Integer settings are written in decimal (`showInt`). yaml-rust's scalar typing, `str::parse` and the
  file system are represented by the small functions of Model/Config.lean, which the probe-process
  correspondence validates against the real loaders on a boundary grid.
-/
namespace Rough.Props.C16
open Rough Rough.Config

/-- Never silently replaced: if the server starts from a source in which an integer setting is
    written once with value v, the value it runs with IS v — for every key, every v (including the
    type-width wrap points 256, 65536, 2^32 …), both sources, whatever the other settings are. -/
theorem C16_effective_is_written (fs : FsFacts) (d : Cfg) (src : Source) (entries : List (String × String))
    (hnd : (entries.map (·.1)).Nodup) (k : IntKey) (v : Int) (hmem : (k.name, showInt v) ∈ entries)
    (c : Cfg) (h : start fs d src entries = some c) :
    c.get k = some v.toNat ∧ 0 ≤ v :=
  Lemmas.Config.effective_is_written fs d src entries hnd k v hmem c h

/-- Out-of-range values make start-up fail: a written value outside the documented range
    (port 1–65535, batch_size 1–64, fault_percentage 0–50, num_workers ≥ 1; negative anything) is
    refused by both sources. -/
theorem C16_out_of_range_refused (fs : FsFacts) (d : Cfg) (src : Source) (entries : List (String × String))
    (hnd : (entries.map (·.1)).Nodup) (k : IntKey) (v : Int) (hmem : (k.name, showInt v) ∈ entries)
    (hout : ¬ k.documented v) :
    start fs d src entries = none :=
  Lemmas.Config.out_of_range_refused fs d src entries hnd k v hmem hout

/-- every configuration the server runs with is inside the documented ranges (given defaults that
    are), with a 32-byte plaintext seed -/
theorem C16_effective_in_range (fs : FsFacts) (d : Cfg) (src : Source) (entries : List (String × String))
    (c : Cfg) (h : start fs d src entries = some c) :
    1 ≤ c.port ∧ 1 ≤ c.batchSize ∧ c.batchSize ≤ 64 ∧ c.faultPct ≤ 50 ∧ 1 ≤ c.numWorkers ∧
    c.interface ≠ "" ∧ (c.kmsPlain = true → c.seed.length = 32) :=
  Lemmas.Config.effective_in_range fs d src entries c h

/-- both sources treat a decimal value the same way: for every integer key and every n < 65536 the
    file step and the environment step produce the same configuration or both refuse (for the four
    range-documented keys and health_check_port this holds for every n at all; for num_workers for
    every n outside [2^63, 2^64), see the witness below). -/
theorem C16_sources_agree (c : Cfg) (k : IntKey) (n : Nat)
    (hn : n < 65536 ∨ k = .port ∨ k = .batchSize ∨ k = .faultPct ∨ k = .hcPort ∨ k = .numWorkers)
    (hNumWorkersGap : k = .numWorkers → n < 2 ^ 63 ∨ 2 ^ 64 ≤ n) :
    fileSet c k.name (showNat n) = envSet c k.name (showNat n) :=
  Lemmas.Config.sources_agree c k n hn hNumWorkersGap

/-- the one asymmetry the proof exposed: a num_workers value in [2^63, 2^64) is refused by the file
    source (YAML integers are i64) but accepted by the environment source (usize). Far outside any
    documented use (the value is a thread count); recorded here rather than hidden. -/
theorem C16_sources_disagree_witness (c : Cfg) :
    fileSet c IntKey.numWorkers.name (showNat (2 ^ 63)) = none ∧
    envSet c IntKey.numWorkers.name (showNat (2 ^ 63)) = some { c with numWorkers := 2 ^ 63 } :=
  Lemmas.Config.sources_disagree_numWorkers c

/-- an unknown key in the file makes start-up fail -/
theorem C16_unknown_key_refused (fs : FsFacts) (d : Cfg) (entries : List (String × String))
    (key val : String) (hmem : (key, val) ∈ entries) (hunk : key ∉ knownKeys) :
    start fs d .file entries = none :=
  Lemmas.Config.unknown_key_refused fs d entries key val hmem hunk

/-- a missing required setting (port, interface, seed) makes start-up fail, from either source -/
theorem C16_missing_required (fs : FsFacts) (src : Source) (entries : List (String × String))
    (req : String) (hreq : req = "port" ∨ req = "interface" ∨ req = "seed")
    (hmiss : ∀ kv ∈ entries, kv.1 ≠ req) (numWorkers : Nat) :
    start fs { numWorkers := numWorkers } src entries = none :=
  Lemmas.Config.missing_required fs src entries req hreq hmiss numWorkers

/-- decimal rendering and the two integer parsers are inverse -/
theorem C16_parse_show (n bits : Nat) :
    parseUnsigned bits (showNat n) = (if n < 2 ^ bits then some n else none) ∧
    yamlInt (showNat n) = (if (n : Int) < 2 ^ 63 then some (n : Int) else none) :=
  Lemmas.Config.parse_show n bits

end Rough.Props.C16

import Rough.Lemmas.Stats
/-
  C17 — request statistics conserve events, stay bounded, and match the traffic served.
-/
namespace Rough.Props.C17
open Rough Rough.Stats Rough.ServerSpec

/-- sum of all per-address counters of all kinds -/
def PerClient.grandTotal (s : PerClient) : Nat := (Kind.all.map s.total).sum

/-- Conservation for every history and every limit: no counter ever exceeds the number of events
    of exactly its kind for exactly its address (an event never lands in another counter), and the
    counters plus the overflow count add up to the number of events (each event is reflected exactly
    once: in its counter or in the overflow count, never both, never lost). -/
theorem C17_conservation (limit : Nat) (h : List Event) :
    let s := PerClient.run (PerClient.init limit) h
    (∀ a k, s.get a k ≤ count h a k) ∧ PerClient.grandTotal s + s.overflows = h.length :=
  Lemmas.Stats.conservation limit h

/-- the number of tracked addresses never exceeds the limit (for limit ≥ 1; with limit 0 nothing is
    tracked), and no address is tracked twice -/
theorem C17_bounded (limit : Nat) (h : List Event) :
    let s := PerClient.run (PerClient.init limit) h
    s.clients.length ≤ limit ∧ (s.clients.map (·.1)).Nodup :=
  Lemmas.Stats.bounded limit h

/-- while no overflow has occurred the per-client recorder reports exactly the totals of the
    aggregated recorder, for every getter -/
theorem C17_equiv (limit : Nat) (h : List Event)
    (h0 : (PerClient.run (PerClient.init limit) h).overflows = 0) :
    (PerClient.run (PerClient.init limit) h).totals = (Aggregated.run Aggregated.init h).totals :=
  Lemmas.Stats.equiv limit h h0

/-- the aggregated recorder counts every event exactly once in the counter of its kind -/
theorem C17_aggregated (h : List Event) (k : Kind) :
    (Aggregated.run Aggregated.init h).c.get k = (h.filter fun e => e.kind = k).length :=
  Lemmas.Stats.aggregated h k

/-- merging per-worker snapshots in the reporter preserves every per-address sum: the merged
    counter of kind k for address a is the sum of that counter over all snapshot entries for a -/
theorem C17_merge (snapshots : List (List (Addr × Counters))) (a : Addr) (k : Kind) :
    (((reporterReceive [] snapshots).find? (fun p => p.1 = a)).map (·.2.get k)).getD 0
      = ((snapshots.flatten.filter fun p => p.1 = a).map (·.2.get k)).sum :=
  Lemmas.Stats.merge snapshots a k

/-- wiring: the events a pass records (C09_pass) make the totals equal the traffic of the pass:
    valid = accepted requests, invalid = the other datagrams read, responses = datagrams sent,
    bytes = total length of the datagrams sent. -/
theorem C17_wiring (E : Env) (K : Keys) (s : Server) (p : Server.Pass) :
    let t := (Aggregated.run Aggregated.init (expectedEvents E K s p)).totals
    let chunk := p.chunk.take s.batchSize
    let nI := (accepted s.srv .ietf chunk).length
    let nC := (accepted s.srv .google chunk).length
    t.rfcRequests = nI ∧ t.classicRequests = nC ∧ t.validRequests = nI + nC ∧
    t.invalidRequests + nI + nC = chunk.length ∧
    t.responses = (expectedSent E K s p).length ∧ t.rfcResponses = nI ∧ t.classicResponses = nC ∧
    t.bytesSent = ((expectedSent E K s p).map (·.bytes.length)).sum ∧
    t.healthChecks = 0 ∧ t.failedSends = 0 ∧ t.retriedSends = 0 :=
  Lemmas.Stats.wiring E K s p

example : (PerClient.run (PerClient.init 1) [⟨.ietfReq, 1, 0⟩, ⟨.classicReq, 2, 0⟩, ⟨.ietfReq, 1, 0⟩]).overflows = 2 := by
  decide

end Rough.Props.C17

import Rough.Props.GenBasic
import Rough.Bridge.Request
import Rough.Props.C07
import Rough.Props.C12
/-
  Property theorems stated directly about the Lean code REGENERATED FROM /repo's RUST SOURCE on every run
  (`Gen.*`, Rough/Generated/Src/*.lean), obtained by composing a bridge theorem of Rough/Bridge/*.lean (generated
  function = model function up to `≃ᵣ`) with a model-level property theorem of Rough/Props/Cxx.lean.  Nothing new is
  proved about the model here: every theorem is "bridge ∘ property", so it re-checks on every run against what the
  code says now.  (Same pattern as Props/GenLoop.lean, for the codec, the request classifier, the Merkle tree, the
  signed midpoint, the incremental signer / verifier, the seed envelope, the client validation path and the
  per-client statistics.)
-/
namespace Rough.Props.GenCore
open Rough Rough.Bridge

/-! ### C07 / C12 — the request classifier `nonce_from_request(buf, num_bytes, expected_srv)` as generated -/

/-- C07 (totality) for the translated code: for every receive buffer, every datagram length that fits in it and every
    SRV value, the generated classifier returns a nonce or an error — it never panics. -/
theorem GEN_request_total (buf : Bytes) (n : Nat) (srv : Bytes) (hn : n ≤ buf.length) (s : String) :
    Gen.nonce_from_request buf n srv ≠ .panic s := by
  intro h
  have := nonce_from_request_no_panic buf n srv hn
  rw [h] at this
  cases this

/-- C07 (only well-formed requests are answered) for the translated code: if the generated classifier accepts the
    datagram `buf[..n]` with nonce `nonce` and protocol `v`, then the datagram is 1024..1500 bytes long, the nonce has
    the protocol's length, the reference classification (written from the property text) says this datagram MUST be
    answered with exactly that nonce, and `v` is the protocol the datagram's framing selects. -/
theorem GEN_request_only_wellformed (buf : Bytes) (n : Nat) (srv nonce : Bytes) (v : Version) (hn : n ≤ buf.length)
    (h : Gen.nonce_from_request buf n srv = .ok (nonce, v)) :
    1024 ≤ n ∧ n ≤ 1500 ∧ nonce.length = v.nonceLen ∧
    Spec.RT.classifyRequest (Spec.RT.protoOf (buf.take n)) srv (buf.take n) = .must nonce ∧
    v = Props.C12.versionOf (Spec.RT.protoOf (buf.take n)) := by
  have hm := (Res.Sim.ok_iff (nonce_from_request_sim buf n srv hn) (nonce, v)).mp h
  have hlen : (buf.take n).length = n := by rw [List.length_take]; omega
  have := Props.C07.C07_only_wellformed (buf.take n) srv nonce v hm
  rw [hlen] at this
  exact this

/-- C12 (agreement with the reference classification) for the translated code, on every receive buffer, datagram
    length that fits in it and server: a datagram the reference says MUST be answered is accepted by the generated
    classifier with exactly that nonce and protocol; one it says MAY be answered (draft-13 only beyond the fourth VER
    entry) and one it says must NOT be answered are rejected with an error. -/
theorem GEN_request_spec (buf : Bytes) (n : Nat) (srv : Bytes) (hn : n ≤ buf.length) :
    (∀ x, Spec.RT.classifyRequest (Spec.RT.protoOf (buf.take n)) srv (buf.take n) = .must x →
        Gen.nonce_from_request buf n srv = .ok (x, Props.C12.versionOf (Spec.RT.protoOf (buf.take n)))) ∧
    (∀ x, Spec.RT.classifyRequest (Spec.RT.protoOf (buf.take n)) srv (buf.take n) = .may x →
        Gen.nonce_from_request buf n srv = .err) ∧
    (Spec.RT.classifyRequest (Spec.RT.protoOf (buf.take n)) srv (buf.take n) = .no →
        Gen.nonce_from_request buf n srv = .err) := by
  have hsim := nonce_from_request_sim buf n srv hn
  obtain ⟨h1, h2, h3⟩ := Props.C12.C12_spec (buf.take n) srv
  exact ⟨fun x hx => (Res.Sim.ok_iff hsim _).mpr (h1 x hx), fun x hx => (Res.Sim.err_iff hsim).mpr (h2 x hx),
    fun hx => (Res.Sim.err_iff hsim).mpr (h3 hx)⟩

/-- C12 (answered only if …) for the translated code: if the generated classifier accepts the datagram `buf[..n]` as
    an IETF request, then the datagram is a framed message that decodes (reference decoder), whose VER list contains
    draft-13, whose SRV — when present — is this server's, and whose NONC is the returned 32-byte nonce. -/
theorem GEN_request_only_if (buf : Bytes) (n : Nat) (srv nonce : Bytes) (hn : n ≤ buf.length)
    (h : Gen.nonce_from_request buf n srv = .ok (nonce, .ietf)) :
    ∃ body m v, Spec.RT.unframe (buf.take n) = some body ∧ Spec.decode body = some m ∧ m.get Tag.VER = some v ∧
      (Spec.RT.versionList v).contains Spec.RT.ver13 = true ∧ (m.get Tag.SRV = none ∨ m.get Tag.SRV = some srv) ∧
      m.get Tag.NONC = some nonce ∧ nonce.length = 32 :=
  Props.C12.C12_only_if (buf.take n) srv nonce ((Res.Sim.ok_iff (nonce_from_request_sim buf n srv hn) _).mp h)


end Rough.Props.GenCore

import Rough.Lemmas.ServerAssembly
/-
  C02 — every server response verifies under an independent spec-derived verifier.
-/
namespace Rough.Props.C02
open Rough Rough.ServerSpec Rough.Spec

/-- The reference verifier accepts the reference responder: for every batch (any size ≥ 1 up to
    2^32, any leaves), every position, every key material, every midpoint and radius in range. This is
    the cryptographic core; it assumes only completeness of the signature scheme and output lengths. -/
theorem C02_respond_accepted (S : SigScheme) (hS : S.Correct) (H : Bytes → Bytes) (hH : ∀ x, (H x).length = 64)
    (hsig : ∀ seed m, (S.sign seed m).length = 64) (hpk : ∀ seed, (S.pk seed).length = 32)
    (p : RT.Proto) (ltSeed onlSeed : Bytes) (hlt : ltSeed.length = 32) (hon : onlSeed.length = 32)
    (midp radi : Nat) (hm : midp < 2 ^ 64) (hr : radi < 2 ^ 32)
    (leaves : List Bytes) (i : Nat) (hi : i < leaves.length) (hn : leaves.length ≤ 2 ^ 32)
    (request nonce : Bytes) (hnonce : nonce.length % 4 = 0) (hnl : nonce.length < 2 ^ 16)
    (hleaf : leaves[i] = (match p with | .classic => nonce | .draft13 => request)) :
    RT.verifyResponse S H p (S.pk ltSeed) request nonce
      (RT.respond S H p ltSeed onlSeed midp radi 0 (2 ^ 64 - 1) leaves i nonce) = .ok (midp, radi) :=
  Lemmas.SpecRT.respond_accepted S hS H hH hsig hpk p ltSeed onlSeed hlt hon midp radi hm hr leaves i hi hn
    request nonce hnonce hnl hleaf

/-- Every datagram a pass sends (no fault injection) is accepted by the independent verifier for
    the request that elicited it, under the server's long-term key — for every reachable server
    state (any history of earlier batches), any chunk, any batch composition and position. -/
theorem C02_honest (E : Env) (hE : EnvOK E) (hS : E.S.Correct) (K : Keys) (hK : K.OK) (debug : Bool)
    (s : Server) (hs : Inv E K s) (hb : s.batchSize ≤ 2 ^ 32) (p : Server.Pass) (hp : PassOK p) :
    ∃ s' sent ev, Server.pass E debug s p = .ok (s', sent, ev) ∧
      ∀ ver, ∀ i (h : i < (accepted s.srv ver (p.chunk.take s.batchSize)).length),
        let reqs := accepted s.srv ver (p.chunk.take s.batchSize)
        let now := match ver with | .ietf => p.nowIetf | .google => p.nowClassic
        ∃ x ∈ sent, x.dst = reqs[i].1.src ∧
          RT.verifyResponse E.S E.H (protoOfVer ver) (E.S.pk K.seed) reqs[i].1.bytes reqs[i].2 x.bytes
            = .ok (midpVal ver now, radiOf ver) :=
  Lemmas.ServerAssembly.honest E hE hS K hK debug s hs hb p hp

end Rough.Props.C02

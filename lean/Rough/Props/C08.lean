import Rough.Lemmas.ServerSpec
/-
  C08 — no datagram sequence can crash or wedge a serving worker.
  Panic-site inventory modelled as `Res.panic` branches: request.rs slices/subtraction, message.rs
  (C06), merkle.rs indexing and asserts (C04), responder.rs unwraps and the `nonce[0..4]` slice inside
  `debug!` (evaluated iff the log level enables Debug), grease.rs unwraps, online.rs arithmetic.
-/
namespace Rough.Props.C08
open Rough Rough.ServerSpec

/-- One pass never panics and re-establishes the invariant — for every chunk of arbitrary
    datagrams (any bytes, any lengths, any number), every log level (debug on or off), and every
    fault-injection decision the Rust code can draw. -/
theorem C08_pass_safe (E : Env) (hE : EnvOK E) (K : Keys) (hK : K.OK) (debug : Bool) (s : Server)
    (hs : Inv E K s) (hb : s.batchSize ≤ 2 ^ 32) (p : Server.Pass) (hp : PassSafe p) :
    ∃ s' sent ev, Server.pass E debug s p = .ok (s', sent, ev) ∧ Inv E K s' ∧
      s'.batchSize = s.batchSize :=
  Lemmas.ServerSpec.pass_safe E hE K hK debug s hs hb p hp

/-- Induction over any finite history of passes: processing always returns normally. -/
theorem C08_run_safe (E : Env) (hE : EnvOK E) (K : Keys) (hK : K.OK) (debug : Bool) (s : Server)
    (hs : Inv E K s) (hb : s.batchSize ≤ 2 ^ 32) (ps : List Server.Pass) (hp : ∀ p ∈ ps, PassSafe p) :
    ∃ s' sent ev, Server.run E debug s ps = .ok (s', sent, ev) ∧ Inv E K s' :=
  Lemmas.ServerSpec.run_safe E hE K hK debug s hs hb ps hp

/-- … and a valid request sent afterwards is answered correctly: after ANY history, a pass without
    fault injection produces exactly the reference responder's replies (C09_pass from the invariant),
    which the independent verifier accepts (C02). -/
theorem C08_still_serves (E : Env) (hE : EnvOK E) (K : Keys) (hK : K.OK) (debug : Bool) (s : Server)
    (hs : Inv E K s) (hb : s.batchSize ≤ 2 ^ 32) (ps : List Server.Pass) (hp : ∀ p ∈ ps, PassSafe p)
    (q : Server.Pass) (hq : PassOK q) :
    ∃ s' sent ev s'', Server.run E debug s ps = .ok (s', sent, ev) ∧
      Server.pass E debug s' q = .ok (s'', expectedSent E K s' q, expectedEvents E K s' q) :=
  Lemmas.ServerSpec.still_serves E hE K hK debug s hs hb ps hp q hq

/-- the unrepaired request parser (any nonce length accepted) let a panic through at Debug level:
    a 0-byte nonce makes `nonce[0..4]` panic — the witness of finding F5. -/
theorem C08_unfixed_witness : slice ([] : Bytes) 0 4 "responder.rs:send_responses:nonce[0..4]" =
    .panic "responder.rs:send_responses:nonce[0..4]" := by decide

end Rough.Props.C08

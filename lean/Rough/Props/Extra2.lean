import Rough.Lemmas.Extra2
/-
  Second batch of additional theorems (C03, C05, C09, C16), attributed to their properties in
  checklib/props.py.
-/
namespace Rough.Props.Extra2
open Rough Rough.ServerSpec Rough.Spec Rough.Config

/-- C03 (stronger than completeness w.r.t. the reference responder): the client accepts EVERY
    datagram that the independent spec verifier accepts for its request — whoever produced it — and
    reports exactly the midpoint and radius the verifier extracts, verified = key supplied, and the
    signed index. Hypotheses: the datagram fits the client's 4096-byte buffer; a pinned key is the key
    the verifier used, is 32 bytes, and keys under which a signature verifies are parsable keys (true
    of Ed25519: an undecodable key verifies nothing). -/
theorem C03_accepts_spec_valid (S : SigScheme) (hv : ∀ pk m s, S.verify pk m s = true → S.pkValid pk = true)
    (H : Bytes → Bytes) (ver : Version) (ltpk request nonce dg : Bytes) (hdg : dg.length ≤ 4096)
    (hlt : ltpk.length = 32) (midp radi : Nat)
    (hok : RT.verifyResponse S H (protoOfVer ver) ltpk request nonce dg = .ok (midp, radi))
    (pk? : Option Bytes) (hk : pk? = none ∨ pk? = some ltpk) :
    ∃ idx, Client.handleResponse S H ver pk? nonce request dg = .ok ⟨midp, radi, pk?.isSome, idx⟩ :=
  Lemmas.Extra2.accepts_spec_valid S hv H ver ltpk request nonce dg hdg hlt midp radi hok pk? hk

/-- C09: no client receives a usable response built for another client's request — if the reply
    the server built for position i of a batch is accepted by the spec verifier for a request whose
    Merkle leaf is not the leaf at position i, SHA-512 is broken (explicit collision / zero preimage). -/
theorem C09_no_cross_client (S : SigScheme) (H : Bytes → Bytes) (hH : ∀ x, (H x).length = 64)
    (hsig : ∀ seed m, (S.sign seed m).length = 64) (hpk : ∀ seed, (S.pk seed).length = 32)
    (p : RT.Proto) (ltpk ltSeed onlSeed : Bytes) (midp radi : Nat)
    (leaves : List Bytes) (i : Nat) (hi : i < leaves.length) (hn : leaves.length ≤ 2 ^ 32)
    (nonceI : Bytes) (hni : nonceI.length % 4 = 0) (hnil : nonceI.length < 2 ^ 16)
    (otherRequest otherNonce : Bytes)
    (hother : (match p with | .classic => otherNonce | .draft13 => otherRequest) ≠ leaves[i])
    (res : Nat × Nat)
    (hacc : RT.verifyResponse S H p ltpk otherRequest otherNonce
      (RT.respond S H p ltSeed onlSeed midp radi 0 (2 ^ 64 - 1) leaves i nonceI) = .ok res) :
    MT.Broken (RT.mcfg H p) :=
  Lemmas.Extra2.no_cross_client S H hH hsig hpk p ltpk ltSeed onlSeed midp radi leaves i hi hn nonceI hni hnil
    otherRequest otherNonce hother res hacc

/-- C05/C06: every value of every accepted message is 4-byte aligned (so nested decoding and the
    u32/u64 readers never see ragged input) -/
theorem C05_values_aligned (b : Bytes) (m : Msg) (h : fromBytes b = .ok m) : m.Aligned :=
  Lemmas.Extra2.values_aligned b m h

/-- C16: a seed text that is not valid hexadecimal makes start-up fail, from either source -/
theorem C16_bad_seed_text_refused (fs : FsFacts) (d : Cfg) (src : Source) (entries : List (String × String))
    (hnd : (entries.map (·.1)).Nodup) (txt : String) (hmem : ("seed", txt) ∈ entries)
    (hq : txt.toList.head? ≠ some '"') (hbad : hexDecode txt = none) :
    start fs d src entries = none :=
  Lemmas.Extra2.bad_seed_text_refused fs d src entries hnd txt hmem hq hbad

end Rough.Props.Extra2

import Rough.Lemmas.Envelope
/-
  C14 — envelope-encrypted seed: round-trips, detects tampering, leaks nothing.
  `A : Aead` and `K : Kms` are arbitrary (both may fail). Nothing is assumed about their security:
  the tampering theorems are reductions that exhibit what the attacker must have achieved.
-/
namespace Rough.Props.C14
open Rough Rough.Envelope

/-- Round trip for every seed of at least 32 bytes, every provider whose unwrap inverts its wrap on
    this key, every wrapped-key length below 2^16 (in particular 16..=1024). -/
theorem C14_round_trip (K : Kms) (A : Aead) (hA : A.Correct)
    (hlen : ∀ k n ad pt ct, A.sealF k n ad pt = some ct → ct.length = pt.length + 16)
    (dek nonce seed w : Bytes) (hd : dek.length = 32) (hn : nonce.length = 12)
    (hw : K.wrap dek = some w) (hu : K.unwrap w = some dek) (hwl : w.length < 2 ^ 16)
    (hs : 32 ≤ seed.length) :
    ∃ blob, encrypt K A dek nonce seed = .ok blob ∧ decrypt K A blob = .ok seed :=
  Lemmas.Envelope.round_trip K A hA hlen dek nonce seed w hd hn hw hu hwl hs

/-- parsing inverts the layout -/
theorem C14_parse_layout (w nonce ct : Bytes) (hn : nonce.length = 12) (hwl : w.length < 2 ^ 16)
    (hmin : MIN_PAYLOAD_SIZE ≤ 4 + w.length + 12 + ct.length) :
    parse (layout w nonce ct) = some (w, nonce, ct) :=
  Lemmas.Envelope.parse_layout w nonce ct hn hwl hmin

/-- … and the layout inverts parsing: a blob is determined by its three components (so two
    different blobs differ in the wrapped key, the nonce or the ciphertext). -/
theorem C14_parse_injective (b b' : Bytes) (x : Bytes × Bytes × Bytes)
    (h : parse b = some x) (h' : parse b' = some x) : b = b' :=
  Lemmas.Envelope.parse_injective b b' x h h'

/-- Tamper evidence as a reduction: if ANY blob different from the honest one decrypts successfully,
    then its (wrapped key, nonce, ciphertext) triple differs from the honest triple, the provider
    unwrapped that wrapped key to a 32-byte key, and the AEAD opened that ciphertext under that key
    and nonce — i.e. the attacker holds an AEAD forgery or the provider is malleable. Covers every
    modification, truncation and extension at once. -/
theorem C14_tamper (K : Kms) (A : Aead) (w nonce ct : Bytes) (hn : nonce.length = 12) (hwl : w.length < 2 ^ 16)
    (hmin : MIN_PAYLOAD_SIZE ≤ 4 + w.length + 12 + ct.length)
    (blob' p' : Bytes) (hne : blob' ≠ layout w nonce ct) (hdec : decrypt K A blob' = .ok p') :
    ∃ w' n' c' dek', parse blob' = some (w', n', c') ∧ (w', n', c') ≠ (w, nonce, ct) ∧
      K.unwrap w' = some dek' ∧ dek'.length = 32 ∧ A.openF dek' n' AD c' = some p' :=
  Lemmas.Envelope.tamper K A w nonce ct hn hwl hmin blob' p' hne hdec

/-- A provider returning a different data key: success would be an AEAD opening of the honest
    ciphertext under that other key (a forgery); a key of the wrong length is always an error. -/
theorem C14_wrong_key (K' : Kms) (A : Aead) (w nonce ct dek' : Bytes) (hn : nonce.length = 12)
    (hwl : w.length < 2 ^ 16) (hmin : MIN_PAYLOAD_SIZE ≤ 4 + w.length + 12 + ct.length)
    (hu : K'.unwrap w = some dek') :
    (dek'.length ≠ 32 → decrypt K' A (layout w nonce ct) = .err) ∧
    (∀ p, decrypt K' A (layout w nonce ct) = .ok p → A.openF dek' nonce AD ct = some p) :=
  Lemmas.Envelope.wrong_key K' A w nonce ct dek' hn hwl hmin hu

/-- the blob is exactly le16 |wrapped| ‖ le16 12 ‖ wrapped ‖ nonce ‖ AEAD output: neither the seed nor
    the data key is an input of the layout (they enter only through the provider and the AEAD);
    a failing provider or AEAD makes encryption fail. -/
theorem C14_layout (K : Kms) (A : Aead) (dek nonce seed b : Bytes) (h : encrypt K A dek nonce seed = .ok b) :
    ∃ w ct, K.wrap dek = some w ∧ A.sealF dek nonce AD seed = some ct ∧ b = layout w nonce ct :=
  Lemmas.Envelope.layout_of_encrypt K A dek nonce seed b h

end Rough.Props.C14

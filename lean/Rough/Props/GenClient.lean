import Rough.Props.GenBasic
import Rough.Bridge.Client
import Rough.Props.C01
/-
  Property theorems stated directly about the Lean code REGENERATED FROM /repo's RUST SOURCE on every run
  (`Gen.*`, Rough/Generated/Src/*.lean), obtained by composing a bridge theorem of Rough/Bridge/*.lean (generated
  function = model function up to `≃ᵣ`) with a model-level property theorem of Rough/Props/Cxx.lean.  Nothing new is
  proved about the model here: every theorem is "bridge ∘ property", so it re-checks on every run against what the
  code says now.  (Same pattern as Props/GenLoop.lean, for the codec, the request classifier, the Merkle tree, the
  signed midpoint, the incremental signer / verifier, the seed envelope, the client validation path and the
  per-client statistics.)
-/
namespace Rough.Props.GenCore
open Rough Rough.Bridge

/-! ### C01 — the client's validation path: `receive_response`, `ResponseHandler::new`, `extract_time` as generated -/

/-- everything the client does with a received datagram, with the generated functions: `receive_response` on the
    receive buffer and the number of bytes received, then `ResponseHandler::new(..)`, then `extract_time()` -/
def genHandle (S : SigScheme) (H : Bytes → Bytes) (ver : Version) (pk : Option Bytes) (nonce request : Bytes)
    (buf : Bytes) (n : Nat) : Res Gen.ParsedResponse :=
  (Gen.receive_response S H ver buf n).bind fun msg =>
    (Gen.ResponseHandler.new S H ver pk msg nonce request).bind fun h => Gen.ResponseHandler.extract_time S H h

/-- the generated response path simulates the model's `Client.handleResponse`, on the client's zeroed 4096-byte
    receive buffer holding the datagram -/
theorem genHandle_sim (S : SigScheme) (H : Bytes → Bytes) (hH : ∀ x, (H x).length = 64) (ver : Version)
    (pk : Option Bytes) (nonce request dg : Bytes) (hdg : dg.length ≤ 4096) :
    genHandle S H ver pk nonce request (dg ++ zeros (4096 - dg.length)) dg.length ≃ᵣ
      (Client.handleResponse S H ver pk nonce request dg).map toParsed := by
  have hrecv := receive_response_sim S H ver dg
  rw [List.take_of_length_le hdg] at hrecv
  unfold genHandle Client.handleResponse
  exact Cl.Sim.bind_mapR' hrecv fun msg => handle_sim S H hH ver pk nonce request msg

/-- C01 (soundness / fail-closed) for the translated code, with SHA-512 as the parameter `H` (64-byte outputs): with
    a pinned key, for every datagram of at most 4096 bytes placed in the client's zeroed 4096-byte receive buffer,
    if the generated validation path (`receive_response`, `ResponseHandler::new`, `extract_time`) returns a result
    instead of panicking (= non-zero exit, no time printed), then the result says verified = true and the datagram is
    authentic under that key for the client's own request by the property's own list of conditions — signature chain
    under the protocol's context strings, midpoint inside the delegation window, Merkle proof binding this request to
    the signed root — with exactly the reported midpoint and radius. -/
theorem GEN_client_sound (S : SigScheme) (H : Bytes → Bytes) (hH : ∀ x, (H x).length = 64) (ver : Version)
    (pk nonce request dg : Bytes) (hdg : dg.length ≤ 4096) (p : Gen.ParsedResponse)
    (h : genHandle S H ver (some pk) nonce request (dg ++ zeros (4096 - dg.length)) dg.length = .ok p) :
    p.verified = true ∧
    Spec.RT.authentic S H (ServerSpec.protoOfVer ver) pk request nonce dg = some (p.midpoint, p.radius) := by
  obtain ⟨o, ho, hp⟩ := ok_of_sim_map (genHandle_sim S H hH ver (some pk) nonce request dg hdg) h
  have := Props.C01.C01_sound S H ver pk nonce request dg hdg o ho
  rw [hp]
  exact this


end Rough.Props.GenCore

import Rough.Props.GenBasic
import Rough.Bridge.Client
import Rough.Props.C01
import Rough.Props.C03
/-
  Property theorems stated directly about the Lean code REGENERATED FROM /repo's RUST SOURCE on every run
  (`Gen.*`, Rough/Generated/Src/*.lean), obtained by composing a bridge theorem of Rough/Bridge/*.lean (generated
  function = model function up to `≃ᵣ`) with a model-level property theorem of Rough/Props/Cxx.lean.  Nothing new is
  proved about the model here: every theorem is "bridge ∘ property", so it re-checks on every run against what the
  code says now.  (Same pattern as Props/GenLoop.lean, for the codec, the request classifier, the Merkle tree, the
  signed midpoint, the incremental signer / verifier, the seed envelope, the client validation path and the
  per-client statistics.)
-/
namespace Rough.Props.GenCore
open Rough Rough.Bridge

/-! ### C01 — the client's validation path: `receive_response`, `ResponseHandler::new`, `extract_time` as generated -/

/-- everything the client does with a received datagram, with the generated functions: `receive_response` on the
    receive buffer and the number of bytes received, then `ResponseHandler::new(..)`, then `extract_time()` -/
def genHandle (S : SigScheme) (H : Bytes → Bytes) (ver : Version) (pk : Option Bytes) (nonce request : Bytes)
    (buf : Bytes) (n : Nat) : Res Gen.ParsedResponse :=
  (Gen.receive_response S H ver buf n).bind fun msg =>
    (Gen.ResponseHandler.new S H ver pk msg nonce request).bind fun h => Gen.ResponseHandler.extract_time S H h

/-- the generated response path simulates the model's `Client.handleResponse`, on the client's zeroed 4096-byte
    receive buffer holding the datagram -/
theorem genHandle_sim (S : SigScheme) (H : Bytes → Bytes) (hH : ∀ x, (H x).length = 64) (ver : Version)
    (pk : Option Bytes) (nonce request dg : Bytes) (hdg : dg.length ≤ 4096) :
    genHandle S H ver pk nonce request (dg ++ zeros (4096 - dg.length)) dg.length ≃ᵣ
      (Client.handleResponse S H ver pk nonce request dg).map toParsed := by
  have hrecv := receive_response_sim S H ver dg
  rw [List.take_of_length_le hdg] at hrecv
  unfold genHandle Client.handleResponse
  exact Cl.Sim.bind_mapR' hrecv fun msg => handle_sim S H hH ver pk nonce request msg

/-- C01 (soundness / fail-closed) for the translated code, with SHA-512 as the parameter `H` (64-byte outputs): with
    a pinned key, for every datagram of at most 4096 bytes placed in the client's zeroed 4096-byte receive buffer,
    if the generated validation path (`receive_response`, `ResponseHandler::new`, `extract_time`) returns a result
    instead of panicking (= non-zero exit, no time printed), then the result says verified = true and the datagram is
    authentic under that key for the client's own request by the property's own list of conditions — signature chain
    under the protocol's context strings, midpoint inside the delegation window, Merkle proof binding this request to
    the signed root — with exactly the reported midpoint and radius. -/
theorem GEN_client_sound (S : SigScheme) (H : Bytes → Bytes) (hH : ∀ x, (H x).length = 64) (ver : Version)
    (pk nonce request dg : Bytes) (hdg : dg.length ≤ 4096) (p : Gen.ParsedResponse)
    (h : genHandle S H ver (some pk) nonce request (dg ++ zeros (4096 - dg.length)) dg.length = .ok p) :
    p.verified = true ∧
    Spec.RT.authentic S H (ServerSpec.protoOfVer ver) pk request nonce dg = some (p.midpoint, p.radius) := by
  obtain ⟨o, ho, hp⟩ := ok_of_sim_map (genHandle_sim S H hH ver (some pk) nonce request dg hdg) h
  have := Props.C01.C01_sound S H ver pk nonce request dg hdg o ho
  rw [hp]
  exact this


/-! ### C03 — the generated client builds well-formed requests and accepts every honest reply -/

/-- C03 (request well-formedness) for the translated code, with SHA-512 as the parameter `H` (64-byte outputs): for
    a nonce of the protocol's length (64 bytes classic / 32 bytes draft-13), with or without a 32-byte pinned key,
    and for either value of the `text_dump` flag (it only prints), the generated `make_request` returns — does not
    panic — a request that is 1024 bytes (classic) / 1036 bytes (draft-13: 1024 + the 12-byte RFC frame) long, hence
    inside the server's 1024..1500 window, and that the reference classification `Spec.RT.classifyRequest` of a
    server whose SRV value is the hash of the pinned key (any server if no key is pinned) classifies `must nonce`,
    in the protocol the client was asked to speak.  This is the conclusion of `C03_request_wellformed` for the bytes
    the generated function returns (bridge `make_request_sim` ∘ `C03_request_wellformed`). -/
theorem GEN_client_request_wellformed (S : SigScheme) (H : Bytes → Bytes) (hH : ∀ x, (H x).length = 64)
    (ver : Version) (nonce : Bytes) (hn : nonce.length = ver.nonceLen) (text_dump : Bool) (pk? : Option Bytes)
    (hpk : ∀ pk, pk? = some pk → pk.length = 32) (srv : Bytes)
    (hsrv : ∀ pk, pk? = some pk → srv = (H ((0xff : UInt8) :: pk)).take 32) :
    ∃ req, Gen.make_request S H ver nonce text_dump pk? = .ok req ∧
      req.length = (match ver with | .google => 1024 | .ietf => 1036) ∧
      Spec.RT.classifyRequest (ServerSpec.protoOfVer ver) srv req = .must nonce ∧
      Spec.RT.protoOf req = ServerSpec.protoOfVer ver := by
  obtain ⟨req, hreq, hrest⟩ := Props.C03.C03_request_wellformed H hH ver nonce hn pk? hpk srv hsrv
  refine ⟨req, ?_, hrest⟩
  exact eq_ok_of_sim (hreq ▸ make_request_sim S H hH ver nonce text_dump pk?)

/-- the reference responder's reply for a batch of at most 2^32 leaves and a nonce of the protocol's length fits the
    client's 4096-byte receive buffer (classic: 368 + 64 + 64·depth ≤ 2480; draft-13: 376 + 32 + 32·depth ≤ 1432),
    from the exact reply length `Lemmas.SpecRT.respond_length` and `depth ≤ 32` -/
theorem respond_fits_buffer (S : SigScheme) (H : Bytes → Bytes) (hH : ∀ x, (H x).length = 64)
    (hsig : ∀ seed m, (S.sign seed m).length = 64) (hpk : ∀ seed, (S.pk seed).length = 32)
    (ver : Version) (ltSeed onlSeed : Bytes) (midp radi mint maxt : Nat)
    (leaves : List Bytes) (i : Nat) (hi : i < leaves.length) (hn : leaves.length ≤ 2 ^ 32)
    (nonce : Bytes) (hnl : nonce.length = ver.nonceLen) :
    (Spec.RT.respond S H (ServerSpec.protoOfVer ver) ltSeed onlSeed midp radi mint maxt leaves i nonce).length
      ≤ 4096 := by
  have hl := Lemmas.SpecRT.respond_length S H hH hsig hpk (ServerSpec.protoOfVer ver) ltSeed onlSeed midp radi
    mint maxt leaves i hi nonce
  have hd := Lemmas.SpecRT.depth_le_32 leaves.length hn
  rw [hl]
  cases ver <;> simp only [ServerSpec.protoOfVer, Version.nonceLen] at hnl ⊢ <;> omega

/-- C03 (completeness) for the translated code, with SHA-512 as the parameter `H` (64-byte outputs): the reference
    responder's reply `RT.respond …` for ANY batch (1..2^32 leaves) in which the client's request sits at ANY
    position `i` — under all the hypotheses of `C03_accept` — placed in the client's zeroed 4096-byte receive buffer
    (it always fits: `respond_fits_buffer`, so no length hypothesis is needed), is accepted by the generated
    validation path (`receive_response`, `ResponseHandler::new`, `extract_time`), with or without the pinned key: it
    returns — does not panic — exactly the signed midpoint, the signed radius and verified = (a key was supplied).

    Deviation from the model-level statement: the model's `Client.Outcome` also carries `index = i`, but the
    generated `Gen.ParsedResponse` (= the Rust `ParsedResponse` that `extract_time` returns) has only the fields
    `verified`, `midpoint`, `radius` — the Rust `main` reads INDX from the response by itself, and the bridge's
    `toParsed` drops it — so there is no `p.index` to state `p.index = i` about.  The three fields that exist are
    all pinned down (the returned value is exactly `⟨pk?.isSome, midp, radi⟩`); that the INDX used in the Merkle
    check is `i` is part of what acceptance means in the model (`C03_accept`, outcome index `i`). -/
theorem GEN_client_accepts (S : SigScheme) (hS : S.Correct) (hv : ∀ seed, S.pkValid (S.pk seed) = true)
    (H : Bytes → Bytes) (hH : ∀ x, (H x).length = 64)
    (hsig : ∀ seed m, (S.sign seed m).length = 64) (hpk : ∀ seed, (S.pk seed).length = 32)
    (ver : Version) (ltSeed onlSeed : Bytes) (hlt : ltSeed.length = 32) (hon : onlSeed.length = 32)
    (midp radi : Nat) (hm : midp < 2 ^ 64) (hr : radi < 2 ^ 32)
    (leaves : List Bytes) (i : Nat) (hi : i < leaves.length) (hn : leaves.length ≤ 2 ^ 32)
    (request nonce : Bytes) (hnl : nonce.length = ver.nonceLen)
    (hleaf : leaves[i] = (match ver with | .google => nonce | .ietf => request))
    (pk? : Option Bytes) (hk : pk? = none ∨ pk? = some (S.pk ltSeed))
    (dg : Bytes)
    (hdg : dg = Spec.RT.respond S H (ServerSpec.protoOfVer ver) ltSeed onlSeed midp radi 0 (2 ^ 64 - 1) leaves i
      nonce) :
    dg.length ≤ 4096 ∧
    ∃ p, genHandle S H ver pk? nonce request (dg ++ zeros (4096 - dg.length)) dg.length = .ok p ∧
      p.midpoint = midp ∧ p.radius = radi ∧ p.verified = pk?.isSome := by
  have hlen : dg.length ≤ 4096 := by
    rw [hdg]
    exact respond_fits_buffer S H hH hsig hpk ver ltSeed onlSeed midp radi 0 (2 ^ 64 - 1) leaves i hi hn nonce hnl
  have hacc := Props.C03.C03_accept S hS hv H hH hsig hpk ver ltSeed onlSeed hlt hon midp radi hm hr leaves i hi hn
    request nonce hnl hleaf pk? hk
  rw [← hdg] at hacc
  exact ⟨hlen, _, eq_ok_of_sim_map (genHandle_sim S H hH ver pk? nonce request dg hlen) hacc, rfl, rfl, rfl⟩


end Rough.Props.GenCore

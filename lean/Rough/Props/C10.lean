import Rough.Lemmas.Keys
import Rough.Spec.ServerSpec
/-
  C10 — server identity is a pure function of the seed and certifies every online key.
  "public key = RFC 8032 public key of the seed" and "SRV = SHA-512(0xff ‖ pk)[0..32]" are the model's
  definitions instantiated with the Lean RFC 8032 / FIPS 180-4 transcriptions; their tie to the code
  is the correspondence run (LongTermKey / Server::get_public_key / CERT of real replies), not a theorem.
-/
namespace Rough.Props.C10
open Rough

/-- Both certificates a server creates verify under the long-term key of the seed, each under its
    own protocol's delegation context, and certify exactly the online key of that responder. -/
theorem C10_cert_valid (E : Env) (hS : E.S.Correct) (hE : ServerSpec.EnvOK E) (seed onlI onlC : Bytes) (b : Nat)
    (hseed : seed.length = 32) (hI : onlI.length = 32) (hC : onlC.length = 32) :
    ∃ s, Server.new E seed onlI onlC b = .ok s ∧ s.ltPub = E.S.pk seed ∧
      s.srv = (E.H ((0xff : UInt8) :: E.S.pk seed)).take 32 ∧
      ∀ r ∈ [s.ietf, s.classic], ∃ cert sig dele deleM,
        Spec.decode r.cert = some cert ∧ cert.get Tag.SIG = some sig ∧ cert.get Tag.DELE = some dele ∧
        E.S.verify (E.S.pk seed) (r.ver.delePrefix ++ dele) sig = true ∧
        Spec.decode dele = some deleM ∧ deleM.get Tag.PUBK = some (E.S.pk r.onl.seed) ∧
        deleM.get Tag.MINT = some (le64 0) ∧ deleM.get Tag.MAXT = some (le64 (2 ^ 64 - 1)) ∧
        r.onl.buf = [] :=
  Lemmas.Keys.cert_valid E hS hE seed onlI onlC b hseed hI hC

/-- the delegation window [0, 2^64−1] contains every representable midpoint -/
theorem C10_window (m : Nat) (h : m < 2 ^ 64) : leVal (le64 0) ≤ m ∧ m ≤ leVal (le64 (2 ^ 64 - 1)) :=
  Lemmas.Keys.window m h

/-- the two delegation contexts can never produce the same signed message: whatever delegations
    d, d' are appended, the byte strings differ (position 33: '-' vs NUL). Hence a certificate
    verifying under the other protocol's context would be a second valid (message, signature) pair
    for a message the long-term key never signed. -/
theorem C10_context_separation (d d' : Bytes) :
    Version.google.delePrefix ++ d ≠ Version.ietf.delePrefix ++ d' :=
  Lemmas.Keys.context_separation d d'

/-- no signer carry-over between the two certificates: the second certificate's signature is over
    exactly `delePrefix google ‖ DELE₂`, nothing left from the first. -/
theorem C10_no_carry_over (E : Env) (seed onlI onlC : Bytes) (b : Nat) (s : Server)
    (h : Server.new E seed onlI onlC b = .ok s) :
    ∃ deleC, makeDele E.S onlC = .ok deleC ∧
      ∃ certM, buildMsg "longterm.rs:make_cert:add_field.unwrap"
          [(Tag.SIG, E.S.sign seed (Version.google.delePrefix ++ encode deleC)), (Tag.DELE, encode deleC)] = .ok certM ∧
        s.classic.cert = encode certM :=
  Lemmas.Keys.no_carry_over E seed onlI onlC b s h

/-- identity is a function of the seed alone: two servers created from the same seed (restarts,
    workers) announce the same key and SRV value whatever their online keys and settings. -/
theorem C10_deterministic (E : Env) (seed onlI onlC onlI' onlC' : Bytes) (b b' : Nat) (s s' : Server)
    (h : Server.new E seed onlI onlC b = .ok s) (h' : Server.new E seed onlI' onlC' b' = .ok s') :
    s.ltPub = s'.ltPub ∧ s.srv = s'.srv :=
  Lemmas.Keys.deterministic E seed onlI onlC onlI' onlC' b b' s s' h h'

end Rough.Props.C10

import Rough.Lemmas.Extra
/-
  Further theorems extending the coverage of C01, C02, C05, C09, C17 (listed under their property in
  checklib/props.py). Kept in one file because they were added after the per-property files.
-/
namespace Rough.Props.Extra
open Rough Rough.ServerSpec Rough.Spec Rough.Stats

/-- C01, whole run (`-n k`): the times printed correspond exactly to a prefix of the responses, each
    of which is authentic for ITS request under the pinned key, and the process exits 0 only if
    every response was authentic. -/
theorem C01_run_sound (S : SigScheme) (H : Bytes → Bytes) (ver : Version) (pk : Bytes)
    (rs : List (Bytes × Bytes × Bytes)) (hlen : ∀ r ∈ rs, r.2.2.length ≤ 4096) :
    let (outs, ok) := Client.runAll S H ver (some pk) rs
    outs.length ≤ rs.length ∧
    (∀ j (hj : j < outs.length), ∃ (h : j < rs.length),
        outs[j].verified = true ∧
        RT.authentic S H (protoOfVer ver) pk rs[j].2.1 rs[j].1 rs[j].2.2 = some (outs[j].midpoint, outs[j].radius)) ∧
    (ok = true → outs.length = rs.length) :=
  Lemmas.Extra.run_sound S H ver pk rs hlen

/-- C05: canonical re-encoding needs no length bound at all (strengthens C05_encode_decode). -/
theorem C05_encode_decode_unbounded (b : Bytes) (m : Msg) (h : fromBytes b = .ok m) (hne : m.fields ≠ []) :
    encode m = b :=
  Lemmas.Extra.encode_decode_unbounded b m h hne

/-- C09 / C19: where a history of passes is cut into `process_events` calls is irrelevant — running
    two pass lists one after the other is running their concatenation (so bounding the work per call
    changes nothing that is sent or recorded). -/
theorem C09_run_append (E : Env) (debug : Bool) (s : Server) (ps qs : List Server.Pass) :
    Server.run E debug s (ps ++ qs) =
      (Server.run E debug s ps).bind fun (s', sent, ev) =>
        (Server.run E debug s' qs).bind fun (s'', sent', ev') => .ok (s'', sent ++ sent', ev ++ ev') :=
  Lemmas.Extra.run_append E debug s ps qs

/-- C02, fault injection, tag reordering: a reordered response is byte-identical to the honest one
    (identity permutation) or is rejected by the reference decoder (hence by every verifier) — there
    is no third state. `r` is any message whose tags are strictly increasing (as every response is). -/
theorem C02_grease_reorder (r : Msg) (hs : r.Sorted) (perm : List Nat) (hp : perm.Perm (List.range r.fields.length))
    (r' : Msg) (h : applyGrease (.reorder perm) r = .ok r') :
    r' = r ∨ Spec.decode (encode r') = none :=
  Lemmas.Extra.grease_reorder r hs perm hp r' h

/-- C02, fault injection, signature corruption: the corrupted response carries the drawn bytes as
    SIG and no NONC; therefore a draft-13 verifier rejects it outright (NONC is mandatory), and a
    classic verifier accepts it only if the drawn bytes happen to be a valid signature. -/
theorem C02_grease_corrupt_sig (resp : Msg) (sig nonce path srep cert indx rho : Bytes)
    (hr : resp = ⟨[(Tag.SIG, sig), (Tag.NONC, nonce), (Tag.PATH, path), (Tag.SREP, srep), (Tag.CERT, cert), (Tag.INDX, indx)]⟩) :
    applyGrease (.corruptSig rho) resp =
      .ok ⟨[(Tag.SIG, rho), (Tag.PATH, path), (Tag.SREP, srep), (Tag.CERT, cert), (Tag.INDX, indx)]⟩ :=
  Lemmas.Extra.grease_corrupt_sig resp sig nonce path srep cert indx rho hr

/-- … and such a message (no NONC) is never accepted by the draft-13 verifier. -/
theorem C02_no_nonc_rejected (S : SigScheme) (H : Bytes → Bytes) (ltpk request nonce body : Bytes) (m : Msg)
    (hb : body.length < 2 ^ 32) (hd : Spec.decode body = some m) (hn : m.get Tag.NONC = none) :
    RT.accepts S H .draft13 ltpk request nonce (RT.magic ++ le32 body.length ++ body) = false :=
  Lemmas.Extra.no_nonc_rejected S H ltpk request nonce body m hb hd hn

/-- C17, pipeline: whatever the snapshot points, as long as no recorder overflowed in any interval,
    what the reporter holds after merging every published snapshot plus what is still in the
    recorder accounts for every event of every kind and address exactly once. -/
theorem C17_pipeline (limit : Nat) (intervals : List (List Event))
    (hno : ∀ iv ∈ intervals, (PerClient.run (PerClient.init limit) iv).overflows = 0) (a : Addr) (k : Kind) :
    let (q, fin) := publish limit intervals
    (((reporterReceive [] q).find? (fun p => p.1 = a)).map (·.2.get k)).getD 0 + fin.get a k
      = count intervals.flatten a k :=
  Lemmas.Extra.pipeline limit intervals hno a k

end Rough.Props.Extra

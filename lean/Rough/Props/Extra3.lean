import Rough.Lemmas.SendFail
/-
  Third batch of additional theorems: `send_responses` with failing `send_to` calls (C17, the
  "recorded totals equal what was actually sent" clause), attributed in checklib/props.py.
-/
namespace Rough.Props.Extra3
open Rough Rough.Stats Rough.Responder Rough.Merkle

/-- C17 (refinement): whatever the outcomes of the individual `send_to` calls, a `send_responses`
    call behaves like the all-successful call of `Rough.Model.Server` — same responder state
    afterwards, same datagrams built — except that a failed send puts nothing on the wire and
    records `failedSend` (no bytes) for that request's source instead of the response event. In
    particular one failed send changes nothing for the requests after it. -/
theorem C17_send_failure_refines (ok : Addr → Nat → Bool) (E : Env) (r : Responder) (debug : Bool)
    (now : Nat × Nat) (gs : List Grease) :
    sendResponsesF ok E r debug now gs =
      (sendResponses E r debug now gs).bind fun x =>
        .ok (x.1, (degradeAll ok 0 x.2.1 x.2.2).1, (degradeAll ok 0 x.2.1 x.2.2).2) := by
  unfold sendResponsesF sendResponses
  by_cases he : r.requests.isEmpty
  · simp [he, Res.bind, degradeAll]
  · simp only [he, Bool.false_eq_true, if_false]
    cases computeRoot (E.mcfg r.ver) r.ver.isIetf r.tree with
    | err => rfl
    | panic s => rfl
    | ok tr =>
      simp only [Res.bind]
      cases makeSrep E.S r.onl r.ver now.1 now.2 tr.2 with
      | err => rfl
      | panic s => rfl
      | ok so =>
        simp only
        rw [respondAllF_refines]
        cases respondAll { r with tree := tr.1, onl := so.2 } debug so.1 0 r.requests gs with
        | err => rfl
        | panic s => rfl
        | ok x => rfl

/-- C17: when every send succeeds the model with send outcomes IS the model used everywhere else. -/
theorem C17_send_all_ok (ok : Addr → Nat → Bool) (hok : ∀ a i, ok a i = true) (E : Env) (r : Responder)
    (debug : Bool) (now : Nat × Nat) (gs : List Grease) :
    sendResponsesF ok E r debug now gs =
      (sendResponses E r debug now gs).bind fun x => .ok (x.1, x.2.1.map some, x.2.2) := by
  rw [C17_send_failure_refines]
  cases h : sendResponses E r debug now gs with
  | err => rfl
  | panic s => rfl
  | ok x =>
    obtain ⟨r', ss, es⟩ := x
    have hlen : ss.length = es.length := by
      unfold sendResponses at h
      by_cases he : r.requests.isEmpty
      · simp [he] at h; obtain ⟨_, h2, h3⟩ := h; subst h2 h3; rfl
      · simp only [he, Bool.false_eq_true, if_false] at h
        obtain ⟨_, _, h⟩ := Res.bind_ok_inv h
        obtain ⟨_, _, h⟩ := Res.bind_ok_inv h
        obtain ⟨⟨ss', es'⟩, h2, h⟩ := Res.bind_ok_inv h
        injection h with h; injection h with _ h; injection h with ha hb; subst ha hb
        obtain ⟨_, i2⟩ := respondAll_shape _ _ _ _ _ _ _ _ h2
        simp [i2]
    simp [Res.bind, degradeAll_allok ok hok ss es 0 hlen]

/-- C17 (recorded totals equal what was actually sent): after any `send_responses` call, with any
    pattern of failing sends, there is exactly one event per queued request, in order and for that
    request's source address; the bytes recorded are the bytes of the datagrams that actually left;
    the number of response events is the number of datagrams sent; the number of `failedSend` events
    is the number of requests for which nothing was sent; and no event is of any other kind. -/
theorem C17_send_events_match_wire (ok : Addr → Nat → Bool) (E : Env) (r : Responder) (debug : Bool)
    (now : Nat × Nat) (gs : List Grease) (r' : Responder) (os : List (Option Sent)) (es : List Event)
    (h : sendResponsesF ok E r debug now gs = .ok (r', os, es)) :
    os.length = r.requests.length ∧ es.length = r.requests.length ∧
    es.map (·.addr) = r.requests.map (·.2) ∧
    (es.map (·.bytes)).sum = ((os.filterMap id).map (·.bytes.length)).sum ∧
    (es.filter isResp).length = (os.filterMap id).length ∧
    (es.filter isFailed).length = (os.filter Option.isNone).length ∧
    (es.filter isResp).length + (es.filter isFailed).length = r.requests.length ∧
    (∀ e ∈ es, isResp e = true ∨ (isFailed e = true ∧ e.bytes = 0)) := by
  rw [C17_send_failure_refines] at h
  obtain ⟨⟨r0, ss, es0⟩, h0, h⟩ := Res.bind_ok_inv h
  injection h with h; injection h with _ h; injection h with ha hb
  unfold sendResponses at h0
  by_cases he : r.requests.isEmpty
  · simp [he] at h0; obtain ⟨_, h2, h3⟩ := h0; subst h2 h3
    simp only [degradeAll] at ha hb; subst ha hb
    have : r.requests = [] := by simpa using he
    simp [this]
  · simp only [he, Bool.false_eq_true, if_false] at h0
    obtain ⟨_, _, h0⟩ := Res.bind_ok_inv h0
    obtain ⟨⟨srep, onl'⟩, _, h0⟩ := Res.bind_ok_inv h0
    obtain ⟨⟨ss', es'⟩, h2, h0⟩ := Res.bind_ok_inv h0
    injection h0 with h0; injection h0 with _ h0; injection h0 with hc hd; subst hc hd
    obtain ⟨i1, i2⟩ := respondAll_shape _ _ _ _ _ _ _ _ h2
    have acc := degradeAll_account ok r.ver ss' 0
    simp only at acc
    have i2' : es' = ss'.map (fun s => (⟨respKind r.ver, s.dst, s.bytes.length⟩ : Event)) := i2
    rw [← i2'] at acc
    rw [ha, hb] at acc
    have hl : ss'.length = r.requests.length := by
      have := congrArg List.length i1; simpa using this
    obtain ⟨a1, a2, a3, a4, a5, a6, a7, a8⟩ := acc
    exact ⟨by omega, by omega, by rw [a3, i1], a4, a5, a6, by omega, a8⟩

/-- non-vacuity of the failing branch: a two-request batch whose first send fails records
    (failedSend, response) — the second request is unaffected -/
example :
    (degradeAll (fun _ i => i != 0) 0 [⟨1, [1, 2]⟩, ⟨2, [3, 4, 5]⟩]
      [⟨Kind.classicResp, 1, 2⟩, ⟨Kind.classicResp, 2, 3⟩]) =
      ([none, some ⟨2, [3, 4, 5]⟩], [⟨Kind.failedSend, 1, 0⟩, ⟨Kind.classicResp, 2, 3⟩]) := by decide

end Rough.Props.Extra3

import Rough.Lemmas.Runtime
/-
  C15 — every documented in-range configuration yields a fully serving server (partial).
  Theorem part: the start-up resource logic, for every number of workers and EVERY order in which the
  scheduler hands the configuration mutex to the workers; and the preconditions of Server::new's
  expect/unwrap sites follow from configuration validity. What the model cannot exhibit: real thread
  timing, kernel accept-queue behaviour, memory for per-client statistics — covered only by the
  process-level correspondence runs (thread names in /proc, per-worker certificates on the UDP port,
  TCP health probes sequential and parallel, exit status).
-/
namespace Rough.Props.C15
open Rough Rough.Startup Rough.Config

/-- With the listener bound with SO_REUSEPORT (repaired code), for every number of workers, every
    start order and with or without a health-check port: every worker starts, none panics, the
    mutex is never poisoned, and every worker owns a health listener when one is configured. -/
theorem C15_all_start (hc : Bool) (order : List Nat) :
    let st := startAll hc true order
    st.running = order ∧ st.panicked = [] ∧ st.mutexPoisoned = false ∧
    (hc = true → st.listeners.map (·.1) = order) :=
  Lemmas.Runtime.all_start hc order

/-- The unrepaired code (plain bind): with a health-check port and at least two workers exactly one
    worker survives, whatever the order — the finding F6 (example.cfg on a multi-core host). -/
theorem C15_unfixed_witness (first second : Nat) (rest : List Nat) :
    let st := startAll true false (first :: second :: rest)
    st.running = [first] ∧ st.panicked = second :: rest ∧ st.mutexPoisoned = true :=
  Lemmas.Runtime.unfixed_start first second rest

/-- a configuration accepted by the validator satisfies what Server::new's expect/unwrap sites need:
    a parsable socket address, a 32-byte plaintext seed (MsgSigner::from_seed), a fault percentage
    that is a probability (Bernoulli::from_ratio(p, 100)), a batch size that fits the u8 loops -/
theorem C15_valid_preconditions (fs : FsFacts) (c : Cfg) (h : isValid fs c = true) :
    isIpv4 c.interface = true ∧ (c.kmsPlain = true → c.seed.length = 32) ∧ c.faultPct ≤ 100 ∧
    1 ≤ c.batchSize ∧ c.batchSize ≤ 64 ∧ 1 ≤ c.numWorkers ∧ c.port ≠ 0 :=
  Lemmas.Runtime.valid_preconditions fs c h

example : (startAll true true [2, 0, 1]).running = [2, 0, 1] := by decide
example : (startAll true false [2, 0, 1]).running = [2] := by decide

end Rough.Props.C15

import Rough.Lemmas.Request
import Rough.Lemmas.Keys
/-
  C12 — IETF requests are answered iff they name a supported version and this server.
  The reference classification `Spec.RT.classifyRequest` is written from the property text:
    must  = well-formed, draft-13 among the first four VER entries, SRV absent or ours, 32-byte NONC
    may   = same but draft-13 appears only beyond the fourth entry (the property allows either)
    no    = everything else.
-/
namespace Rough.Props.C12
open Rough Rough.Spec.RT

def versionOf : Proto → Version
  | .classic => .google
  | .draft13 => .ietf

/-- The request classifier of the implementation model agrees with the reference classification on
    every datagram and every server: `must` ⇒ accepted with exactly that nonce and protocol;
    `no` ⇒ rejected; `may` ⇒ rejected by this implementation (it inspects four entries only).
    In particular: answered ⇒ draft-13 is in the list; draft-13 among the first four (and the
    other conditions) ⇒ answered; wrong SRV or no supported version ⇒ not answered. -/
theorem C12_spec (d srv : Bytes) :
    (∀ n, classifyRequest (protoOf d) srv d = .must n →
        nonceFromRequest d srv = .ok (n, versionOf (protoOf d))) ∧
    (∀ n, classifyRequest (protoOf d) srv d = .may n → nonceFromRequest d srv = .err) ∧
    (classifyRequest (protoOf d) srv d = .no → nonceFromRequest d srv = .err) :=
  Lemmas.Request.spec_agree d srv

/-- answered only if the version list contains draft-13 (anywhere) and SRV, when present, is ours -/
theorem C12_only_if (d srv nonce : Bytes) (h : nonceFromRequest d srv = .ok (nonce, .ietf)) :
    ∃ body m v, unframe d = some body ∧ Spec.decode body = some m ∧ m.get Tag.VER = some v ∧
      (versionList v).contains ver13 = true ∧ (m.get Tag.SRV = none ∨ m.get Tag.SRV = some srv) ∧
      m.get Tag.NONC = some nonce ∧ nonce.length = 32 :=
  Lemmas.Request.only_if d srv nonce h

/-- the signed part of every IETF response states draft-13 as its version and lists the supported
    versions (restated from C11_fields for the IETF case) -/
theorem C12_srep_states_version (S : SigScheme) (onl : Signer) (secs nanos : Nat) (root : Bytes)
    (hroot : root.length % 4 = 0) (hsz : root.length < 2 ^ 16) :
    ∃ res onl' srepB srep, makeSrep S onl .ietf secs nanos root = .ok (res, onl') ∧
      res.get Tag.SREP = some srepB ∧ Spec.decode srepB = some srep ∧
      srep.get Tag.VER = some ver13 ∧ srep.get Tag.VERS = some ([0, 0, 0, 0] ++ ver13) :=
  Lemmas.Request.srep_states_version S onl secs nanos root hroot hsz

end Rough.Props.C12

import Rough.Lemmas.Keys
/-
  C11 — the signed midpoint is the server clock in the protocol's unit with a 5 s radius.
  Clock readings are (secs, nanos) since the Unix epoch, nanos < 10^9 (`SystemTime` invariant).
-/
namespace Rough.Props.C11
open Rough

/-- length of the protocol's time unit in nanoseconds -/
def unitNs : Version → Nat
  | .google => 1000
  | .ietf => 1000000000

/-- clock reading in nanoseconds -/
def ns (secs nanos : Nat) : Nat := secs * 1000000000 + nanos

/-- classic: midpoint = ⌊t / 1µs⌋ for every clock value whose microsecond count fits u64
    (beyond year 584 000); no panic in that range. -/
theorem C11_classic (secs nanos : Nat) (hn : nanos < 1000000000) (hs : secs * 1000000 + 999999 < 2 ^ 64) :
    midpOf .google secs nanos = .ok (ns secs nanos / 1000) :=
  Lemmas.Keys.midp_classic secs nanos hn hs

/-- IETF: midpoint = ⌊t / 1s⌋, for every clock value -/
theorem C11_ietf (secs nanos : Nat) (hn : nanos < 1000000000) :
    midpOf .ietf secs nanos = .ok (ns secs nanos / 1000000000) :=
  Lemmas.Keys.midp_ietf secs nanos hn

/-- radius is five seconds in the protocol's unit -/
theorem C11_radius (v : Version) : radiOf v * unitNs v = 5000000000 := by
  cases v <;> decide

/-- the true signing time lies in [midp·unit, (midp+1)·unit) ⊂ [midp − radi, midp + radi]·unit -/
theorem C11_bracket (v : Version) (secs nanos m : Nat) (hn : nanos < 1000000000)
    (h : midpOf v secs nanos = .ok m) :
    m * unitNs v ≤ ns secs nanos ∧ ns secs nanos < (m + 1) * unitNs v ∧
    (m + 1) * unitNs v ≤ (m + radiOf v) * unitNs v :=
  Lemmas.Keys.bracket v secs nanos m hn h

/-- what `make_srep` signs: SREP decodes (reference decoder) to a message carrying exactly
    MIDP = le64 midpoint, RADI = le32 radius, ROOT = the given root, and for IETF VER = draft-13
    and VERS = the supported list; SIG is the online key's signature over context ‖ SREP. -/
theorem C11_fields (S : SigScheme) (onl : Signer) (v : Version) (secs nanos : Nat) (root : Bytes) (m : Nat)
    (hroot : root.length % 4 = 0) (hsz : root.length < 2 ^ 16)
    (hm : midpOf v secs nanos = .ok m) :
    ∃ res onl' srepB, makeSrep S onl v secs nanos root = .ok (res, onl') ∧
      res.get Tag.SREP = some srepB ∧
      res.get Tag.SIG = some (S.sign onl.seed (onl.buf ++ v.srepPrefix ++ srepB)) ∧
      onl' = ⟨onl.seed, []⟩ ∧
      ∃ srep, Spec.decode srepB = some srep ∧
        srep.get Tag.MIDP = some (le64 m) ∧ srep.get Tag.RADI = some (le32 (radiOf v)) ∧
        srep.get Tag.ROOT = some root ∧
        (v = .ietf → srep.get Tag.VER = some Version.ietf.wire ∧ srep.get Tag.VERS = some Version.supportedWire) :=
  Lemmas.Keys.srep_fields S onl v secs nanos root m hroot hsz hm

/-- non-vacuity: 2200-01-01T00:00:00.999999999 satisfies the hypotheses of C11_classic -/
example : (999999999 : Nat) < 1000000000 ∧ 7258118400 * 1000000 + 999999 < 2 ^ 64 := by decide

end Rough.Props.C11

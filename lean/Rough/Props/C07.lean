import Rough.Lemmas.Request
import Rough.Lemmas.ServerAssembly
import Rough.Props.C12
/-
  C07 — the server answers only well-formed 1024–1500 byte requests and never amplifies.
-/
namespace Rough.Props.C07
open Rough Rough.Spec.RT

/-- a datagram is accepted only if it is 1024..1500 bytes long, is a well-formed request of its
    protocol by the reference classification, and carries a nonce of the protocol's length -/
theorem C07_only_wellformed (d srv nonce : Bytes) (v : Version)
    (h : nonceFromRequest d srv = .ok (nonce, v)) :
    1024 ≤ d.length ∧ d.length ≤ 1500 ∧ nonce.length = v.nonceLen ∧
    classifyRequest (protoOf d) srv d = .must nonce ∧ v = Props.C12.versionOf (protoOf d) :=
  Lemmas.Request.only_wellformed d srv nonce v h

/-- classifying a datagram never panics, whatever its bytes and length -/
theorem C07_classify_total (d srv : Bytes) (s : String) : nonceFromRequest d srv ≠ .panic s :=
  Lemmas.Request.no_panic d srv s

/-- every datagram sent by a pass goes to the source of an accepted request of that pass, is no
    longer than that request, and rejected datagrams cause nothing to be sent: the sent list is
    exactly one reply per accepted request (see C09 for the exact content). No amplification:
    classic replies are 432 + 64·depth ≤ 944 bytes, IETF replies 408 + 32·depth ≤ 664 bytes for
    every batch of at most 255 requests, while every accepted request is ≥ 1024 bytes. -/
theorem C07_no_amplification (E : Env) (hE : ServerSpec.EnvOK E) (K : ServerSpec.Keys)
    (hK : K.OK) (debug : Bool) (s : Server) (hs : ServerSpec.Inv E K s) (hb : s.batchSize ≤ 255)
    (p : Server.Pass) (hp : ServerSpec.PassOK p)
    (s' : Server) (sent : List Sent) (ev : List Stats.Event)
    (h : Server.pass E debug s p = .ok (s', sent, ev)) :
    sent.length = (ServerSpec.accepted s.srv .ietf (p.chunk.take s.batchSize)).length
                + (ServerSpec.accepted s.srv .google (p.chunk.take s.batchSize)).length ∧
    ∀ x ∈ sent, x.bytes.length ≤ 944 ∧
      ∃ d ∈ p.chunk.take s.batchSize, d.src = x.dst ∧ (∃ n v, nonceFromRequest d.bytes s.srv = .ok (n, v)) ∧
        x.bytes.length ≤ d.bytes.length :=
  Lemmas.ServerAssembly.no_amplification E hE K hK debug s hs hb p hp s' sent ev h

end Rough.Props.C07

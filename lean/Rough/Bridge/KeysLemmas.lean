import Rough.Bridge.Message
import Rough.Bridge.Merkle
import Rough.Lemmas.KeysBasic
import Rough.Model.Server
/-
  Helper lemmas for Rough/Bridge/Keys.lean: one `add_field(..).unwrap()` step of generated code, fixed-size buffer
  writes, the hash configuration of the model versus the bridge's.
-/
namespace Rough
namespace Bridge

/-- one generated `msg.add_field(t, v).unwrap()` step, in general: the model's `Res.unwrap` of `Msg.addField` -/
theorem add_step_sim (m : Msg) (t : Tag) (v : Bytes) (site site' : String) :
    Rs.unwrapR (Gen.RtMessage.add_field (toGen m) t v) site ≃ᵣ (Res.unwrap site' (m.addField t v)).map toGen := by
  rw [add_field_eq]
  cases m.addField t v <;> simp [Rs.ofOpt, Rs.unwrapR, Res.unwrap, Res.map, Res.Sim]

/-- one generated `msg.add_field(t, v).unwrap()` step when the tag is above all tags present -/
theorem add_step_ok (m : Msg) (t : Tag) (v : Bytes) (site : String) (h : ∀ f ∈ m.fields, f.1.idx < t.idx) :
    Rs.unwrapR (Gen.RtMessage.add_field (toGen m) t v) site = .ok (toGen ⟨m.fields ++ [(t, v)]⟩) := by
  rw [add_field_eq, Lemmas.Keys.addField_ok m t v h]
  rfl

theorem with_capacity_eq' (n : Nat) : Gen.RtMessage.with_capacity n = .ok (toGen ⟨[]⟩) := rfl

theorem sliceWrite_le32 (x : Nat) : Rs.sliceWrite (Rs.rep 0 4) (le32 x) = .ok (le32 x) := by
  simp [Rs.sliceWrite, Rs.rep, le32]

theorem sliceWrite_le64 (x : Nat) : Rs.sliceWrite (Rs.rep 0 8) (le64 x) = .ok (le64 x) := by
  simp [Rs.sliceWrite, Rs.rep, le64, le32]

theorem durationSinceEpoch_eq (t : Rs.Time) : Rs.durationSinceEpoch t = .ok t := rfl

theorem unwrapR_ok {α} (a : α) (site : String) : Rs.unwrapR (.ok a) site = .ok a := rfl

/-- the model's hash configuration is the bridge's, for SHA-512-sized `H` -/
theorem mcfg_eq (E : Env) (hH : ∀ x, (E.H x).length = 64) (v : Version) : E.mcfg v = cfgOf E.H v := by
  cases v
  · simp only [Env.mcfg, cfgOf, nodeLen]
    congr 1
    funext x
    rw [List.take_of_length_le (by rw [hH]; exact Nat.le_refl _)]
  · rfl

theorem bind_assoc' {α β γ} (r : Res α) (f : α → Res β) (g : β → Res γ) :
    (r.bind f).bind g = r.bind fun a => (f a).bind g := by
  cases r <;> rfl

theorem bind_ok_right {α} (r : Res α) : (r.bind fun a => Res.ok a) = r := by
  cases r <;> rfl

/-- `Res.bind_ok` as a genuine rewrite rule (not a `dsimp` step): after a definitional step the kernel has to check
    `(Res.ok a).bind f =?= f a`, and when `f a` is itself a `bind` it first compares `Res.ok a` with the scrutinee of
    that bind by evaluating it — very slow for `Rs.mulU64 _ 1000000 _`. -/
theorem bind_ok_s {α β} (a : α) (f : α → Res β) : (Res.ok a).bind f = f a := Eq.trans rfl rfl

/-- bind respects `≃ᵣ` when the left computation is the image of the right one under `q` -/
theorem Sim.bind_map {α β δ : Type} {r : Res α} {s : Res β} {q : β → α} (h : r ≃ᵣ s.map q)
    {f : α → Res δ} {g : β → Res δ} (hf : ∀ b, f (q b) ≃ᵣ g b) : r.bind f ≃ᵣ s.bind g := by
  cases r <;> cases s <;> simp_all [Res.Sim, Res.map, Res.bind]

theorem map_map {α β γ} (f : α → β) (g : β → γ) (r : Res α) : (r.map f).map g = r.map (g ∘ f) := by
  cases r <;> rfl

theorem map_bind' {α β γ} (r : Res α) (f : α → Res β) (g : β → γ) :
    (r.bind f).map g = r.bind fun a => (f a).map g := by
  cases r <;> rfl

end Bridge
end Rough

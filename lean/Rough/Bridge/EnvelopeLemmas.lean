import Rough.Bridge.Basic
import Rough.Generated.Src.Envelope
import Rough.Model.Envelope
import Rough.Lemmas.Bytes
/-
  Helper lemmas for the bridge theorem of src/kms/envelope.rs `decrypt_seed` (Rough/Bridge/Envelope.lean).
-/
namespace Rough
namespace Bridge
open Rough.Lemmas

theorem strBytes_AD : strBytes Gen.AD = Envelope.AD := by
  have : Gen.AD = String.ofList ['r', 'o', 'u', 'g', 'h', 'e', 'n', 'o', 'u', 'g', 'h'] := by
    unfold Gen.AD; decide
  rw [this, strBytes_ofList]
  decide

theorem gen_min : Gen.MIN_PAYLOAD_SIZE = 64 := by decide

theorem model_min : Envelope.MIN_PAYLOAD_SIZE = 64 := rfl

theorem readExact_eq (b : Bytes) (p n : Nat) :
    Rs.Cursor.readExact ⟨b, p⟩ n =
      if (b.drop p).length < n then .err else .ok ((b.drop p).take n, ⟨b, p + n⟩) := rfl

theorem readExact_ok (b : Bytes) (p n : Nat) (h : ¬ (b.drop p).length < n) :
    Rs.Cursor.readExact ⟨b, p⟩ n = .ok ((b.drop p).take n, ⟨b, p + n⟩) := by
  rw [readExact_eq, if_neg h]

theorem readExact_err (b : Bytes) (p n : Nat) (h : (b.drop p).length < n) :
    Rs.Cursor.readExact ⟨b, p⟩ n = .err := by
  rw [readExact_eq, if_pos h]

theorem readU16_ok (b : Bytes) (p : Nat) (h : ¬ (b.drop p).length < 2) :
    Rs.Cursor.readU16 ⟨b, p⟩ = .ok (rd16 (b.drop p), ⟨b, p + 2⟩) := by
  simp only [Rs.Cursor.readU16, readExact_ok b p 2 h, Res.bind_ok, rd16]

theorem vec_zero_filled_eq (n : Nat) :
    Gen.vec_zero_filled n = .ok (List.map (fun _ => 0) (List.range n)) := rfl

theorem vec_zero_filled_len (n : Nat) :
    (List.map (fun _ => (0 : UInt8)) (List.range n)).length = n := by
  simp only [List.length_map, List.length_range]

theorem rep_len (n : Nat) : (Rs.rep (0 : UInt8) n).length = n := by
  simp only [Rs.rep, List.length_replicate]

theorem readToEnd_fst (b : Bytes) (p : Nat) : (Rs.Cursor.readToEnd ⟨b, p⟩).fst = b.drop p := rfl

theorem tryIntoArray_eq (l : Bytes) (n : Nat) :
    Rs.tryIntoArray l n = if l.length = n then .ok l else .err := rfl

/-- the model never panics -/
theorem decrypt_not_panic (K : Envelope.Kms) (A : Envelope.Aead) (blob : Bytes) :
    (Envelope.decrypt K A blob).isPanic = false := by
  unfold Envelope.decrypt
  split
  · rfl
  · split
    · rfl
    · split
      · rfl
      · split <;> rfl

end Bridge
end Rough

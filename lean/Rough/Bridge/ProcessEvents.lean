import Rough.Bridge.ServerLoop
import Rough.Bridge.Stats
import Rough.Model.EventLoop
import Rough.Bridge.ProcessEventsLemmas
/-
  Bridge theorems for the event loop of src/server.rs: `Server::process_events`, `Server::handle_health_check` and
  `Server::send_client_stats` generated from the Rust source, against the model `EventLoop.processEvents` (about which
  the LOOP_* theorems of C08, C09, C15, C17, C18, C19 are proved).

  Environment (Rough/Gen/ServerExt.lean, Rough/Gen/StatsExt.lean): `poll()` reports the tokens `poll.ready`; the
  health-check listener's accept queue and what happens to accepted connections is the ghost field `tcp`; the
  `Box<dyn ServerStats>` is the list of events recorded since its last `clear()` together with the kind of recorder
  (`recorder_kind`); the statistics queue is unbounded; the timer's re-arm delay has no jitter; no datagram arrives
  while the call runs (the model's `PassIn.arrivals` are empty); every send / write / shutdown succeeds.
-/
namespace Rough
namespace Bridge
open Rough.Stats Rough.EventLoop

/-- mio tokens of server.rs: EVT_MESSAGE = 0, EVT_STATUS_UPDATE = 1, EVT_HEALTH_CHECK = 2 -/
def tokenOf : Nat → Option Token
  | 0 => some .message
  | 1 => some .statusUpdate
  | 2 => some .healthCheck
  | _ => none

/-- a fresh recorder of the configured kind -/
def initRecorder : Option Nat → Recorder
  | none => .aggregated Aggregated.init
  | some limit => .perClient (PerClient.init limit)

/-- the model loop state a generated server state stands for (`ev` = the events recorded since the recorder was last
    cleared; nothing published yet; the readiness edges are whatever `poll` is about to report) -/
def loopOf (x : GenRest) (s : Server) (sock : Gen.Sock) (backlog : Bool) (ev : List Event) : Loop :=
  { srv := s, backlog := backlog, sockQ := toDatagrams sock.inq, sockEdge := false,
    hcListener := x.health_listener.isSome, hcQ := x.tcp.pending.map (·.addr), hcEdge := false, timerDue := false,
    recd := (initRecorder x.recorder_kind).recordAll ev, published := [] }

/-- what happens to an accepted connection when every write and shutdown succeeds -/
def answeredLog (a : Addr) : List Gen.TcpEvent :=
  [.accepted a, .wrote a (Rs.strBytes Gen.HTTP_RESPONSE), .shutdown a]

/-- observables of the generated server after a call -/
def obsLoopGen (g : Gen.Server) :=
  (g.socket_backlog, g.socket.out, toDatagrams g.socket.inq, g.tcp.pending.map (·.addr), g.tcp.log, g.stats_queue,
    (initRecorder g.recorder_kind).recordAll g.stats_recorder,
    g.responder_ietf.requests, g.responder_classic.requests, g.responder_ietf.merkle, g.responder_classic.merkle,
    g.responder_ietf.online_key, g.responder_classic.online_key, g.health_listener, g.recorder_kind)

/-- the same observables computed from the model's state and output after the call -/
def obsLoopModel (x : GenRest) (sock : Gen.Sock) (y : Loop × Out) :=
  (y.1.backlog, sock.out ++ y.2.sent.map some, y.1.sockQ, y.1.hcQ, x.tcp.log ++ y.2.hcAnswered.flatMap answeredLog,
    x.stats_queue ++ y.1.published.map (fun snap => snap.map fun p => Gen.clientOf p.1 p.2),
    y.1.recd,
    y.1.srv.ietf.requests, y.1.srv.classic.requests,
    toGenTree y.1.srv.ietf.ver y.1.srv.ietf.tree, toGenTree y.1.srv.classic.ver y.1.srv.classic.tree,
    (⟨y.1.srv.ietf.onl, Version.supportedWire⟩ : Gen.OnlineKey), (⟨y.1.srv.classic.onl, Version.supportedWire⟩ : Gen.OnlineKey),
    x.health_listener, x.recorder_kind)

/-! ### helper lemmas for the theorems below (the ones that need the definitions above) -/
namespace PEAux

/-- the published form of a snapshot -/
abbrev snapF (snap : List (Addr × Counters)) : List Gen.ClientStats := snap.map fun p => Gen.clientOf p.1 p.2

/-- `send_client_stats` reads the recorder as the model does -/
theorem su_rel (kind : Option Nat) (ev : List Event) :
    clientsOf kind ev = snapF ((initRecorder kind).recordAll ev).snapshot ∧
    (((initRecorder kind).recordAll ev).snapshot.isEmpty = false →
      ((initRecorder kind).recordAll ev).clear = initRecorder kind) := by
  cases kind with
  | none =>
    simp only [initRecorder, recordAll_aggregated, Recorder.snapshot]
    exact ⟨rfl, fun h => by cases h⟩
  | some limit =>
    simp only [initRecorder, recordAll_perClient, Recorder.snapshot, Recorder.clear]
    refine ⟨?_, fun _ => ?_⟩
    · simp only [clientsOf, Gen.statsIter, List.map_map, snapF]
      rfl
    · simp only [PerClient.clear, run_limit]
      rfl

/-- the two cases of `send_client_stats`: nothing to publish, or one snapshot published and a fresh recorder -/
theorem su_cases (kind : Option Nat) (ev : List Event) (st : Loop)
    (hrecd : st.recd = (initRecorder kind).recordAll ev) :
    (¬ (clientsOf kind ev).length > 0 ∧ sendClientStats st = st) ∨
    ((clientsOf kind ev).length > 0 ∧ clientsOf kind ev = snapF st.recd.snapshot ∧
      sendClientStats st = { st with published := st.published ++ [st.recd.snapshot], recd := initRecorder kind }) := by
  have hr := su_rel kind ev
  rw [← hrecd] at hr
  by_cases h : st.recd.snapshot = []
  · left
    refine ⟨?_, ?_⟩
    · rw [hr.1, h]; simp
    · simp [sendClientStats, h]
  · right
    have hne : st.recd.snapshot.isEmpty = false := by
      cases hsn : st.recd.snapshot with
      | nil => exact absurd hsn h
      | cons a b => rfl
    refine ⟨?_, hr.1, ?_⟩
    · rw [hr.1]
      cases hsn : st.recd.snapshot with
      | nil => exact absurd hsn h
      | cons a b => simp
    · simp only [sendClientStats, hne, Bool.false_eq_true, if_false, hr.2 hne]

/-- the model's observables over explicit starting values of the accumulated ones -/
def obsM (out0 : List (Option Sent)) (log0 : List Gen.TcpEvent) (q0 : List (List Gen.ClientStats))
    (hl : Option Unit) (kind : Option Nat) (y : Loop × Out) :=
  (y.1.backlog, out0 ++ y.2.sent.map some, y.1.sockQ, y.1.hcQ, log0 ++ y.2.hcAnswered.flatMap answeredLog,
    q0 ++ y.1.published.map (fun snap => snap.map fun p => Gen.clientOf p.1 p.2),
    y.1.recd,
    y.1.srv.ietf.requests, y.1.srv.classic.requests,
    toGenTree y.1.srv.ietf.ver y.1.srv.ietf.tree, toGenTree y.1.srv.classic.ver y.1.srv.classic.tree,
    (⟨y.1.srv.ietf.onl, Version.supportedWire⟩ : Gen.OnlineKey), (⟨y.1.srv.classic.onl, Version.supportedWire⟩ : Gen.OnlineKey),
    hl, kind)

theorem obsLoopModel_eq (x : GenRest) (sock : Gen.Sock) :
    obsLoopModel x sock = obsM sock.out x.tcp.log x.stats_queue x.health_listener x.recorder_kind := rfl

theorem obsM_append (out0 : List (Option Sent)) (log0 : List Gen.TcpEvent) (q0 : List (List Gen.ClientStats))
    (hl : Option Unit) (kind : Option Nat) (st : Loop) (o o' : Out) :
    obsM out0 log0 q0 hl kind (st, o.append o') =
      obsM (out0 ++ o.sent.map some) (log0 ++ o.hcAnswered.flatMap answeredLog) q0 hl kind (st, o') := by
  simp [obsM, Out.append, List.append_assoc, List.flatMap_append]

/-- the generated state `g` stands for the model loop state `st` (with `q0` the statistics queue before the call) -/
structure Rel (q0 : List (List Gen.ClientStats)) (g : Gen.Server) (st : Loop) : Prop where
  backlog : st.backlog = g.socket_backlog
  sockQ : st.sockQ = toDatagrams g.socket.inq
  hcl : st.hcListener = g.health_listener.isSome
  hcQ : st.hcQ = g.tcp.pending.map (·.addr)
  recd : st.recd = (initRecorder g.recorder_kind).recordAll g.stats_recorder
  queue : g.stats_queue = q0 ++ st.published.map snapF
  srv : (st.srv.ietf.requests, st.srv.classic.requests,
      toGenTree st.srv.ietf.ver st.srv.ietf.tree, toGenTree st.srv.classic.ver st.srv.classic.tree,
      (⟨st.srv.ietf.onl, Version.supportedWire⟩ : Gen.OnlineKey), (⟨st.srv.classic.onl, Version.supportedWire⟩ : Gen.OnlineKey)) =
    (g.responder_ietf.requests, g.responder_classic.requests, g.responder_ietf.merkle, g.responder_classic.merkle,
      g.responder_ietf.online_key, g.responder_classic.online_key)
  conn : ∀ c ∈ g.tcp.pending, c.writeOk = true ∧ c.shutOk = true

/-- before the socket is serviced, the generated state is the image of the model server state and the per-batch inputs
    are the ones its environment determines -/
def Form (E : Env) (LOG : Nat) (ins : Nat → PassIn) (g : Gen.Server) (st : Loop) : Prop :=
  ∃ x s sock buf bl ev gI gC cI cC, g = toGenServer x s sock buf bl ev ⟨gI, cI⟩ ⟨gC, cC⟩ ∧ st.srv = s ∧
    (∀ a k, sock.ok a k = true) ∧ (∀ p ∈ sock.inq, p.1.length ≤ buf.length) ∧
    ins = fun i => passAt E (decide (LOG ≥ 4)) i s sock gI gC

theorem rel_final (q0 : List (List Gen.ClientStats)) (g : Gen.Server) (st : Loop) (h : Rel q0 g st) :
    obsLoopGen g = obsM g.socket.out g.tcp.log q0 g.health_listener g.recorder_kind (st, {}) := by
  have hs := h.srv
  simp only [Prod.mk.injEq] at hs
  simp only [obsLoopGen, obsM, List.map_nil, List.append_nil, List.flatMap_nil, h.backlog, h.sockQ, h.hcQ, h.recd,
    h.queue, hs.1, hs.2.1, hs.2.2.1, hs.2.2.2.1, hs.2.2.2.2.1, hs.2.2.2.2.2]

/-- `Form` only concerns the datagram path -/
theorem form_update (E : Env) (LOG : Nat) (ins : Nat → PassIn) (g : Gen.Server) (st st' : Loop)
    (h : Form E LOG ins g st) (hs : st'.srv = st.srv) (t : Gen.Tcp) (e : List Event) (q : List (List Gen.ClientStats))
    (tm : List Rs.Time) :
    Form E LOG ins { g with tcp := t, stats_recorder := e, stats_queue := q, stats_pub_timer := tm } st' := by
  obtain ⟨x, s, sock, buf, bl, ev, gI, gC, cI, cC, hg, hsrv, hok, hfit, hins⟩ := h
  subst hg
  exact ⟨{ x with tcp := t, stats_queue := q, stats_pub_timer := tm }, s, sock, buf, bl, e, gI, gC, cI, cC, rfl,
    hs.trans hsrv, hok, hfit, hins⟩

/-- the EVT_MESSAGE arm / the post-loop service: generated code and model finish alike, and when they return the
    correspondence holds again -/
theorem svc_step (E : Env) (hH : ∀ z, (E.H z).length = 64) (LOG : Nat) (ins : Nat → PassIn)
    (q0 : List (List Gen.ClientStats)) (g : Gen.Server) (st : Loop) (hrel : Rel q0 g st) (hform : Form E LOG ins g st) :
    (∃ g' st' o, Gen.Server.service_socket E.S E.H LOG g = .ok g' ∧
        serviceSocket E (decide (LOG ≥ 4)) 16 st ins = .ok (st', o) ∧ Rel q0 g' st' ∧
        g'.socket.out = g.socket.out ++ o.sent.map some ∧ g'.tcp.log = g.tcp.log ∧ o.hcAnswered = [] ∧
        g'.health_listener = g.health_listener ∧ g'.recorder_kind = g.recorder_kind) ∨
    (Gen.Server.service_socket E.S E.H LOG g = .err ∧ serviceSocket E (decide (LOG ≥ 4)) 16 st ins = .err) ∨
    (∃ p q, Gen.Server.service_socket E.S E.H LOG g = .panic p ∧
        serviceSocket E (decide (LOG ≥ 4)) 16 st ins = .panic q) := by
  obtain ⟨x, s, sock, buf, bl, ev, gI, gC, cI, cC, hg, hsrv, hok, hfit, hins⟩ := hform
  subst hg hins
  rcases svc_cases E hH LOG x s sock buf bl ev gI gC cI cC hok hfit st hsrv hrel.sockQ with
    ⟨y, g', o, h1, h2, hobs, hrest, hsent, _, hhc⟩ | h | h
  · refine Or.inl ⟨g', stAfter st y, o, h1, h2, ?_, ?_, ?_, hhc, ?_, ?_⟩
    · simp only [obsSvc, specObs, Prod.mk.injEq] at hobs
      obtain ⟨o1, o2, o3, o4, o5, o6, o7, o8, o9, o10, _, _⟩ := hobs
      have r1 : g'.health_listener = x.health_listener := congrArg GenRest.health_listener hrest
      have r2 : g'.tcp = x.tcp := congrArg GenRest.tcp hrest
      have r3 : g'.recorder_kind = x.recorder_kind := congrArg GenRest.recorder_kind hrest
      have r4 : g'.stats_queue = x.stats_queue := congrArg GenRest.stats_queue hrest
      exact {
        backlog := o1.symm
        sockQ := by rw [o3]; rfl
        hcl := by rw [r1]; exact hrel.hcl
        hcQ := by rw [r2]; exact hrel.hcQ
        recd := by
          rw [r3, o4, recordAll_append]
          show (st.recd).recordAll _ = _
          rw [hrel.recd]
          rfl
        queue := by rw [r4]; exact hrel.queue
        srv := by
          show (y.1.ietf.requests, y.1.classic.requests, _, _, _, _) = _
          rw [o5, o6, o7, o8, o9, o10]
          rfl
        conn := by rw [r2]; exact hrel.conn }
    · simp only [obsSvc, specObs, Prod.mk.injEq] at hobs
      rw [hobs.2.1, hsent]
      rfl
    · exact congrArg (fun r => r.tcp.log) hrest
    · exact congrArg GenRest.health_listener hrest
    · exact congrArg GenRest.recorder_kind hrest
  · exact Or.inr (Or.inl h)
  · exact Or.inr (Or.inr h)

/-- the EVT_HEALTH_CHECK arm with a configured listener -/
theorem hc_step (q0 : List (List Gen.ClientStats)) (g : Gen.Server) (st : Loop) (hrel : Rel q0 g st)
    (hl : g.health_listener.isSome) :
    handleHealthCheck st = .ok ({ st with hcQ := [], recd := st.recd.recordAll (g.tcp.pending.map hcEvent) },
        { events := g.tcp.pending.map hcEvent, hcAnswered := st.hcQ }) ∧
      Rel q0 { g with tcp := hcDrain g.tcp.pending g.tcp, stats_recorder := g.stats_recorder ++ g.tcp.pending.map hcEvent }
        { st with hcQ := [], recd := st.recd.recordAll (g.tcp.pending.map hcEvent) } ∧
      (hcDrain g.tcp.pending g.tcp).log = g.tcp.log ++ st.hcQ.flatMap answeredLog := by
  have hev : (st.hcQ.map fun a => (⟨Kind.healthCheck, a, 0⟩ : Event)) = g.tcp.pending.map hcEvent := by
    rw [hrel.hcQ, List.map_map]
    rfl
  refine ⟨?_, ?_, ?_⟩
  · simp only [handleHealthCheck, hrel.hcl, hl, Bool.not_true, Bool.false_eq_true, if_false, hev]
  · exact {
      backlog := hrel.backlog
      sockQ := hrel.sockQ
      hcl := hrel.hcl
      hcQ := by
        show [] = List.map _ (hcDrain g.tcp.pending g.tcp).pending
        rw [hcDrain_pending _ _ rfl]
        rfl
      recd := by
        show st.recd.recordAll _ = (initRecorder g.recorder_kind).recordAll (g.stats_recorder ++ _)
        rw [recordAll_append, hrel.recd]
      queue := hrel.queue
      srv := hrel.srv
      conn := by
        show ∀ c ∈ (hcDrain g.tcp.pending g.tcp).pending, _
        rw [hcDrain_pending _ _ rfl]
        intro c hc
        cases hc }
  · rw [hcDrain_log_ok _ _ hrel.conn, hrel.hcQ]
    rfl

/-- the EVT_STATUS_UPDATE arm -/
theorem su_step (q0 : List (List Gen.ClientStats)) (g : Gen.Server) (st : Loop) (hrel : Rel q0 g st) :
    Rel q0 { g with
        stats_queue := if (clientsOf g.recorder_kind g.stats_recorder).length > 0
          then g.stats_queue ++ [clientsOf g.recorder_kind g.stats_recorder] else g.stats_queue,
        stats_recorder := if (clientsOf g.recorder_kind g.stats_recorder).length > 0 then [] else g.stats_recorder,
        stats_pub_timer := g.stats_pub_timer ++ [g.stats_pub_freq] }
      (sendClientStats st) := by
  rcases su_cases g.recorder_kind g.stats_recorder st hrel.recd with ⟨h1, h2⟩ | ⟨h1, h2, h3⟩
  · rw [h2]
    simp only [h1, if_false]
    exact { backlog := hrel.backlog, sockQ := hrel.sockQ, hcl := hrel.hcl, hcQ := hrel.hcQ, recd := hrel.recd,
            queue := hrel.queue, srv := hrel.srv, conn := hrel.conn }
  · rw [h3]
    simp only [h1, if_true]
    exact { backlog := hrel.backlog, sockQ := hrel.sockQ, hcl := hrel.hcl, hcQ := hrel.hcQ, recd := rfl,
            queue := by
              show g.stats_queue ++ [_] = q0 ++ List.map snapF (st.published ++ [st.recd.snapshot])
              rw [hrel.queue, h2, List.map_append, List.append_assoc]
              rfl
            srv := hrel.srv, conn := hrel.conn }

theorem sendClientStats_srv (st : Loop) : (sendClientStats st).srv = st.srv := by
  unfold sendClientStats
  simp only []
  split <;> rfl

theorem forList_cons_next {α σ β ρ : Type} (x : α) (xs : List α) (s : σ) (body : α → σ → Res (Rs.Step σ)) (K : σ → Res ρ)
    (r : Res β) (F : β → σ) (h : body x s = r.bind fun a => .ok (.next (F a))) :
    (Rs.forList (x :: xs) s body).bind K = r.bind fun a => (Rs.forList xs (F a) body).bind K := by
  rw [Rs.forList_cons, h]
  cases r <;> rfl

theorem tokenOf_cases (n : Nat) (t : Token) (h : tokenOf n = some t) :
    (n = 0 ∧ t = .message) ∨ (n = 1 ∧ t = .statusUpdate) ∨ (n = 2 ∧ t = .healthCheck) := by
  match n, h with
  | 0, h => cases h; exact Or.inl ⟨rfl, rfl⟩
  | 1, h => cases h; exact Or.inr (Or.inl ⟨rfl, rfl⟩)
  | 2, h => cases h; exact Or.inr (Or.inr ⟨rfl, rfl⟩)
  | _ + 3, h => cases h

/-- `toks` are the tokens the mio token numbers `ts` stand for -/
inductive TokRel : List Nat → List Token → Prop
  | nil : TokRel [] []
  | cons {n t ts toks} : tokenOf n = some t → TokRel ts toks → TokRel (n :: ts) (t :: toks)

theorem tokRel_of_mapM : ∀ (ts : List Nat) (toks : List Token), ts.mapM tokenOf = some toks → TokRel ts toks
  | [], toks, h => by
    simp only [List.mapM_nil] at h
    cases h
    exact .nil
  | n :: ts, toks, h => by
    simp only [List.mapM_cons] at h
    cases h1 : tokenOf n with
    | none => rw [h1] at h; cases h
    | some t =>
      cases h2 : ts.mapM tokenOf with
      | none => rw [h1, h2] at h; cases h
      | some rest =>
        rw [h1, h2] at h
        cases h
        exact .cons h1 (tokRel_of_mapM ts rest h2)

theorem sim_map_of_eq {α β γ : Type} {r : Res α} {s : Res β} {f : α → γ} {g g' : β → γ} (h : r.map f ≃ᵣ s.map g')
    (hg : ∀ b, g' b = g b) : r.map f ≃ᵣ s.map g := by
  have : g' = g := funext hg
  rw [← this]; exact h

/-- the event loop and what follows it, for any loop body / epilogue that do what the generated ones do: by induction on
    the tokens still to be handled -/
theorem main_sim (E : Env) (hH : ∀ z, (E.H z).length = 64) (LOG : Nat) (evs : List Nat) (ins : Nat → PassIn)
    (q0 : List (List Gen.ClientStats))
    (body : Nat → Gen.Server × Bool → Res (Rs.Step (Gen.Server × Bool)))
    (K : Gen.Server × Bool → Res (Gen.Server × List Nat))
    (hb0 : ∀ g sv, body 0 (g, sv) = (Gen.Server.service_socket E.S E.H LOG g).bind fun g' => .ok (.next (g', true)))
    (hb1 : ∀ g sv, body 1 (g, sv) = (Gen.Server.send_client_stats E.S E.H LOG g).bind fun g' => .ok (.next (g', sv)))
    (hb2 : ∀ g sv, body 2 (g, sv) = (Gen.Server.handle_health_check E.S E.H LOG g).bind fun g' => .ok (.next (g', sv)))
    (hK : ∀ g sv, K (g, sv) = if g.socket_backlog = true ∧ sv = false
      then (Gen.Server.service_socket E.S E.H LOG g).bind fun g' => .ok (g', evs) else .ok (g, evs)) :
    ∀ (ts : List Nat) (toks : List Token), TokRel ts toks → ts.Nodup →
    ∀ (g : Gen.Server) (st : Loop) (sv : Bool), Rel q0 g st → (sv = false → Form E LOG ins g st) →
      (sv = true → 0 ∉ ts) →
      ((Rs.forList ts (g, sv) body).bind K).map (fun r => obsLoopGen r.1) ≃ᵣ
        (modelTail E (decide (LOG ≥ 4)) ins toks st sv).map
          (obsM g.socket.out g.tcp.log q0 g.health_listener g.recorder_kind) := by
  intro ts toks hall
  induction hall with
  | nil =>
    intro _ g st sv hrel hform _
    rw [Rs.forList_nil, Res.bind_ok, hK, modelTail_nil, hrel.backlog]
    by_cases hgo : g.socket_backlog = true ∧ sv = false
    · rw [if_pos hgo]
      have hgo' : (g.socket_backlog && !sv) = true := by rw [hgo.1, hgo.2]; rfl
      rw [if_pos hgo']
      rcases svc_step E hH LOG ins q0 g st hrel (hform hgo.2) with
        ⟨g', st', o, h1, h2, hrel', hout, hlog, hhc, hhl, hkind⟩ | ⟨h1, h2⟩ | ⟨p, q, h1, h2⟩
      · rw [h1, h2]
        show obsLoopGen g' = obsM g.socket.out g.tcp.log q0 g.health_listener g.recorder_kind (st', o)
        rw [rel_final q0 g' st' hrel', hout, hlog, hhl, hkind]
        simp [obsM, hhc]
      · rw [h1, h2]; trivial
      · rw [h1, h2]; trivial
    · rw [if_neg hgo]
      have hgo' : ¬ (g.socket_backlog && !sv) = true := by
        intro h
        apply hgo
        cases hb : g.socket_backlog <;> cases hs : sv <;> simp_all
      rw [if_neg hgo']
      exact rel_final q0 g st hrel
  | @cons n t ts toks hnt _ ih =>
    intro hnd g st sv hrel hform hsv
    have hnd' := (List.nodup_cons.mp hnd)
    rw [modelTail_cons]
    rcases tokenOf_cases n t hnt with ⟨rfl, rfl⟩ | ⟨rfl, rfl⟩ | ⟨rfl, rfl⟩
    · -- EVT_MESSAGE
      have hsvf : sv = false := by
        cases sv with
        | false => rfl
        | true => exact absurd (List.mem_cons_self ..) (hsv rfl)
      rw [forList_cons_next _ _ _ _ _ _ _ (hb0 g sv)]
      simp only [stepT, MAX_BATCHES_PER_CALL]
      rcases svc_step E hH LOG ins q0 g st hrel (hform hsvf) with
        ⟨g', st', o, h1, h2, hrel', hout, hlog, hhc, hhl, hkind⟩ | ⟨h1, h2⟩ | ⟨p, q, h1, h2⟩
      · rw [h1, h2]
        simp only [Res.bind_ok, map_map]
        have := ih hnd'.2 g' st' true hrel' (fun h => by cases h) (fun _ => hnd'.1)
        refine sim_map_of_eq this fun b => ?_
        simp only [Function.comp, obsM_append, hout, hlog, hhl, hkind, hhc, List.flatMap_nil, List.append_nil]
      · rw [h1, h2]; trivial
      · rw [h1, h2]; trivial
    · -- EVT_STATUS_UPDATE
      rw [forList_cons_next _ _ _ _ _ _ _ (hb1 g sv), send_client_stats_exact]
      simp only [stepT, Res.bind_ok, map_map]
      have := ih hnd'.2 _ _ sv (su_step q0 g st hrel)
        (fun h => form_update E LOG ins g st _ (hform h) (sendClientStats_srv st) g.tcp _ _ _)
        (fun h => fun hm => hsv h (List.mem_cons_of_mem _ hm))
      refine sim_map_of_eq this fun b => ?_
      simp only [Function.comp, Out.empty_append]
    · -- EVT_HEALTH_CHECK
      rw [forList_cons_next _ _ _ _ _ _ _ (hb2 g sv)]
      cases hl : g.health_listener.isSome with
      | true =>
        obtain ⟨hm, hrel', hlog⟩ := hc_step q0 g st hrel hl
        rw [handle_health_check_exact _ _ _ _ hl]
        simp only [stepT, hm, Res.bind_ok, map_map]
        have := ih hnd'.2 _ _ sv hrel'
          (fun h => form_update E LOG ins g st _ (hform h) rfl _ _ g.stats_queue g.stats_pub_timer)
          (fun h => fun hm => hsv h (List.mem_cons_of_mem _ hm))
        refine sim_map_of_eq this fun b => ?_
        simp only [Function.comp, obsM_append, hlog, List.map_nil, List.append_nil]
      | false =>
        have hnone : g.health_listener = none := by
          cases hh : g.health_listener with
          | none => rfl
          | some u => rw [hh] at hl; cases hl
        have hp : ∃ p, Gen.Server.handle_health_check E.S E.H LOG g = .panic p := by
          unfold Gen.Server.handle_health_check
          simp only [Res.pure_eq, Res.bind_eq, hnone, Rs.unwrapO, Res.bind_panic]
          exact ⟨_, rfl⟩
        obtain ⟨p, hp⟩ := hp
        have hm : ∃ q, handleHealthCheck st = .panic q := by
          simp only [handleHealthCheck, hrel.hcl, hl, Bool.not_false, if_true]
          exact ⟨_, rfl⟩
        obtain ⟨q, hm⟩ := hm
        rw [hp]
        simp only [stepT, hm]
        trivial

end PEAux
open PEAux

/-- `handle_health_check` for ANY behaviour of the accepted sockets: it returns normally, accepts every pending
    connection in order (the accept queue is empty afterwards), records one health-check event per connection and
    touches nothing else observable; without a configured listener it panics (the `unwrap`) -/
theorem handle_health_check_total (E : Env) (LOG : Nat) (x : GenRest) (s : Server) (sock : Gen.Sock) (buf : Bytes)
    (backlog : Bool) (ev : List Event) (gI gC : Gen.GreaseQ) (hl : x.health_listener.isSome) :
    ∃ g', Gen.Server.handle_health_check E.S E.H LOG (toGenServer x s sock buf backlog ev gI gC) = .ok g' ∧
      g'.tcp.pending = [] ∧
      g'.stats_recorder = ev ++ x.tcp.pending.map (fun c => (⟨Kind.healthCheck, c.addr, 0⟩ : Event)) ∧
      (g'.tcp.log.filterMap fun e => match e with | .accepted a => some a | _ => none) =
        (x.tcp.log.filterMap fun e => match e with | .accepted a => some a | _ => none) ++ x.tcp.pending.map (·.addr) ∧
      g' = { toGenServer x s sock buf backlog ev gI gC with tcp := g'.tcp, stats_recorder := g'.stats_recorder } := by
  refine ⟨_, handle_health_check_exact E.S E.H LOG (toGenServer x s sock buf backlog ev gI gC) hl, ?_, ?_, ?_, rfl⟩
  · exact hcDrain_pending _ _ rfl
  · rfl
  · exact hcDrain_accepted _ (fun _ => rfl) (fun _ _ => rfl) (fun _ => rfl) (fun _ => rfl) (fun _ => rfl) _ _

theorem handle_health_check_no_listener (E : Env) (LOG : Nat) (x : GenRest) (s : Server) (sock : Gen.Sock) (buf : Bytes)
    (backlog : Bool) (ev : List Event) (gI gC : Gen.GreaseQ) (hl : x.health_listener = none) :
    (Gen.Server.handle_health_check E.S E.H LOG (toGenServer x s sock buf backlog ev gI gC)).isPanic = true := by
  unfold Gen.Server.handle_health_check
  have e : (toGenServer x s sock buf backlog ev gI gC).health_listener = none := hl
  simp only [Res.pure_eq, Res.bind_eq, e, Rs.unwrapO, Res.bind_panic, Res.isPanic]

/-- `send_client_stats` = the model's `sendClientStats`: the recorder's entries (if any) are appended to the queue and
    the recorder is cleared; the timer is re-armed with the publication period -/
theorem send_client_stats_eq (E : Env) (LOG : Nat) (x : GenRest) (s : Server) (sock : Gen.Sock) (buf : Bytes)
    (backlog : Bool) (ev : List Event) (gI gC : Gen.GreaseQ) :
    ∃ g', Gen.Server.send_client_stats E.S E.H LOG (toGenServer x s sock buf backlog ev gI gC) = .ok g' ∧
      (let st' := sendClientStats (loopOf x s sock backlog ev)
       g'.stats_queue = x.stats_queue ++ st'.published.map (fun snap => snap.map fun p => Gen.clientOf p.1 p.2) ∧
       (initRecorder x.recorder_kind).recordAll g'.stats_recorder = st'.recd) ∧
      g'.stats_pub_timer = x.stats_pub_timer ++ [x.stats_pub_freq] ∧
      g' = { toGenServer x s sock buf backlog ev gI gC with
               stats_queue := g'.stats_queue, stats_recorder := g'.stats_recorder, stats_pub_timer := g'.stats_pub_timer } := by
  refine ⟨_, send_client_stats_exact E.S E.H LOG (toGenServer x s sock buf backlog ev gI gC), ?_, rfl, rfl⟩
  have hk : (toGenServer x s sock buf backlog ev gI gC).recorder_kind = x.recorder_kind := rfl
  have he : (toGenServer x s sock buf backlog ev gI gC).stats_recorder = ev := rfl
  have hq : (toGenServer x s sock buf backlog ev gI gC).stats_queue = x.stats_queue := rfl
  simp only [hk, he, hq]
  rcases su_cases x.recorder_kind ev (loopOf x s sock backlog ev) rfl with ⟨h1, h2⟩ | ⟨h1, h2, h3⟩
  · rw [h2]
    simp [h1, loopOf]
  · rw [h3]
    simp only [h1, if_true]
    simp [h2, loopOf, Recorder.recordAll]

/-- `process_events` refines the model for the per-batch inputs `passAt` (see `process_events_sim` below) -/
theorem process_events_sim_passAt (E : Env) (hH : ∀ z, (E.H z).length = 64) (LOG : Nat) (x : GenRest) (s : Server)
    (sock : Gen.Sock) (buf : Bytes) (backlog : Bool) (ev : List Event) (gI gC : List Grease) (cI cC : Grease)
    (evs0 : List Nat) (toks : List Token)
    (hok : ∀ a k, sock.ok a k = true) (hfit : ∀ p ∈ sock.inq, p.1.length ≤ buf.length)
    (hpoll : x.poll.fails = false) (htoks : x.poll.ready.mapM tokenOf = some toks) (hnodup : x.poll.ready.Nodup)
    (hconn : ∀ c ∈ x.tcp.pending, c.writeOk = true ∧ c.shutOk = true) :
    (Gen.Server.process_events E.S E.H LOG (toGenServer x s sock buf backlog ev ⟨gI, cI⟩ ⟨gC, cC⟩) evs0).map
          (fun r => obsLoopGen r.1)
        ≃ᵣ (processEvents E (decide (LOG ≥ 4)) (loopOf x s sock backlog ev)
              ⟨toks, fun i => passAt E (decide (LOG ≥ 4)) i s sock gI gC⟩).map (obsLoopModel x sock) := by
  have hmodel : processEvents E (decide (LOG ≥ 4)) (loopOf x s sock backlog ev)
      ⟨toks, fun i => passAt E (decide (LOG ≥ 4)) i s sock gI gC⟩ =
      modelTail E (decide (LOG ≥ 4)) (fun i => passAt E (decide (LOG ≥ 4)) i s sock gI gC) toks
        (loopOf x s sock backlog ev) false := by
    simp only [processEvents, modelTail, loopOf, Bool.false_and]
  rw [hmodel, obsLoopModel_eq]
  unfold Gen.Server.process_events
  have hp : Rs.unwrapR (Gen.Poll.poll (toGenServer x s sock buf backlog ev ⟨gI, cI⟩ ⟨gC, cC⟩).poll)
      "server.rs:process_events:expect#1" = .ok x.poll.ready.length := by
    show Rs.unwrapR (Gen.Poll.poll x.poll) _ = _
    simp only [Gen.Poll.poll, hpoll, Bool.false_eq_true, if_false, Rs.unwrapR]
  have hr : (toGenServer x s sock buf backlog ev ⟨gI, cI⟩ ⟨gC, cC⟩).poll.ready = x.poll.ready := rfl
  simp only [Res.pure_eq, Res.bind_eq, hp, hr, Res.bind_ok]
  have hif : ∀ (c : Prop) [Decidable c] (a b : Option Rs.Time) (f : Option Rs.Time → Res (Gen.Server × List Nat)),
      (if c then Res.ok a else Res.ok b).bind f = f (if c then a else b) := by
    intro c _ a b f
    split <;> rfl
  rw [hif]
  have hrel : Rel x.stats_queue (toGenServer x s sock buf backlog ev ⟨gI, cI⟩ ⟨gC, cC⟩) (loopOf x s sock backlog ev) :=
    { backlog := rfl, sockQ := rfl, hcl := rfl, hcQ := rfl, recd := rfl
      queue := by simp [loopOf, toGenServer]
      srv := rfl, conn := hconn }
  have hform : Form E LOG (fun i => passAt E (decide (LOG ≥ 4)) i s sock gI gC)
      (toGenServer x s sock buf backlog ev ⟨gI, cI⟩ ⟨gC, cC⟩) (loopOf x s sock backlog ev) :=
    ⟨x, s, sock, buf, backlog, ev, gI, gC, cI, cC, rfl, rfl, hok, hfit, rfl⟩
  refine main_sim E hH LOG x.poll.ready _ x.stats_queue _ _ ?hb0 ?hb1 ?hb2 ?hK x.poll.ready toks
    (tokRel_of_mapM _ _ htoks) hnodup _ _ false hrel (fun _ => hform) (fun h => by cases h)
  case hb0 => intro g sv; rfl
  case hb1 => intro g sv; rfl
  case hb2 => intro g sv; rfl
  case hK => intro g sv; cases sv <;> simp

theorem nodup_of_tokRel : ∀ (ts : List Nat) (toks : List Token), TokRel ts toks → ts.Nodup → toks.Nodup := by
  have hmem : ∀ (ts : List Nat) (toks : List Token), TokRel ts toks → ∀ t ∈ toks, ∃ n ∈ ts, tokenOf n = some t := by
    intro ts toks h
    induction h with
    | nil => intro t ht; cases ht
    | @cons n t ts toks hnt _ ih =>
      intro t' ht'
      rcases List.mem_cons.mp ht' with rfl | ht'
      · exact ⟨n, List.mem_cons_self .., hnt⟩
      · obtain ⟨m, hm, hmt⟩ := ih t' ht'
        exact ⟨m, List.mem_cons_of_mem _ hm, hmt⟩
  intro ts toks h
  induction h with
  | nil => intro _; exact List.nodup_nil
  | @cons n t ts toks hnt hrest ih =>
    intro hnd
    obtain ⟨hn, hnd'⟩ := List.nodup_cons.mp hnd
    refine List.nodup_cons.mpr ⟨fun ht => ?_, ih hnd'⟩
    obtain ⟨m, hm, hmt⟩ := hmem ts toks hrest t ht
    have : m = n := by
      rcases tokenOf_cases n t hnt with ⟨rfl, rfl⟩ | ⟨rfl, rfl⟩ | ⟨rfl, rfl⟩ <;>
        rcases tokenOf_cases m _ hmt with ⟨rfl, h⟩ | ⟨rfl, h⟩ | ⟨rfl, h⟩ <;> first | rfl | cases h
    exact hn (this ▸ hm)

/-- the same for per-batch inputs every one of which is taken from the environment (`passEnv`, `passEnv_prov`): the
    model cannot tell them from `passAt` -/
theorem process_events_sim_passEnv (E : Env) (hH : ∀ z, (E.H z).length = 64) (LOG : Nat) (x : GenRest) (s : Server)
    (sock : Gen.Sock) (buf : Bytes) (backlog : Bool) (ev : List Event) (gI gC : List Grease) (cI cC : Grease)
    (evs0 : List Nat) (toks : List Token)
    (hok : ∀ a k, sock.ok a k = true) (hfit : ∀ p ∈ sock.inq, p.1.length ≤ buf.length)
    (hpoll : x.poll.fails = false) (htoks : x.poll.ready.mapM tokenOf = some toks) (hnodup : x.poll.ready.Nodup)
    (hconn : ∀ c ∈ x.tcp.pending, c.writeOk = true ∧ c.shutOk = true) :
    (Gen.Server.process_events E.S E.H LOG (toGenServer x s sock buf backlog ev ⟨gI, cI⟩ ⟨gC, cC⟩) evs0).map
          (fun r => obsLoopGen r.1)
        ≃ᵣ (processEvents E (decide (LOG ≥ 4)) (loopOf x s sock backlog ev)
              ⟨toks, fun i => passEnv E (decide (LOG ≥ 4)) i s sock gI gC⟩).map (obsLoopModel x sock) := by
  have h := process_events_sim_passAt E hH LOG x s sock buf backlog ev gI gC cI cC evs0 toks hok hfit hpoll htoks hnodup hconn
  have hmodel : ∀ ins, processEvents E (decide (LOG ≥ 4)) (loopOf x s sock backlog ev) ⟨toks, ins⟩ =
      modelTail E (decide (LOG ≥ 4)) ins toks (loopOf x s sock backlog ev) false := by
    intro ins
    simp only [processEvents, modelTail, loopOf, Bool.false_and]
  rw [hmodel] at h
  rw [hmodel, modelTail_passEnv E (decide (LOG ≥ 4)) s sock gI gC toks
    (nodup_of_tokRel _ _ (tokRel_of_mapM _ _ htoks) hnodup) _ false (fun _ => ⟨rfl, rfl⟩) (fun h => by cases h)]
  exact h

/-- `process_events` refines the model: for the tokens `poll` reports (each at most once, all of them known), with
    every send / write / shutdown succeeding and no datagram arriving during the call, the generated code behaves as
    `EventLoop.processEvents` does for SOME per-batch inputs without in-call arrivals (the clock readings and
    fault-injection decisions the environment supplies) — same backlog flag, same datagrams on the wire in the same
    order, same remaining receive queue, same connections answered in the same order, same published snapshots, same
    recorder state, same responder states. Hence every LOOP_* theorem (which quantify over all `CallIn`s) applies to
    what the code does. -/
theorem process_events_sim (E : Env) (hH : ∀ z, (E.H z).length = 64) (LOG : Nat) (x : GenRest) (s : Server)
    (sock : Gen.Sock) (buf : Bytes) (backlog : Bool) (ev : List Event) (gI gC : List Grease) (cI cC : Grease)
    (evs0 : List Nat) (toks : List Token)
    (hok : ∀ a k, sock.ok a k = true) (hfit : ∀ p ∈ sock.inq, p.1.length ≤ buf.length)
    (hpoll : x.poll.fails = false) (htoks : x.poll.ready.mapM tokenOf = some toks) (hnodup : x.poll.ready.Nodup)
    (hconn : ∀ c ∈ x.tcp.pending, c.writeOk = true ∧ c.shutOk = true) :
    ∃ passes : Nat → PassIn, (∀ i, (passes i).arrivals = []) ∧
      (Gen.Server.process_events E.S E.H LOG (toGenServer x s sock buf backlog ev ⟨gI, cI⟩ ⟨gC, cC⟩) evs0).map
          (fun r => obsLoopGen r.1)
        ≃ᵣ (processEvents E (decide (LOG ≥ 4)) (loopOf x s sock backlog ev) ⟨toks, passes⟩).map (obsLoopModel x sock) :=
  ⟨fun i => passAt E (decide (LOG ≥ 4)) i s sock gI gC, fun _ => passAt_arrivals _ _ _ _ _ _ _,
    process_events_sim_passAt E hH LOG x s sock buf backlog ev gI gC cI cC evs0 toks hok hfit hpoll htoks hnodup hconn⟩

end Bridge
end Rough

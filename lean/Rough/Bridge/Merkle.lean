import Rough.Bridge.Basic
import Rough.Generated.Src.Merkle
import Rough.Model.Merkle
import Rough.Lemmas.MerkleModel
import Rough.Bridge.MerkleLemmas
/-
  Bridge theorems for src/merkle.rs: the code generated from the Rust source (with SHA-512 as the parameter `H`)
  equals, up to `≃ᵣ`, the hand-written model `Rough.Merkle.*` (about which C04's completeness / binding / reuse
  theorems are proved) — for every tree state, leaf, index and path, and for every `H` with 64-byte outputs.
-/
namespace Rough
namespace Bridge

/-- node width of a protocol version -/
def nodeLen : Version → Nat
  | .ietf => 32
  | .google => 64

/-- the model's hash configuration for SHA-512 `H` and a version: first `nodeLen` bytes of `H` -/
def cfgOf (H : Bytes → Bytes) (v : Version) : MerkleCfg := ⟨fun x => (H x).take (nodeLen v), nodeLen v⟩

/-- the generated `MerkleTree` of a model tree -/
def toGenTree (v : Version) (t : Tree) : Gen.MerkleTree := ⟨t.levels, v⟩

@[simp] theorem toGenTree_levels (v : Version) (t : Tree) : (toGenTree v t).levels = t.levels := rfl
@[simp] theorem toGenTree_version (v : Version) (t : Tree) : (toGenTree v t).version = v := rfl
theorem toGenTree_mk (v : Version) (ls : List (List Bytes)) : (⟨ls, v⟩ : Gen.MerkleTree) = toGenTree v ⟨ls⟩ := rfl

theorem new_eq (H : Bytes → Bytes) (v : Version) : Gen.MerkleTree.new H v = .ok (toGenTree v Merkle.new) := by
  cases v <;> rfl

theorem node_len_eq (H : Bytes → Bytes) (v : Version) (t : Tree) :
    Gen.MerkleTree.node_len H (toGenTree v t) = .ok (nodeLen v) := by
  cases v <;> rfl

theorem nodeLen_le (v : Version) : nodeLen v ≤ 64 := by cases v <;> simp [nodeLen]

theorem hash_eq (H : Bytes → Bytes) (hH : ∀ x, (H x).length = 64) (v : Version) (t : Tree) (l : List Bytes) :
    Gen.MerkleTree.hash H (toGenTree v t) l = .ok ((H l.flatten).take (nodeLen v)) := by
  unfold Gen.MerkleTree.hash
  dsimp only
  rw [forList_foldl (· ++ ·) (hf := ?hf)]
  case hf => intros; rfl
  simp [node_len_eq, Rs.sliceTo, hH, nodeLen_le, foldl_append_flatten]

theorem hash_leaf_eq (H : Bytes → Bytes) (hH : ∀ x, (H x).length = 64) (v : Version) (t : Tree) (d : Bytes) :
    Gen.MerkleTree.hash_leaf H (toGenTree v t) d = .ok (Merkle.hashLeaf (cfgOf H v) d) := by
  simp [Gen.MerkleTree.hash_leaf, hash_eq H hH, Merkle.hashLeaf, cfgOf, Gen.TREE_LEAF_TWEAK]

theorem hash_nodes_eq (H : Bytes → Bytes) (hH : ∀ x, (H x).length = 64) (v : Version) (t : Tree) (a b : Bytes) :
    Gen.MerkleTree.hash_nodes H (toGenTree v t) a b = .ok (Merkle.hashNodes (cfgOf H v) a b) := by
  simp [Gen.MerkleTree.hash_nodes, hash_eq H hH, Merkle.hashNodes, cfgOf, Gen.TREE_NODE_TWEAK]

theorem finalize_output_sim (H : Bytes → Bytes) (v : Version) (t : Tree) (d : Bytes) :
    Gen.MerkleTree.finalize_output H (toGenTree v t) d ≃ᵣ Merkle.finalize v.isIetf d := by
  cases v
  · exact Res.Sim.refl _
  · simp only [Gen.MerkleTree.finalize_output, toGenTree, Merkle.finalize, Version.isIetf, Rs.slice, slice]
    split <;> simp [Res.Sim]

theorem push_leaf_sim (H : Bytes → Bytes) (hH : ∀ x, (H x).length = 64) (v : Version) (t : Tree) (d : Bytes) :
    Gen.MerkleTree.push_leaf H (toGenTree v t) d ≃ᵣ (Merkle.pushLeaf (cfgOf H v) t d).map (toGenTree v) := by
  unfold Gen.MerkleTree.push_leaf
  simp only [hash_leaf_eq H hH, Res.pure_eq, Res.bind_eq, Res.bind_ok, Merkle.pushLeaf, Merkle.modifyLevel, Rs.idx, Rs.setIdx, toGenTree_levels, toGenTree_version]
  cases h : t.levels[0]? with
  | none => simp [Res.Sim, Res.map]
  | some l =>
    have := (List.getElem?_eq_some_iff.mp h).1
    simp [Res.Sim, Res.map, this, toGenTree]

theorem reset_eq (H : Bytes → Bytes) (v : Version) (t : Tree) :
    Gen.MerkleTree.reset H (toGenTree v t) = .ok (toGenTree v (Merkle.reset t)) := by
  unfold Gen.MerkleTree.reset
  dsimp only
  rw [forList_foldl (fun acc _ => acc ++ [[]]) (hf := ?hf)]
  case hf => intros; rfl
  rw [foldl_snoc_const]
  simp [toGenTree, Merkle.reset]

theorem is_empty_sim (H : Bytes → Bytes) (v : Version) (t : Tree) :
    Gen.MerkleTree.is_empty H (toGenTree v t) ≃ᵣ Merkle.isEmpty t := by
  simp only [Gen.MerkleTree.is_empty, Merkle.isEmpty, toGenTree, Rs.idx, Merkle.idx]
  cases t.levels[0]? <;> simp [Res.Sim]

/-- `get_paths`: same path bytes, same panics, for every tree state and index -/
theorem get_paths_sim (H : Bytes → Bytes) (v : Version) (t : Tree) (i : Nat) :
    Gen.MerkleTree.get_paths H (toGenTree v t) i ≃ᵣ Merkle.getPaths t i := by
  unfold Gen.MerkleTree.get_paths Merkle.getPaths
  simp only [node_len_eq, Res.pure_eq, Res.bind_eq, Res.bind_ok, toGenTree_levels]
  refine Sim.bind_of_map (paths_while t.levels ?s1 ?s2 ?s3 ?s4 _ _ ?hc ?hf (t.levels.length + 1) 0 i _ (by omega)) ?_
  case hc => intros; rfl
  case hf => intros; rfl
  intro a b hab
  simp only [Rs.withCapacity, List.nil_append, Prod.mk.injEq] at hab
  rw [hab.1, hab.2, Rs.assert]
  by_cases h : b.2 ≤ 32
  · have h' : ¬ b.2 > 32 := by omega
    simp [h, h']
  · have h' : b.2 > 32 := by omega
    simp [h, h']

theorem node_len_eq' (H : Bytes → Bytes) (v : Version) (ls : List (List Bytes)) :
    Gen.MerkleTree.node_len H ⟨ls, v⟩ = .ok (nodeLen v) := node_len_eq H v ⟨ls⟩

theorem hash_nodes_eq' (H : Bytes → Bytes) (hH : ∀ x, (H x).length = 64) (v : Version) (ls : List (List Bytes))
    (a b : Bytes) :
    Gen.MerkleTree.hash_nodes H ⟨ls, v⟩ a b = .ok (Merkle.hashNodes (cfgOf H v) a b) := hash_nodes_eq H hH v ⟨ls⟩ a b

theorem sub_succ_one (lv : Nat) (s : String) : Rs.sub (lv + 1) 1 s = .ok lv := by simp [Rs.sub]

/-- the body of the inner `for i in 0..node_count` loop of `compute_root` simulates `parentStep` -/
theorem inner_step_sim (H : Bytes → Bytes) (v : Version) (lv i : Nat)
    (ls : List (List Bytes)) (s5 s6 s7 s8 s9 s10 : String) :
    ((Rs.idx ls lv s5).bind fun below => (Rs.idx below (i * 2) s6).bind fun x =>
      (Rs.idx ls lv s7).bind fun below' => (Rs.idx below' (i * 2 + 1) s8).bind fun y =>
      (Rs.idx ls (lv + 1) s9).bind fun cur =>
      (Rs.setIdx ls (lv + 1) (cur ++ [Merkle.hashNodes (cfgOf H v) x y]) s10).bind fun l' =>
        Res.ok (Rs.Step.next (⟨l', v⟩ : Gen.MerkleTree))) ≃ᵣ
      (parentStep (cfgOf H v) (lv + 1) i ls).map (fun t' => Rs.Step.next (⟨t', v⟩ : Gen.MerkleTree)) := by
  simp only [parentStep, Rs.idx, Merkle.idx, Merkle.modifyLevel, Rs.setIdx, Nat.add_sub_cancel]
  cases h0 : ls[lv]? with
  | none => simp
  | some below =>
    simp only [Res.bind_ok]
    cases h1 : below[i * 2]? with
    | none => simp
    | some x =>
      simp only [Res.bind_ok]
      cases h2 : below[i * 2 + 1]? with
      | none => simp
      | some y =>
        simp only [Res.bind_ok]
        cases h3 : ls[lv + 1]? with
        | none => simp
        | some cur =>
          have := (List.getElem?_eq_some_iff.mp h3).1
          simp [this]

/-- `compute_root`: same root, same resulting tree state (levels after in-place padding and the final pop), same panics -/
theorem compute_root_sim (H : Bytes → Bytes) (hH : ∀ x, (H x).length = 64) (v : Version) (t : Tree) :
    Gen.MerkleTree.compute_root H (toGenTree v t) ≃ᵣ
      (Merkle.computeRoot (cfgOf H v) v.isIetf t).map (fun p => (p.2, toGenTree v p.1)) := by
  unfold Gen.MerkleTree.compute_root Merkle.computeRoot
  simp only [Res.pure_eq, Res.bind_eq, toGenTree_levels]
  cases h0 : t.levels[0]? with
  | none => simp [Rs.idx, Merkle.idx, h0]
  | some l0 =>
    have e0 : ∀ s, Rs.idx t.levels 0 s = .ok l0 := by intro s; simp [Rs.idx, h0]
    have e0' : ∀ s, Merkle.idx t.levels 0 s = .ok l0 := by intro s; simp [Merkle.idx, h0]
    simp only [e0, e0', Res.bind_ok, Rs.assert]
    by_cases he : l0.isEmpty = true
    · simp [he]
    · simp only [he, Bool.not_false, Bool.false_eq_true, if_true, if_false, Res.bind_ok]
      rw [map_bind]
      refine Sim.bind_of_map
        (root_while (cfgOf H v) (fun ls => (⟨ls, v⟩ : Gen.MerkleTree)) _ _ ?hc ?hf l0.length t.levels 0 l0.length) ?_
      case hc => intros; rfl
      case hf =>
        intro ls lv nc
        by_cases h1 : ls.length < lv + 1 + 1 <;> by_cases h2 : nc % 2 = 0 <;>
          simp only [iterM, h1, h2, if_true, if_false, ne_eq, not_true, not_false_eq_true, sub_succ_one, node_len_eq',
            Res.bind_ok]
        all_goals
          first
          | refine iter_tail_sim _ _ _ (inner_loop_sim (cfgOf H v) (fun ls => (⟨ls, v⟩ : Gen.MerkleTree)) (lv + 1) _ ?_ _ _) _ _
          | refine pad_sim _ _ _ _ _ _ _ _ _ _ (fun l' => iter_tail_sim _ _ _ (inner_loop_sim (cfgOf H v) (fun ls => (⟨ls, v⟩ : Gen.MerkleTree)) (lv + 1) _ ?_ _ _) _ _)
        all_goals
          intro i ls''
          simp only [hash_nodes_eq' H hH, Res.bind_ok]
          exact inner_step_sim H v lv i ls'' _ _ _ _ _ _
      intro a b hab
      simp only [Prod.mk.injEq] at hab
      obtain ⟨ha1, ha2⟩ := hab
      simp only [ha1, ha2, Rs.idx, Merkle.idx, Rs.setIdx, Rs.unwrapO]
      cases h1 : b.1[b.2]? with
      | none => simp
      | some top =>
        have := (List.getElem?_eq_some_iff.mp h1).1
        simp only [Res.bind_ok, this, if_true]
        by_cases hl : top.length = 1
        · simp only [hl, decide_true, if_true, ne_eq, not_true, if_false, Res.bind_ok]
          cases top.getLast? with
          | none => simp
          | some r =>
            simp only [Res.bind_ok]
            have hfin := finalize_output_sim H v ⟨b.1.set b.2 top.dropLast⟩ r
            revert hfin
            simp only [toGenTree]
            cases Gen.MerkleTree.finalize_output H ⟨b.1.set b.2 top.dropLast, v⟩ r <;>
              cases Merkle.finalize v.isIetf r <;> simp [Res.Sim, Res.map]
        · simp [hl]

theorem and_one_eq_zero (n : Nat) : (n &&& 1 = 0) ↔ (n % 2 = 0) := by
  rw [Nat.and_one_is_mod]

/-- the body of the verifier loop, as a pure step -/
theorem climb_forList (c : MerkleCfg) (f : Bytes → Nat × Bytes → Res (Rs.Step (Nat × Bytes)))
    (hf : ∀ p i h, f p (i, h) = .ok (.next (i / 2, if i % 2 = 0 then Merkle.hashNodes c h p else Merkle.hashNodes c p h))) :
    ∀ (ps : List Bytes) (i : Nat) (h : Bytes),
      Rs.forList ps (i, h) f = .ok (i / 2 ^ ps.length, Merkle.climbChunks c h i ps) := by
  intro ps
  induction ps with
  | nil => intro i h; simp [Merkle.climbChunks]
  | cons p ps ih =>
    intro i h
    rw [Rs.forList_cons, hf]
    simp only [ih, Merkle.climbChunks, List.length_cons]
    congr 2
    rw [Nat.div_div_eq_div_mul, Nat.pow_succ, Nat.mul_comm]

theorem nodeLen_ne_zero (v : Version) : nodeLen v ≠ 0 := by cases v <;> simp [nodeLen]

/-- `root_from_paths` (the verifier side) -/
theorem root_from_paths_sim (H : Bytes → Bytes) (hH : ∀ x, (H x).length = 64) (v : Version) (t : Tree)
    (i : Nat) (d p : Bytes) :
    Gen.MerkleTree.root_from_paths H (toGenTree v t) i d p ≃ᵣ Merkle.rootFromPaths (cfgOf H v) v.isIetf i d p := by
  unfold Gen.MerkleTree.root_from_paths Merkle.rootFromPaths
  simp only [hash_leaf_eq H hH, node_len_eq, Res.pure_eq, Res.bind_eq, Res.bind_ok, Rs.rem, nodeLen_ne_zero, if_false]
  have hN : (cfgOf H v).N = nodeLen v := rfl
  simp only [hN, nodeLen_ne_zero, if_false]
  by_cases hm : p.length % nodeLen v = 0
  · simp only [hm, Rs.assert, decide_true, if_true, Res.bind_ok, ne_eq, not_true, if_false]
    rw [climb_forList (cfgOf H v)]
    · simp only [Res.bind_ok]
      exact finalize_output_sim H v t _
    · intro p i h
      have hs : i >>> 1 = i / 2 := by simp [Nat.shiftRight_eq_div_pow]
      simp only [and_one_eq_zero, hs, Rs.sliceTo, hH, nodeLen_le, if_true, Res.bind_ok]
      split <;> simp [Merkle.hashNodes, cfgOf, Gen.TREE_NODE_TWEAK]
  · simp [hm, Rs.assert, Res.Sim]

end Bridge
end Rough

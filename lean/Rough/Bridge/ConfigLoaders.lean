import Rough.Bridge.Basic
import Rough.Generated.Src.EnvConfig
import Rough.Generated.Src.FileConfig
import Rough.Model.Config
/-
  Bridge theorems for the two configuration loaders, src/config/environment.rs (`EnvironmentConfig::new`) and
  src/config/file.rs (`FileConfig::new`), generated from the Rust source, against the model's `Config.envSet` /
  `Config.fileSet` / `Config.loadFile` (about which C16's theorems — effective = written, out-of-range refused, sources
  agree, unknown / missing refused — are proved).  "Refused" in the model (`none`) is an `Err` OR a panic of the loader
  (`expect`, `unwrap`, `unwrap_or_else(panic!)`), so the comparison is on `Res.toOption`.
  Environment (Rough/Gen/ConfigExt.lean): the process environment is a list of (name, value); a YAML scalar is its source
  text, resolved by the model's `yamlInt` / `yamlStr` / `isFloat`; the number of CPUs is a parameter. The payload of a
  non-Plaintext `KmsProtection` (the key resource name, model field `kms`) is not kept by the generated code.
-/
namespace Rough
namespace Bridge
open Rough.Config

/-- the model configuration a generated `EnvironmentConfig` stands for (`kms` text erased) -/
def cfgOfEnv (g : Gen.EnvironmentConfig) : Cfg :=
  { port := g.port, interface := g.interface, seed := g.seed, batchSize := g.batch_size,
    statusInterval := g.status_interval.secs, kmsPlain := g.kms_protection, kms := "", hcPort := g.health_check_port,
    clientStats := g.client_stats, persistDir := g.persist_dir, faultPct := g.fault_percentage, numWorkers := g.num_workers }

/-- … and a generated `FileConfig` -/
def cfgOfFile (g : Gen.FileConfig) : Cfg :=
  { port := g.port, interface := g.interface, seed := g.seed, batchSize := g.batch_size,
    statusInterval := g.status_interval.secs, kmsPlain := g.kms_protection, kms := "", hcPort := g.health_check_port,
    clientStats := g.client_stats, persistDir := g.persist_dir, faultPct := g.fault_percentage, numWorkers := g.num_workers }

def eraseKms (c : Cfg) : Cfg := { c with kms := "" }

/-- the documented settings in the order `EnvironmentConfig::new` reads them, with their variables -/
def envKeys : List (String × String) :=
  [("port", "ROUGHENOUGH_PORT"), ("interface", "ROUGHENOUGH_INTERFACE"), ("seed", "ROUGHENOUGH_SEED"),
   ("batch_size", "ROUGHENOUGH_BATCH_SIZE"), ("status_interval", "ROUGHENOUGH_STATUS_INTERVAL"),
   ("kms_protection", "ROUGHENOUGH_KMS_PROTECTION"), ("health_check_port", "ROUGHENOUGH_HEALTH_CHECK_PORT"),
   ("client_stats", "ROUGHENOUGH_CLIENT_STATS"), ("fault_percentage", "ROUGHENOUGH_FAULT_PERCENTAGE"),
   ("num_workers", "ROUGHENOUGH_NUM_WORKERS"), ("persistence_directory", "ROUGHENOUGH_PERSISTENCE_DIRECTORY")]

/-- the settings present in a process environment, as (key, value) entries in that order -/
def entriesOfEnv (env : List (String × String)) : List (String × String) :=
  envKeys.filterMap fun kn => (env.find? fun kv => kv.1 == kn.2).map fun kv => (kn.1, kv.2)

/-- the model's environment loader without the harness's un-quoting of values -/
def loadEnvRaw (defaults : Cfg) (entries : List (String × String)) : Option Cfg :=
  entries.foldl (fun acc kv => acc.bind fun c => envSet c kv.1 kv.2) (some defaults)

/-! ### auxiliary definitions and lemmas for the proofs below -/
namespace CfgAux

theorem foldl_bind_none {α β} (f : β → α → Option β) (l : List α) :
    l.foldl (fun acc x => acc.bind fun c => f c x) none = none := by
  induction l with
  | nil => rfl
  | cons x l ih => simpa [List.foldl_cons] using ih

theorem loadEnvRaw_nil (c : Cfg) : loadEnvRaw c [] = some c := rfl

theorem loadEnvRaw_cons (c : Cfg) (e : String × String) (l : List (String × String)) :
    loadEnvRaw c (e :: l) = (envSet c e.1 e.2).bind fun c' => loadEnvRaw c' l := by
  unfold loadEnvRaw
  rw [List.foldl_cons, Option.bind_some]
  cases envSet c e.1 e.2 with
  | none => exact foldl_bind_none _ _
  | some c' => rfl

abbrev EG := Gen.EnvironmentConfig

/-- the generated configuration stands for the model's, `kms` text aside -/
def ERel (g : EG) (c : Cfg) : Prop := cfgOfEnv g = eraseKms c

/-- outcome of the generated code against the model's -/
def EOut (r : Res EG) (o : Option Cfg) : Prop := r.toOption.map cfgOfEnv = o.map eraseKms

def envEntry (env : List (String × String)) (kn : String × String) : Option (String × String) :=
  (env.find? fun kv => kv.1 == kn.2).map fun kv => (kn.1, kv.2)

/-- the rest `K` of the loader reads the variables `keys` -/
def ETail (env : List (String × String)) (keys : List (String × String)) (K : EG → Res EG) : Prop :=
  ∀ g c, ERel g c → EOut (K g) (loadEnvRaw c (keys.filterMap (envEntry env)))

/-- one `match env::var(NAME) { Ok(v) => cfg.f = parse(v).expect(..), Err(_) => () }` -/
theorem env_step {α : Type} {env : List (String × String)} {k n : String} {keys : List (String × String)}
    {K : EG → Res EG} (p : String → Option α) (upd : EG → α → EG) {g : EG} {c : Cfg} {t : Res EG}
    (hgc : ERel g c) (hK : ETail env keys K)
    (hstep : ∀ v, match p v with
      | some x => ∃ c', envSet c k v = some c' ∧ ERel (upd g x) c'
      | none => envSet c k v = none)
    (hok : ∀ kv, env.find? (fun e => e.1 == n) = some kv →
      match p kv.2 with
      | some x => t = K (upd g x)
      | none => t.toOption = none)
    (herr : env.find? (fun e => e.1 == n) = none → t = K g) :
    EOut t (loadEnvRaw c (((k, n) :: keys).filterMap (envEntry env))) := by
  unfold EOut
  rw [List.filterMap_cons]
  simp only [envEntry]
  cases hfind : env.find? (fun e => e.1 == n) with
  | none =>
    rw [herr hfind]
    exact hK g c hgc
  | some kv =>
    simp only [Option.map_some]
    rw [loadEnvRaw_cons]
    have h1 := hstep kv.2
    have h2 := hok kv hfind
    cases hp : p kv.2 with
    | none =>
      rw [hp] at h1 h2
      simp only at h1 h2
      rw [h1, h2]; rfl
    | some x =>
      rw [hp] at h1 h2
      simp only at h1 h2
      obtain ⟨c', hc', hrel⟩ := h1
      rw [hc', h2, Option.bind_some]
      exact hK _ _ hrel

theorem ERel_iff (g : EG) (c : Cfg) : ERel g c ↔
    g.port = c.port ∧ g.interface = c.interface ∧ g.seed = c.seed ∧ g.batch_size = c.batchSize ∧
    g.status_interval.secs = c.statusInterval ∧ g.kms_protection = c.kmsPlain ∧ g.health_check_port = c.hcPort ∧
    g.client_stats = c.clientStats ∧ g.persist_dir = c.persistDir ∧ g.fault_percentage = c.faultPct ∧
    g.num_workers = c.numWorkers := by
  simp only [ERel, cfgOfEnv, eraseKms, Cfg.mk.injEq, true_and]


/-- the relation survives an assignment of the same value to corresponding fields -/
macro "erel_tac" h:ident : tactic => `(tactic| (
  rw [ERel_iff] at $h:ident ⊢
  obtain ⟨h1, h2, h3, h4, h5, h6, h7, h8, h9, h10, h11⟩ := $h:ident
  refine ⟨?_, ?_, ?_, ?_, ?_, ?_, ?_, ?_, ?_, ?_, ?_⟩ <;> first | assumption | rfl | simp only [Bool.decide_or]))

/-- discharge one step of `EnvironmentConfig::new` with `env_step` -/
macro "env_tac" j:ident h:ident cst:ident p:term:max upd:term:max : tactic => `(tactic| (
  intro g c hgc
  refine env_step $p $upd hgc $h ?_ ?_ ?_
  · intro v
    simp only [envSet]
    first
    | (refine ⟨_, rfl, ?_⟩; erel_tac hgc)
    | (cases ($p v) <;> first
        | rfl
        | (refine ⟨_, rfl, ?_⟩; erel_tac hgc))
  · intro kv hkv
    simp only [$j:ident, Gen.envVar, $cst:ident, hkv]
    try (cases ($p kv.2) <;>
      simp only [Rs.unwrapR, Rs.ofOpt, Res.bind_eq, Res.bind_ok, Res.bind_panic, Res.toOption, Option.map_some,
        Option.map_none])
  · intro hnone
    simp only [$j:ident, Gen.envVar, $cst:ident, hnone]))

/-! the file loader -/

abbrev FG := Gen.FileConfig
def FRel (g : FG) (c : Cfg) : Prop := cfgOfFile g = eraseKms c

theorem FRel_iff (g : FG) (c : Cfg) : FRel g c ↔
    g.port = c.port ∧ g.interface = c.interface ∧ g.seed = c.seed ∧ g.batch_size = c.batchSize ∧
    g.status_interval.secs = c.statusInterval ∧ g.kms_protection = c.kmsPlain ∧ g.health_check_port = c.hcPort ∧
    g.client_stats = c.clientStats ∧ g.persist_dir = c.persistDir ∧ g.fault_percentage = c.faultPct ∧
    g.num_workers = c.numWorkers := by
  simp only [FRel, cfgOfFile, eraseKms, Cfg.mk.injEq, true_and]

/-- one entry of the file as the loader reads it: the key is the YAML string the key scalar resolves to -/
def fileStepR (c : Cfg) (kv : String × String) : Option Cfg := (yamlStr kv.1).bind fun k => fileSet c k kv.2

/-- one iteration of the generated loop against one step of the model -/
def FStep (r : Res (Rs.Step FG)) (o : Option Cfg) : Prop :=
  match o with
  | some c' => ∃ g', r = .ok (.next g') ∧ FRel g' c'
  | none => ∀ s, r ≠ .ok s

def FOut (r : Res FG) (o : Option Cfg) : Prop := r.toOption.map cfgOfFile = o.map eraseKms


theorem unwrapR_ok {α} (a : α) (site : String) : Rs.unwrapR (Res.ok a) site = .ok a := rfl
theorem unwrapO_some {α} (a : α) (site : String) : Rs.unwrapO (some a) site = .ok a := rfl
theorem unwrapO_none {α} (site : String) : Rs.unwrapO (none : Option α) site = .panic site := rfl
theorem unwrapR_err {α} (site : String) : Rs.unwrapR (Res.err : Res α) site = .panic site := rfl
theorem bind_ok_right {α} (r : Res α) : (r.bind fun a => Res.ok a) = r := by cases r <;> rfl

/-- the model's loop with the keys as the loader reads them -/
def loadFileR (c : Cfg) (doc : List (String × String)) : Option Cfg :=
  doc.foldl (fun acc kv => acc.bind fun c => fileStepR c kv) (some c)

theorem loadFileR_cons (c : Cfg) (kv : String × String) (l : List (String × String)) :
    loadFileR c (kv :: l) = (fileStepR c kv).bind fun c' => loadFileR c' l := by
  unfold loadFileR
  rw [List.foldl_cons, Option.bind_some]
  cases fileStepR c kv with
  | none => exact foldl_bind_none _ _
  | some c' => rfl

/-- the generated loop against the model's, given the correspondence of one iteration -/
theorem file_loop {body : String × String → FG → Res (Rs.Step FG)}
    (hbody : ∀ kv g c, FRel g c → FStep (body kv g) (fileStepR c kv)) :
    ∀ doc g c, FRel g c → FOut (Rs.forList doc g body) (loadFileR c doc) := by
  intro doc
  induction doc with
  | nil =>
    intro g c h
    exact congrArg some h
  | cons kv l ih =>
    intro g c h
    have hb := hbody kv g c h
    rw [Rs.forList_cons, loadFileR_cons]
    cases hs : fileStepR c kv with
    | none =>
      rw [hs] at hb
      simp only [FStep] at hb
      cases hr : body kv g with
      | ok s => exact absurd hr (hb s)
      | err => rfl
      | panic p => rfl
    | some c' =>
      rw [hs] at hb
      obtain ⟨g', hg', hrel⟩ := hb
      rw [hg']
      exact ih g' c' hrel

macro "frel_tac" h:ident : tactic => `(tactic| (
  rw [FRel_iff] at $h:ident ⊢
  obtain ⟨h1, h2, h3, h4, h5, h6, h7, h8, h9, h10, h11⟩ := $h:ident
  refine ⟨?_, ?_, ?_, ?_, ?_, ?_, ?_, ?_, ?_, ?_, ?_⟩ <;> first | assumption | rfl | simp only [Bool.decide_or]))

/-- close one arm of the loop body once the scalars are resolved: both sides stopped, or both assigned the field -/
macro "fstep_close" h:ident : tactic => `(tactic| (
  simp only [FStep, unwrapO_some, unwrapO_none, unwrapR_ok, unwrapR_err, Rs.ofOpt, Res.bind_ok, Res.bind_err,
    Res.bind_panic, Option.map_some, Option.map_none, Option.bind_some, Option.bind_none, Res.pure_eq]
  first
  | (intro s hs; cases hs)
  | (refine ⟨_, rfl, ?_⟩; frel_tac $h)))

macro "fstep_int" h:ident v:ident b:term:max : tactic => `(tactic| (
  simp only [fileSet, Gen.Yaml.asI64]
  cases (yamlInt $v) with
  | none => fstep_close $h
  | some i =>
    simp only [unwrapO_some, Res.bind_ok, Option.bind_some]
    cases (narrow $b i) <;> fstep_close $h))

theorem file_new_general (doc : List (String × String)) (ncpu : Nat) (path : String) :
    FOut (Gen.FileConfig.new [doc] ncpu path) (loadFileR { numWorkers := ncpu } doc) := by
  unfold Gen.FileConfig.new
  simp only [unwrapR_ok, unwrapO_some, Rs.idx, Res.bind_eq, Res.bind_ok, List.length_singleton, ne_eq, not_true_eq_false,
    if_false, List.getElem?_cons_zero, Res.pure_eq, bind_ok_right]
  refine file_loop ?_ doc _ _ ?_
  · intro kv g c hrel
    obtain ⟨k, v⟩ := kv
    simp only [Gen.Yaml.asStr, fileStepR]
    cases hy : yamlStr k with
    | none =>
      simp only [unwrapO_none, Res.bind_panic, Option.bind_none, FStep]
      intro s hs; cases hs
    | some k' =>
      simp only [unwrapO_some, Res.bind_ok, Option.bind_some]
      split
      · fstep_int hrel v 16
      · simp only [fileSet]
        cases (yamlStr v) <;> fstep_close hrel
      · fstep_int hrel v 8
      · simp only [fileSet, Gen.Yaml.isReal, Bool.and_eq_true]
        by_cases hreal : (yamlInt v).isNone = true ∧ isFloat v.toList = true
        · simp only [hreal, and_self, if_true, Res.bind_ok, Option.bind_some]
          cases (hexDecode v) <;> fstep_close hrel
        · simp only [hreal, if_false]
          cases (yamlStr v) with
          | none => fstep_close hrel
          | some s =>
            simp only [unwrapO_some, Res.bind_ok, Option.bind_some]
            cases (hexDecode s) <;> fstep_close hrel
      · fstep_int hrel v 64
      · simp only [fileSet]
        cases (yamlStr v) with
        | none => fstep_close hrel
        | some s =>
          simp only [unwrapO_some, Res.bind_ok, Option.bind_some]
          cases (parseKms s) <;> fstep_close hrel
      · fstep_int hrel v 16
      · simp only [fileSet]
        cases (yamlStr v) <;> fstep_close hrel
      · simp only [fileSet, Option.map_id']
        fstep_close hrel
      · fstep_int hrel v 8
      · fstep_int hrel v 64
      · have hnone : fileSet c k' v = none := by
          unfold fileSet
          split <;> first | rfl | contradiction
        rw [hnone]
        fstep_close hrel
  · rw [FRel_iff]; simp [Gen.DEFAULT_BATCH_SIZE, Gen.DEFAULT_STATUS_INTERVAL]

/-- with plain-word keys the loader's reading of the keys is the model's -/
theorem loadFileR_eq (doc : List (String × String)) (hkeys : ∀ kv ∈ doc, yamlStr kv.1 = some kv.1) (acc : Option Cfg) :
    doc.foldl (fun acc kv => acc.bind fun c => fileStepR c kv) acc =
      doc.foldl (fun acc kv => acc.bind fun c => fileSet c kv.1 kv.2) acc := by
  induction doc generalizing acc with
  | nil => rfl
  | cons kv l ih =>
    rw [List.foldl_cons, List.foldl_cons]
    have h : (acc.bind fun c => fileStepR c kv) = acc.bind fun c => fileSet c kv.1 kv.2 := by
      simp only [fileStepR, hkeys kv List.mem_cons_self, Option.bind_some]
    rw [h]
    exact ih (fun kv' hkv' => hkeys kv' (List.mem_cons_of_mem _ hkv')) _

/-- an entry that is refused whatever the configuration so far makes the whole load a refusal -/
theorem loadFileR_refused (doc : List (String × String)) (kv : String × String) (hmem : kv ∈ doc)
    (hnone : ∀ c, fileStepR c kv = none) (acc : Option Cfg) :
    doc.foldl (fun acc kv => acc.bind fun c => fileStepR c kv) acc = none := by
  induction doc generalizing acc with
  | nil => cases hmem
  | cons e l ih =>
    rw [List.foldl_cons]
    rcases List.mem_cons.mp hmem with rfl | hl
    · have h : (acc.bind fun c => fileStepR c kv) = none := by
        cases acc with
        | none => rfl
        | some c => exact hnone c
      rw [h]
      exact foldl_bind_none _ _
    · exact ih hl _

theorem toOption_none_of_FOut {r : Res FG} (h : FOut r none) : r.toOption = none := by
  unfold FOut at h
  cases hr : r.toOption with
  | none => rfl
  | some g => rw [hr] at h; cases h

end CfgAux
open CfgAux

/-- `EnvironmentConfig::new`: for EVERY process environment, start-up is refused (Err or panic) exactly when the model
    refuses the settings present, and otherwise every field is the model's -/
theorem env_config_new_eq (env : List (String × String)) (ncpu : Nat) :
    (Gen.EnvironmentConfig.new env ncpu).toOption.map cfgOfEnv =
      (loadEnvRaw { numWorkers := ncpu } (entriesOfEnv env)).map eraseKms := by
  unfold Gen.EnvironmentConfig.new
  extract_lets j12 j11 j10 j9 j8 j7 j6 j5 j4 j3 j2
  have h12 : ETail env [] (j12 ()) := by
    intro g c hgc
    simp only [EOut, j12, Res.pure_eq, Res.toOption, List.filterMap_nil, loadEnvRaw_nil, Option.map_some]
    exact congrArg some hgc
  have h11 : ETail env (envKeys.drop 10) (j11 ()) := by
    env_tac j11 h12 Gen.ROUGHENOUGH_PERSIST_DIRECTORY (fun v => some v) (fun g x => { g with persist_dir := some x })
  have h10 : ETail env (envKeys.drop 9) (j10 ()) := by
    env_tac j10 h11 Gen.ROUGHENOUGH_NUM_WORKERS (parseUnsigned 64) (fun g x => { g with num_workers := x })
  have h9 : ETail env (envKeys.drop 8) (j9 ()) := by
    env_tac j9 h10 Gen.ROUGHENOUGH_FAULT_PERCENTAGE (parseUnsigned 8) (fun g x => { g with fault_percentage := x })
  have h8 : ETail env (envKeys.drop 7) (j8 ()) := by
    env_tac j8 h9 Gen.ROUGHENOUGH_CLIENT_STATS (fun v => some v)
      (fun g x => { g with client_stats := decide (lower x = "yes") || decide (lower x = "on") })
  have h7 : ETail env (envKeys.drop 6) (j7 ()) := by
    env_tac j7 h8 Gen.ROUGHENOUGH_HEALTH_CHECK_PORT (parseUnsigned 16) (fun g x => { g with health_check_port := some x })
  have h6 : ETail env (envKeys.drop 5) (j6 ()) := by
    env_tac j6 h7 Gen.ROUGHENOUGH_KMS_PROTECTION parseKms (fun g x => { g with kms_protection := x.1 })
  have h5 : ETail env (envKeys.drop 4) (j5 ()) := by
    env_tac j5 h6 Gen.ROUGHENOUGH_STATUS_INTERVAL (parseUnsigned 16) (fun g x => { g with status_interval := ⟨x, 0⟩ })
  have h4 : ETail env (envKeys.drop 3) (j4 ()) := by
    env_tac j4 h5 Gen.ROUGHENOUGH_BATCH_SIZE (parseUnsigned 8) (fun g x => { g with batch_size := x })
  have h3 : ETail env (envKeys.drop 2) (j3 ()) := by
    env_tac j3 h4 Gen.ROUGHENOUGH_SEED hexDecode (fun g x => { g with seed := x })
  have h2 : ETail env (envKeys.drop 1) (j2 ()) := by
    env_tac j2 h3 Gen.ROUGHENOUGH_INTERFACE (fun v => some v) (fun g x => { g with interface := x })
  simp only [Rs.unwrapR, Res.bind_eq, Res.bind_ok]
  have hgc : ERel
      { port := 0, interface := "", seed := [], batch_size := Gen.DEFAULT_BATCH_SIZE,
        status_interval := Gen.DEFAULT_STATUS_INTERVAL, kms_protection := true, health_check_port := none,
        client_stats := false, fault_percentage := 0, num_workers := ncpu, persist_dir := none }
      { numWorkers := ncpu } := by
    rw [ERel_iff]; simp [Gen.DEFAULT_BATCH_SIZE, Gen.DEFAULT_STATUS_INTERVAL]
  refine env_step (k := "port") (n := "ROUGHENOUGH_PORT") (keys := envKeys.drop 1) (parseUnsigned 16)
    (fun g x => { g with port := x }) hgc h2 ?_ ?_ ?_
  · intro v
    simp only [envSet]
    cases (parseUnsigned 16 v) <;> first
      | rfl
      | (refine ⟨_, rfl, ?_⟩; erel_tac hgc)
  · intro kv hkv
    simp only [Gen.envVar, Gen.ROUGHENOUGH_PORT, hkv]
    cases (parseUnsigned 16 kv.2) <;> simp only [Rs.ofOpt, Res.bind_ok, Res.bind_panic, Res.toOption]
  · intro hnone
    simp only [Gen.envVar, Gen.ROUGHENOUGH_PORT, hnone]

/-- `loadEnvRaw` is `loadEnv` on values the harness's un-quoting leaves alone -/
theorem loadEnv_raw (defaults : Cfg) (entries : List (String × String)) (h : ∀ kv ∈ entries, unquote kv.2 = kv.2) :
    loadEnv defaults entries = loadEnvRaw defaults entries := by
  unfold loadEnv loadEnvRaw
  generalize some defaults = acc
  induction entries generalizing acc with
  | nil => rfl
  | cons kv l ih =>
    rw [List.foldl_cons, List.foldl_cons, h kv List.mem_cons_self]
    exact ih (fun kv' hkv' => h kv' (List.mem_cons_of_mem _ hkv')) _

/-- `FileConfig::new` on a file that is one YAML mapping with at least one entry whose keys are plain words: refused
    exactly when the model's `loadFile` refuses, and otherwise every field is the model's — for EVERY list of entries,
    in any order, with repeated or unknown keys -/
theorem file_config_new_eq (doc : List (String × String)) (ncpu : Nat) (path : String) (hne : doc ≠ [])
    (hkeys : ∀ kv ∈ doc, yamlStr kv.1 = some kv.1) :
    (Gen.FileConfig.new [doc] ncpu path).toOption.map cfgOfFile = (loadFile { numWorkers := ncpu } doc).map eraseKms := by
  have h := file_new_general doc ncpu path
  unfold FOut loadFileR at h
  rw [loadFileR_eq doc hkeys] at h
  rw [h]
  unfold loadFile
  cases doc with
  | nil => exact absurd rfl hne
  | cons kv l => rfl

/-- the loader's reading of the keys, in general: folding the loader's step over the entries is folding the model's
    step over the entries with every key replaced by the YAML string it resolves to -/
theorem loadFileR_eq_resolved (doc : List (String × String)) (rk : String → String)
    (hkeys : ∀ kv ∈ doc, yamlStr kv.1 = some (rk kv.1)) (acc : Option Cfg) :
    doc.foldl (fun acc kv => acc.bind fun c => fileStepR c kv) acc =
      (doc.map fun kv => (rk kv.1, kv.2)).foldl (fun acc kv => acc.bind fun c => fileSet c kv.1 kv.2) acc := by
  induction doc generalizing acc with
  | nil => rfl
  | cons kv l ih =>
    rw [List.map_cons, List.foldl_cons, List.foldl_cons]
    have h : (acc.bind fun c => fileStepR c kv) = acc.bind fun c => fileSet c (rk kv.1) kv.2 := by
      simp only [fileStepR, hkeys kv List.mem_cons_self, Option.bind_some]
    rw [h]
    exact ih (fun kv' hkv' => hkeys kv' (List.mem_cons_of_mem _ hkv')) _

/-- `file_config_new_eq` WITHOUT the plain-word hypothesis on the keys: whenever every key scalar resolves to a YAML
    string (quoted or plain; `rk` names what it resolves to), `FileConfig::new` is the model's `loadFile` on the entries
    with the resolved keys — so `"port": 1` behaves exactly as `port: 1` -/
theorem file_config_new_eq_resolved (doc : List (String × String)) (ncpu : Nat) (path : String) (hne : doc ≠ [])
    (rk : String → String) (hkeys : ∀ kv ∈ doc, yamlStr kv.1 = some (rk kv.1)) :
    (Gen.FileConfig.new [doc] ncpu path).toOption.map cfgOfFile =
      (loadFile { numWorkers := ncpu } (doc.map fun kv => (rk kv.1, kv.2))).map eraseKms := by
  have h := file_new_general doc ncpu path
  unfold FOut loadFileR at h
  rw [loadFileR_eq_resolved doc rk hkeys] at h
  rw [h]
  unfold loadFile
  cases doc with
  | nil => exact absurd rfl hne
  | cons kv l => rfl

/-- non-vacuity of `file_config_new_eq_resolved`: a quoted key -/
example : (Gen.FileConfig.new [[("\"port\"", "1")]] 1 "").toOption.map cfgOfFile =
    (loadFile { numWorkers := 1 } [("port", "1")]).map eraseKms :=
  file_config_new_eq_resolved [("\"port\"", "1")] 1 "" (by simp) (fun _ => "port")
    (by intro kv hkv; rw [List.mem_singleton.mp hkv]; decide)

/-- a file with no document, or with more than one, is refused with an error -/
theorem file_config_new_docs (docs : List (List (String × String))) (ncpu : Nat) (path : String) (h : docs.length ≠ 1) :
    Gen.FileConfig.new docs ncpu path = .err := by
  unfold Gen.FileConfig.new
  simp only [Rs.unwrapR, Res.bind_eq, Res.bind_ok, h, ne_eq, not_false_eq_true, if_true, Res.bind_err]

/-- COUNTEREXAMPLE to the statement of `file_config_unknown_key` as first written (without a hypothesis on how the
    key scalars resolve): the loader matches on the YAML string the key scalar RESOLVES to (`key.as_str()`), so the
    quoted key text `"port"` (with its quotes: not one of the eleven documented words) is read as `port` and accepted. -/
theorem file_config_unknown_key_counterexample :
    ∃ (doc : List (String × String)) (ncpu : Nat) (path k v : String),
      k ∉ ["port", "interface", "batch_size", "seed", "status_interval", "kms_protection", "health_check_port",
           "client_stats", "persistence_directory", "fault_percentage", "num_workers"] ∧
      (k, v) ∈ doc ∧ (Gen.FileConfig.new [doc] ncpu path).toOption ≠ none := by
  refine ⟨[("\"port\"", "1")], 1, "", "\"port\"", "1", by decide, List.mem_singleton.mpr rfl, ?_⟩
  have h := file_new_general [("\"port\"", "1")] 1 ""
  have hm : loadFileR { numWorkers := 1 } [("\"port\"", "1")] = some { port := 1, numWorkers := 1 } := by decide
  unfold FOut at h
  rw [hm] at h
  intro hnone
  rw [hnone] at h
  cases h

/-- the general form: a key scalar that does not resolve to a documented setting (it is no YAML string at all, or a
    string that is none of the eleven words) makes the result a refusal whatever else the file says — no assumption on
    the other entries -/
theorem file_config_unknown_key_resolved (doc : List (String × String)) (ncpu : Nat) (path k v : String)
    (hk : ∀ k', yamlStr k = some k' →
      k' ∉ ["port", "interface", "batch_size", "seed", "status_interval", "kms_protection", "health_check_port",
            "client_stats", "persistence_directory", "fault_percentage", "num_workers"])
    (hmem : (k, v) ∈ doc) :
    (Gen.FileConfig.new [doc] ncpu path).toOption = none := by
  have h := file_new_general doc ncpu path
  have hstep : ∀ c, fileStepR c (k, v) = none := by
    intro c
    unfold fileStepR
    cases hy : yamlStr k with
    | none => rfl
    | some k' =>
      have hk' := hk k' hy
      simp only [Option.bind_some]
      unfold fileSet
      split <;> first | rfl | (exfalso; apply hk'; simp)
  unfold loadFileR at h
  rw [loadFileR_refused doc (k, v) hmem hstep] at h
  exact toOption_none_of_FOut h

/-- a key that is not a documented setting makes the loader return an error whatever else the file says before it is
    reached … and the whole result is a refusal.
    CORRECTED statement: `hkeys` (the key scalars are plain words, resolving to themselves — the hypothesis of
    `file_config_new_eq`) is added; without it the claim is false, see `file_config_unknown_key_counterexample`. -/
theorem file_config_unknown_key (doc : List (String × String)) (ncpu : Nat) (path k v : String)
    (hk : k ∉ ["port", "interface", "batch_size", "seed", "status_interval", "kms_protection", "health_check_port",
               "client_stats", "persistence_directory", "fault_percentage", "num_workers"])
    (hmem : (k, v) ∈ doc) (hkeys : ∀ kv ∈ doc, yamlStr kv.1 = some kv.1) :
    (Gen.FileConfig.new [doc] ncpu path).toOption = none := by
  refine file_config_unknown_key_resolved doc ncpu path k v ?_ hmem
  intro k' hy
  have := hkeys (k, v) hmem
  simp only at this
  rw [this] at hy
  cases hy
  exact hk

end Bridge
end Rough

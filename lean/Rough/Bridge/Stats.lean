import Rough.Bridge.Basic
import Rough.Generated.Src.StatsAgg
import Rough.Generated.Src.StatsPer
import Rough.Model.Stats
/-
  Bridge theorems for src/stats/{mod,aggregated,per_client}.rs: the two statistics recorders generated from the Rust
  source record every event exactly as the models `Stats.Aggregated` / `Stats.PerClient` do (about which C17's
  conservation, bound, per-client = aggregated and merge theorems are proved), and their getters return the model's
  totals — for every recorder state and event.  (Counters are `Nat`: the u32 / u64 overflow of a counter is not modelled.)
-/
namespace Rough
namespace Bridge
open Rough.Stats

/-- the generated `ClientStats` of an address and its model counters (`first_seen` is not modelled: 0) -/
def toGenClient (a : Addr) (c : Counters) : Gen.ClientStats :=
  { rfc_requests := c.rfcRequests, classic_requests := c.classicRequests, invalid_requests := c.invalidRequests,
    health_checks := c.healthChecks, rfc_responses_sent := c.rfcResponses, classic_responses_sent := c.classicResponses,
    bytes_sent := c.bytesSent, failed_send_attempts := c.failedSends, retried_send_attempts := c.retriedSends,
    first_seen := 0, ip_addr := a }

def toGenPer (s : PerClient) : Gen.PerClientStats :=
  ⟨s.clients.map fun p => (p.1, toGenClient p.1 p.2), s.overflows, s.limit⟩

def toGenAgg (s : Aggregated) : Gen.AggregatedStats :=
  { rfc_requests := s.c.rfcRequests, classic_requests := s.c.classicRequests, invalid_requests := s.c.invalidRequests,
    health_checks := s.c.healthChecks, rfc_responses_sent := s.c.rfcResponses, classic_responses_sent := s.c.classicResponses,
    bytes_sent := s.c.bytesSent, send_failed_attempts := s.c.failedSends, send_retry_attempts := s.c.retriedSends }

/-- the trait method the server calls for an event of each kind, on the per-client recorder -/
def genRecordPer (g : Gen.PerClientStats) (e : Event) : Res Gen.PerClientStats :=
  match e.kind with
  | .ietfReq => Gen.PerClientStats.add_ietf_request g e.addr
  | .classicReq => Gen.PerClientStats.add_classic_request g e.addr
  | .invalidReq => Gen.PerClientStats.add_invalid_request g e.addr ()
  | .failedSend => Gen.PerClientStats.add_failed_send_attempt g e.addr
  | .retriedSend => Gen.PerClientStats.add_retried_send_attempt g e.addr
  | .healthCheck => Gen.PerClientStats.add_health_check g e.addr
  | .rfcResp => Gen.PerClientStats.add_rfc_response g e.addr e.bytes
  | .classicResp => Gen.PerClientStats.add_classic_response g e.addr e.bytes

/-- … and on the aggregated recorder -/
def genRecordAgg (g : Gen.AggregatedStats) (e : Event) : Res Gen.AggregatedStats :=
  match e.kind with
  | .ietfReq => Gen.AggregatedStats.add_ietf_request g e.addr
  | .classicReq => Gen.AggregatedStats.add_classic_request g e.addr
  | .invalidReq => Gen.AggregatedStats.add_invalid_request g e.addr ()
  | .failedSend => Gen.AggregatedStats.add_failed_send_attempt g e.addr
  | .retriedSend => Gen.AggregatedStats.add_retried_send_attempt g e.addr
  | .healthCheck => Gen.AggregatedStats.add_health_check g e.addr
  | .rfcResp => Gen.AggregatedStats.add_rfc_response g e.addr e.bytes
  | .classicResp => Gen.AggregatedStats.add_classic_response g e.addr e.bytes

/-- no address is tracked twice (an invariant of the hash map; `PerClient.init` has it and `record` keeps it) -/
def UniqKeys (s : PerClient) : Prop := (s.clients.map (·.1)).Nodup

/-! ### helper lemmas (in `Rough.Bridge.StatsAux`, so that their names cannot clash with other bridge files) -/
namespace StatsAux

/-- the entry of the generated map for a model entry -/
private abbrev gEntry (p : Addr × Counters) : Nat × Gen.ClientStats := (p.1, toGenClient p.1 p.2)

theorem client_new_eq (a : Addr) : Gen.ClientStats.new a = .ok (toGenClient a Counters.zero) := rfl

theorem mapModify_mapModify {κ α} [BEq κ] (m : List (κ × α)) (k : κ) (f g : α → α) :
    Rs.mapModify (Rs.mapModify m k f) k g = Rs.mapModify m k (fun x => g (f x)) := by
  unfold Rs.mapModify
  rw [List.map_map]
  apply List.map_congr_left
  intro e _
  simp only [Function.comp]
  split <;> simp [*]

theorem any_key_map (l : List (Addr × Counters)) (a : Addr) :
    (l.map gEntry).any (fun e => e.1 == a) = decide (a ∈ l.map (·.1)) := by
  induction l with
  | nil => simp
  | cons p rest ih =>
    simp only [List.map_cons, List.any_cons, ih, List.mem_cons]
    by_cases h : p.1 = a
    · simp [h]
    · have h' : ¬ a = p.1 := fun e => h e.symm
      simp [h, h']

theorem upsert_not_mem (l : List (Addr × Counters)) (a : Addr) (f : Counters → Counters)
    (h : a ∉ l.map (·.1)) : PerClient.upsert l a f = l ++ [(a, f Counters.zero)] := by
  induction l with
  | nil => rfl
  | cons p rest ih =>
    obtain ⟨b, c⟩ := p
    simp only [List.map_cons, List.mem_cons, not_or] at h
    unfold PerClient.upsert
    simp [h.1, ih h.2]

theorem modify_not_mem (l : List (Addr × Counters)) (a : Addr) (F : Gen.ClientStats → Gen.ClientStats)
    (h : a ∉ l.map (·.1)) : Rs.mapModify (l.map gEntry) a F = l.map gEntry := by
  induction l with
  | nil => rfl
  | cons p rest ih =>
    simp only [List.map_cons, List.mem_cons, not_or] at h
    have ih' := ih h.2
    unfold Rs.mapModify at ih' ⊢
    have hne : ¬ p.1 = a := fun e => h.1 e.symm
    simp only [List.map_cons, ih']
    simp [hne]

theorem modify_mem (l : List (Addr × Counters)) (a : Addr) (f : Counters → Counters)
    (F : Gen.ClientStats → Gen.ClientStats) (hF : ∀ c, F (toGenClient a c) = toGenClient a (f c))
    (hn : (l.map (·.1)).Nodup) (h : a ∈ l.map (·.1)) :
    Rs.mapModify (l.map gEntry) a F = (PerClient.upsert l a f).map gEntry := by
  induction l with
  | nil => simp at h
  | cons p rest ih =>
    obtain ⟨b, c⟩ := p
    simp only [List.map_cons, List.nodup_cons] at hn
    simp only [List.map_cons, List.mem_cons] at h
    unfold PerClient.upsert
    by_cases hab : a = b
    · subst hab
      have hrest := modify_not_mem rest a F hn.1
      unfold Rs.mapModify at hrest ⊢
      simp only [List.map_cons, hrest]
      simp [hF]
    · have hmem : a ∈ rest.map (·.1) := by
        rcases h with h | h
        · exact absurd h hab
        · exact h
      have ih' := ih hn.2 hmem
      have hba : ¬ b = a := fun e => hab e.symm
      unfold Rs.mapModify at ih' ⊢
      simp only [List.map_cons, ih']
      simp [hab, hba]

/-- `entry(addr).or_insert_with(new)` followed by the update through the reference is the model's `upsert` -/
theorem modify_ensure_upsert (l : List (Addr × Counters)) (a : Addr) (f : Counters → Counters)
    (F : Gen.ClientStats → Gen.ClientStats) (hF : ∀ c, F (toGenClient a c) = toGenClient a (f c))
    (hn : (l.map (·.1)).Nodup) :
    Rs.mapModify (Rs.mapEnsure (l.map gEntry) a (toGenClient a Counters.zero)) a F
      = (PerClient.upsert l a f).map gEntry := by
  unfold Rs.mapEnsure
  rw [any_key_map]
  by_cases h : a ∈ l.map (·.1)
  · simp only [h, decide_true, if_true]
    exact modify_mem l a f F hF hn h
  · simp only [h, decide_false]
    rw [upsert_not_mem l a f h]
    have hm := modify_not_mem l a F h
    unfold Rs.mapModify at hm ⊢
    simp only [Bool.false_eq_true, if_false, List.map_append, hm]
    simp [hF]

theorem too_many_eq (s : PerClient) :
    Gen.PerClientStats.too_many_entries (toGenPer s) =
      .ok (decide (s.clients.length ≥ s.limit),
        if s.clients.length ≥ s.limit then toGenPer { s with overflows := s.overflows + 1 } else toGenPer s) := by
  unfold Gen.PerClientStats.too_many_entries
  by_cases h : s.clients.length ≥ s.limit <;> simp [toGenPer, h]

/-- the shape of every generated `add_*`, given what its update closure does to a record -/
theorem record_shape (s : PerClient) (e : Event) (h : UniqKeys s)
    (F : Gen.ClientStats → Gen.ClientStats)
    (hF : ∀ c, F (toGenClient e.addr c) = toGenClient e.addr (c.bump e)) :
    (if s.clients.length ≥ s.limit then toGenPer { s with overflows := s.overflows + 1 }
      else ⟨Rs.mapModify (Rs.mapEnsure (toGenPer s).clients e.addr (toGenClient e.addr Counters.zero)) e.addr F,
        s.overflows, s.limit⟩)
      = toGenPer (s.record e) := by
  unfold PerClient.record
  by_cases hl : s.clients.length ≥ s.limit
  · simp only [hl, if_true]
  · simp only [hl, if_false]
    have := modify_ensure_upsert s.clients e.addr (fun c => c.bump e) F hF h
    simp only [toGenPer] at this ⊢
    rw [this]

end StatsAux
open StatsAux

theorem uniq_init (limit : Nat) : UniqKeys (PerClient.init limit) := by
  simp [UniqKeys, PerClient.init]

namespace StatsAux
theorem upsert_keys (l : List (Addr × Counters)) (a : Addr) (f : Counters → Counters) :
    (PerClient.upsert l a f).map (·.1) =
      if a ∈ l.map (·.1) then l.map (·.1) else l.map (·.1) ++ [a] := by
  induction l with
  | nil => simp [PerClient.upsert]
  | cons p rest ih =>
    obtain ⟨x, c⟩ := p
    unfold PerClient.upsert
    by_cases hax : a = x
    · simp [hax]
    · simp only [hax, if_false, List.map_cons, ih, List.mem_cons, false_or]
      split <;> simp

theorem upsert_keys_nodup (l : List (Addr × Counters)) (a : Addr) (f : Counters → Counters)
    (h : (l.map (·.1)).Nodup) : ((PerClient.upsert l a f).map (·.1)).Nodup := by
  rw [upsert_keys]
  split
  · exact h
  · rename_i hn
    rw [List.nodup_append]
    refine ⟨h, by simp, ?_⟩
    intro x hx y hy
    simp at hy
    subst hy
    intro hxy
    subst hxy
    exact hn hx

end StatsAux

theorem uniq_record (s : PerClient) (e : Event) (h : UniqKeys s) : UniqKeys (s.record e) := by
  unfold UniqKeys PerClient.record at *
  split
  · exact h
  · exact upsert_keys_nodup _ _ _ h

/-- every `add_*` of the per-client recorder is the model's `record` -/
theorem per_client_record_eq (s : PerClient) (e : Event) (h : UniqKeys s) :
    genRecordPer (toGenPer s) e = .ok (toGenPer (s.record e)) := by
  obtain ⟨k, a, b⟩ := e
  cases k
  · simp only [genRecordPer, Gen.PerClientStats.add_ietf_request, too_many_eq, client_new_eq]
    rw [← record_shape s _ h (fun __e => { __e with rfc_requests := __e.rfc_requests + 1 }) (fun c => rfl)]
    by_cases hl : s.clients.length ≥ s.limit <;> simp [hl, toGenPer]
  · simp only [genRecordPer, Gen.PerClientStats.add_classic_request, too_many_eq, client_new_eq]
    rw [← record_shape s _ h (fun __e => { __e with classic_requests := __e.classic_requests + 1 }) (fun c => rfl)]
    by_cases hl : s.clients.length ≥ s.limit <;> simp [hl, toGenPer]
  · simp only [genRecordPer, Gen.PerClientStats.add_invalid_request, too_many_eq, client_new_eq]
    rw [← record_shape s _ h (fun __e => { __e with invalid_requests := __e.invalid_requests + 1 }) (fun c => rfl)]
    by_cases hl : s.clients.length ≥ s.limit <;> simp [hl, toGenPer]
  · simp only [genRecordPer, Gen.PerClientStats.add_failed_send_attempt, too_many_eq, client_new_eq]
    rw [← record_shape s _ h (fun __e => { __e with failed_send_attempts := __e.failed_send_attempts + 1 }) (fun c => rfl)]
    by_cases hl : s.clients.length ≥ s.limit <;> simp [hl, toGenPer]
  · simp only [genRecordPer, Gen.PerClientStats.add_retried_send_attempt, too_many_eq, client_new_eq]
    rw [← record_shape s _ h (fun __e => { __e with retried_send_attempts := __e.retried_send_attempts + 1 }) (fun c => rfl)]
    by_cases hl : s.clients.length ≥ s.limit <;> simp [hl, toGenPer]
  · simp only [genRecordPer, Gen.PerClientStats.add_health_check, too_many_eq, client_new_eq]
    rw [← record_shape s _ h (fun __e => { __e with health_checks := __e.health_checks + 1 }) (fun c => rfl)]
    by_cases hl : s.clients.length ≥ s.limit <;> simp [hl, toGenPer]
  · simp only [genRecordPer, Gen.PerClientStats.add_rfc_response, too_many_eq, client_new_eq, mapModify_mapModify]
    rw [← record_shape s _ h (fun __e => { { __e with rfc_responses_sent := __e.rfc_responses_sent + 1 } with
      bytes_sent := __e.bytes_sent + b }) (fun c => rfl)]
    by_cases hl : s.clients.length ≥ s.limit <;> simp [hl, toGenPer]
  · simp only [genRecordPer, Gen.PerClientStats.add_classic_response, too_many_eq, client_new_eq, mapModify_mapModify]
    rw [← record_shape s _ h (fun __e => { { __e with classic_responses_sent := __e.classic_responses_sent + 1 } with
      bytes_sent := __e.bytes_sent + b }) (fun c => rfl)]
    by_cases hl : s.clients.length ≥ s.limit <;> simp [hl, toGenPer]

theorem per_client_clear_eq (s : PerClient) :
    Gen.PerClientStats.clear (toGenPer s) = .ok (toGenPer s.clear) := by
  simp [Gen.PerClientStats.clear, toGenPer, PerClient.clear]

namespace StatsAux
theorem sum_map_add {α} (l : List α) (f g : α → Nat) :
    (l.map fun x => f x + g x).sum = (l.map f).sum + (l.map g).sum := by
  induction l with
  | nil => rfl
  | cons x l ih => simp only [List.map_cons, List.sum_cons, ih]; omega

end StatsAux

/-- the getters of the per-client recorder are the model's totals -/
theorem per_client_totals_eq (s : PerClient) :
    Gen.PerClientStats.total_valid_requests (toGenPer s) = .ok s.totals.validRequests ∧
    Gen.PerClientStats.total_invalid_requests (toGenPer s) = .ok s.totals.invalidRequests ∧
    Gen.PerClientStats.total_health_checks (toGenPer s) = .ok s.totals.healthChecks ∧
    Gen.PerClientStats.total_failed_send_attempts (toGenPer s) = .ok s.totals.failedSends ∧
    Gen.PerClientStats.total_responses_sent (toGenPer s) = .ok s.totals.responses ∧
    Gen.PerClientStats.total_bytes_sent (toGenPer s) = .ok s.totals.bytesSent ∧
    Gen.PerClientStats.total_unique_clients (toGenPer s) = .ok s.clients.length ∧
    Gen.PerClientStats.num_overflows_fn (toGenPer s) = .ok s.overflows := by
  refine ⟨?_, ?_, ?_, ?_, ?_, ?_, ?_, ?_⟩
  · simp only [Gen.PerClientStats.total_valid_requests, toGenPer, Res.pure_eq, List.map_map, Function.comp_def,
      PerClient.totals, PerClient.total, Counters.get, toGenClient, sum_map_add]
  · simp only [Gen.PerClientStats.total_invalid_requests, toGenPer, Res.pure_eq, List.map_map, Function.comp_def,
      PerClient.totals, PerClient.total, Counters.get, toGenClient]
  · simp only [Gen.PerClientStats.total_health_checks, toGenPer, Res.pure_eq, List.map_map, Function.comp_def,
      PerClient.totals, PerClient.total, Counters.get, toGenClient]
  · simp only [Gen.PerClientStats.total_failed_send_attempts, toGenPer, Res.pure_eq, List.map_map, Function.comp_def,
      PerClient.totals, PerClient.total, Counters.get, toGenClient]
  · simp only [Gen.PerClientStats.total_responses_sent, toGenPer, Res.pure_eq, List.map_map, Function.comp_def,
      PerClient.totals, PerClient.total, Counters.get, toGenClient, sum_map_add]
  · simp only [Gen.PerClientStats.total_bytes_sent, toGenPer, Res.pure_eq, List.map_map, Function.comp_def,
      PerClient.totals, PerClient.totalBytes, toGenClient]
  · simp [Gen.PerClientStats.total_unique_clients, toGenPer]
  · simp [Gen.PerClientStats.num_overflows_fn, toGenPer]

/-- every `add_*` of the aggregated recorder is the model's `record` -/
theorem aggregated_record_eq (s : Aggregated) (e : Event) :
    genRecordAgg (toGenAgg s) e = .ok (toGenAgg (s.record e)) := by
  obtain ⟨k, a, b⟩ := e
  cases k <;> rfl

theorem aggregated_new_eq : Gen.AggregatedStats.new = .ok (toGenAgg Aggregated.init) := rfl

theorem aggregated_clear_eq (s : Aggregated) :
    Gen.AggregatedStats.clear (toGenAgg s) = .ok (toGenAgg s.clear) := rfl

theorem aggregated_totals_eq (s : Aggregated) :
    Gen.AggregatedStats.total_valid_requests (toGenAgg s) = .ok s.totals.validRequests ∧
    Gen.AggregatedStats.total_invalid_requests (toGenAgg s) = .ok s.totals.invalidRequests ∧
    Gen.AggregatedStats.total_health_checks (toGenAgg s) = .ok s.totals.healthChecks ∧
    Gen.AggregatedStats.total_failed_send_attempts (toGenAgg s) = .ok s.totals.failedSends ∧
    Gen.AggregatedStats.total_responses_sent (toGenAgg s) = .ok s.totals.responses ∧
    Gen.AggregatedStats.total_bytes_sent (toGenAgg s) = .ok s.totals.bytesSent :=
  ⟨rfl, rfl, rfl, rfl, rfl, rfl⟩

/-- `ClientStats::merge` on two records of the same address is the model's `Counters.merge` -/
theorem client_stats_merge_eq (a : Addr) (c d : Counters) :
    Gen.ClientStats.merge (toGenClient a c) (toGenClient a d) = .ok (toGenClient a (c.merge d)) := by
  simp [Gen.ClientStats.merge, toGenClient, Counters.merge]

/-- … and leaves the record alone for another address -/
theorem client_stats_merge_other (a b : Addr) (c d : Counters) (h : a ≠ b) :
    Gen.ClientStats.merge (toGenClient a c) (toGenClient b d) = .ok (toGenClient a c) := by
  simp [Gen.ClientStats.merge, toGenClient, h]

end Bridge
end Rough

import Rough.Bridge.KeysLemmas
import Rough.Generated.Src.Grease
import Rough.Model.Server
/-
  Helper lemmas for Rough/Bridge/Grease.lean: the three small generated message functions used only by grease.rs,
  the tape operations on an encoded decision, the `randomly_order_tags` loop and the `corrupt_response_signature`
  rebuild.
-/
namespace Rough
namespace Bridge

/-! ### the generated message functions used by grease.rs -/

theorem tags_fn_eq (m : Gen.RtMessage) : Gen.RtMessage.tags_fn m = .ok m.tags := rfl
theorem values_fn_eq (m : Gen.RtMessage) : Gen.RtMessage.values_fn m = .ok m.values := rfl
theorem new_deliberately_invalid_eq (T : List Tag) (V : List Bytes) :
    Gen.RtMessage.new_deliberately_invalid T V = .ok ⟨T, V⟩ := rfl

theorem toGen_tags (m : Msg) : (toGen m).tags = m.fields.map Prod.fst := rfl
theorem toGen_values (m : Msg) : (toGen m).values = m.fields.map Prod.snd := rfl

/-! ### tape operations -/

theorem sample_coin (b : Bool) (t : Gen.Tape) : Gen.Tape.sample (.coin b :: t) = (b, t) := rfl
theorem choose_pick0 (t : Gen.Tape) :
    Gen.Tape.choose Gen.ALL_PATHOLOGIES (.pick 0 :: t) = (some Gen.Pathology.randomlyOrderTags, t) := rfl
theorem choose_pick1 (t : Gen.Tape) :
    Gen.Tape.choose Gen.ALL_PATHOLOGIES (.pick 1 :: t) = (some Gen.Pathology.corruptResponseSignature, t) := rfl
theorem indexSample_perm (p : List Nat) (t : Gen.Tape) (a b : Nat) :
    Gen.Tape.indexSample (.perm p :: t) a b = (p, t) := rfl

/-- filling a 64-byte zero buffer with 64 drawn bytes gives those bytes -/
theorem fillBytes_rho (rho : Bytes) (h : rho.length = 64) (t : Gen.Tape) :
    Gen.Tape.fillBytes (.bytes rho :: t) (Rs.rep 0 Gen.SIGNATURE_LENGTH) = (rho, t) := by
  simp only [Gen.Tape.fillBytes, Rs.rep, Gen.SIGNATURE_LENGTH, List.length_replicate, h]
  rw [List.take_of_length_le (by omega), List.drop_of_length_le (by simp)]
  simp

/-! ### `randomly_order_tags` -/

/-- the model's loop step -/
abbrev reorderStep (r : Msg) : Res (List (Tag × Bytes)) → Nat → Res (List (Tag × Bytes)) :=
  fun acc i => acc.bind fun l =>
    (Res.unwrap "grease.rs:randomly_order_tags:get(idx).unwrap" r.fields[i]?).bind fun f => .ok (l ++ [f])

theorem reorder_foldl_panic (r : Msg) (perm : List Nat) (s : String) :
    perm.foldl (reorderStep r) (.panic s) = .panic s := by
  induction perm with
  | nil => rfl
  | cons i is ih => simpa [List.foldl_cons, reorderStep] using ih

/-- the generated loop (any body that pushes `fields[idx]` component-wise and panics out of range) against the
    model's fold, from any accumulator -/
theorem reorder_loop (r : Msg) (body : Nat → List Tag × List Bytes → Res (Rs.Step (List Tag × List Bytes)))
    (hsome : ∀ idx f T V, r.fields[idx]? = some f → body idx (T, V) = .ok (.next (T ++ [f.1], V ++ [f.2])))
    (hnone : ∀ idx T V, r.fields[idx]? = none → ∃ s, body idx (T, V) = .panic s)
    (perm : List Nat) : ∀ (acc : List (Tag × Bytes)),
    Rs.forList perm (acc.map Prod.fst, acc.map Prod.snd) body ≃ᵣ
      (perm.foldl (reorderStep r) (.ok acc)).map fun l => (l.map Prod.fst, l.map Prod.snd) := by
  induction perm with
  | nil => intro acc; simp [Res.map, Res.Sim]
  | cons i is ih =>
    intro acc
    rw [Rs.forList_cons, List.foldl_cons]
    cases h : r.fields[i]? with
    | none =>
      obtain ⟨s, hs⟩ := hnone i (acc.map Prod.fst) (acc.map Prod.snd) h
      rw [hs]
      simp only [reorderStep, Res.bind_ok, h, Res.unwrap, Res.bind_panic]
      rw [reorder_foldl_panic]
      simp [Res.map, Res.Sim]
    | some f =>
      rw [hsome i f _ _ h]
      simp only [reorderStep, Res.bind_ok, h, Res.unwrap]
      have := ih (acc ++ [f])
      simpa using this

/-- `randomly_order_tags` on a tape whose next draw is the index vector `perm`: the model's `.reorder perm` -/
theorem randomly_order_tags_sim (en : Bool) (p : Nat) (perm : List Nat) (rest : Gen.Tape) (r : Msg) :
    Gen.Grease.randomly_order_tags ⟨en, p, .perm perm :: rest⟩ (toGen r) ≃ᵣ
      (applyGrease (.reorder perm) r).map (fun m => (toGen m, (⟨en, p, rest⟩ : Gen.Grease))) := by
  unfold Gen.Grease.randomly_order_tags
  simp only [Res.pure_eq, Res.bind_eq, tags_fn_eq, values_fn_eq, num_fields_eq, Res.bind_ok, indexSample_perm,
    Rs.withCapacity, new_deliberately_invalid_eq, applyGrease]
  rw [map_bind']
  refine Sim.bind_map (q := fun l => (l.map Prod.fst, l.map Prod.snd)) ?_ ?_
  · refine reorder_loop r _ ?_ ?_ perm []
    · intro idx f T V h
      simp [toGen_tags, toGen_values, List.getElem?_map, h, Rs.unwrapO]
    · intro idx T V h
      simp [toGen_tags, toGen_values, List.getElem?_map, h, Rs.unwrapO]
  · intro l
    simp [Res.map, Res.Sim, toGen, Msg.tags, Msg.values]

/-! ### `corrupt_response_signature` -/

/-- a message without SIG is returned unchanged and NOTHING is drawn: the injector state is untouched -/
theorem corrupt_nosig_eq (s : Gen.Grease) (r : Msg) (hs : (r.get Tag.SIG).isNone = true) :
    Gen.Grease.corrupt_response_signature s (toGen r) = .ok (toGen r, s) := by
  unfold Gen.Grease.corrupt_response_signature
  simp only [Res.pure_eq, Res.bind_eq, get_field_eq, Res.bind_ok, hs, if_true]

/-- a message with SIG, on a tape whose next draw is 64 bytes `rho`: the model's `.corruptSig rho` -/
theorem corrupt_sig_sim (en : Bool) (p : Nat) (rho : Bytes) (hrho : rho.length = 64) (rest : Gen.Tape) (r : Msg)
    (hs : (r.get Tag.SIG).isNone = false) :
    Gen.Grease.corrupt_response_signature ⟨en, p, .bytes rho :: rest⟩ (toGen r) ≃ᵣ
      (applyGrease (.corruptSig rho) r).map (fun m => (toGen m, (⟨en, p, rest⟩ : Gen.Grease))) := by
  unfold Gen.Grease.corrupt_response_signature
  simp only [Res.pure_eq, Res.bind_eq, get_field_eq, num_fields_eq, Res.bind_ok, fillBytes_rho rho hrho, hs,
    with_capacity_eq', applyGrease, Bool.false_eq_true, if_false]
  rw [add_step_ok ⟨[]⟩ Tag.SIG rho _ (by simp)]
  simp only [Res.bind_ok, List.nil_append]
  cases r.get Tag.PATH with
  | none => simp [Rs.unwrapO, Res.unwrap, Res.map, Res.Sim]
  | some pv =>
    simp only [Rs.unwrapO, Res.unwrap, Res.bind_ok]
    rw [add_step_ok ⟨[(Tag.SIG, rho)]⟩ Tag.PATH pv _ (by simp [Tag.idx])]
    simp only [Res.bind_ok, List.cons_append, List.nil_append]
    cases r.get Tag.SREP with
    | none => simp [Res.map, Res.Sim]
    | some sv =>
      simp only [Res.bind_ok]
      rw [add_step_ok ⟨[(Tag.SIG, rho), (Tag.PATH, pv)]⟩ Tag.SREP sv _ (by simp [Tag.idx])]
      simp only [Res.bind_ok, List.cons_append, List.nil_append]
      cases r.get Tag.CERT with
      | none => simp [Res.map, Res.Sim]
      | some cv =>
        simp only [Res.bind_ok]
        rw [add_step_ok ⟨[(Tag.SIG, rho), (Tag.PATH, pv), (Tag.SREP, sv)]⟩ Tag.CERT cv _ (by simp [Tag.idx])]
        simp only [Res.bind_ok, List.cons_append, List.nil_append]
        cases r.get Tag.INDX with
        | none => simp [Res.map, Res.Sim]
        | some iv =>
          simp only [Res.bind_ok]
          rw [add_step_ok ⟨[(Tag.SIG, rho), (Tag.PATH, pv), (Tag.SREP, sv), (Tag.CERT, cv)]⟩ Tag.INDX iv _
            (by simp [Tag.idx])]
          rw [Lemmas.Keys.buildMsg_sorted _ _ (by tags_sorted)]
          simp [Res.map, Res.Sim]

/-! ### `add_errors` -/

/-- the tape left behind by `add_errors` on `(encDecision g).tail ++ rest`: `rest`, EXCEPT that
    `corrupt_response_signature` returns a message without SIG before its `fill_bytes`, so that draw is not made -/
def tapeAfter (g : Grease) (r : Msg) (rest : Gen.Tape) : Gen.Tape :=
  match g with
  | .corruptSig rho => if (r.get Tag.SIG).isNone then .bytes rho :: rest else rest
  | _ => rest

theorem tapeAfter_of_sig (g : Grease) (r : Msg) (rest : Gen.Tape)
    (h : ∀ rho, g = Grease.corruptSig rho → (r.get Tag.SIG).isSome) : tapeAfter g r rest = rest := by
  cases g with
  | none => rfl
  | reorder perm => rfl
  | corruptSig rho =>
    have := h rho rfl
    cases hg : r.get Tag.SIG with
    | none => rw [hg] at this; cases this
    | some v => simp [tapeAfter, hg]

theorem add_errors_reorder (en : Bool) (p : Nat) (perm : List Nat) (rest : Gen.Tape) (m : Gen.RtMessage) :
    Gen.Grease.add_errors ⟨en, p, .pick 0 :: .perm perm :: rest⟩ m =
      (Gen.Grease.randomly_order_tags ⟨en, p, .perm perm :: rest⟩ m).bind fun t => .ok (t.1, t.2) := by
  unfold Gen.Grease.add_errors
  simp only [Res.pure_eq, Res.bind_eq, choose_pick0]

theorem add_errors_corrupt (en : Bool) (p : Nat) (rho : Bytes) (rest : Gen.Tape) (m : Gen.RtMessage) :
    Gen.Grease.add_errors ⟨en, p, .pick 1 :: .bytes rho :: rest⟩ m =
      (Gen.Grease.corrupt_response_signature ⟨en, p, .bytes rho :: rest⟩ m).bind fun t => .ok (t.1, t.2) := by
  unfold Gen.Grease.add_errors
  simp only [Res.pure_eq, Res.bind_eq, choose_pick1]

end Bridge
end Rough

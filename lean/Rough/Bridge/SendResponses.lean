import Rough.Bridge.Keys
import Rough.Model.SendFail
import Rough.Bridge.SendResponsesLemmas
/-
  Bridge theorem for `Responder::send_responses` (src/responder.rs): the batch loop generated from the Rust source —
  compute_root, make_srep, then per queued request: get_paths, make_response, fault injection, encode / encode_framed,
  `send_to` (which may fail), the `debug!` arguments (evaluated iff the level is enabled), statistics — equals the
  model `Responder.sendResponsesF` that C09 (`C09_pass`), C17 (`C17_send_failure_refines`, `C17_send_events_match_wire`),
  C02 and C08 are proved about: same datagrams to the same destinations in the same order, same statistics events,
  same responder state afterwards, same panics — for every responder state, clock reading, list of fault-injection
  decisions, pattern of failing sends and log level.
-/
namespace Rough
namespace Bridge
open Rough.Stats

/-- what is observable of the generated call's result -/
def obsGen (x : Gen.Responder × Gen.Sock × List Event) :
    Version × Gen.OnlineKey × Bytes × List (Bytes × Nat) × Gen.MerkleTree × List Grease × List (Option Sent) × Nat ×
      List (Bytes × Addr) × List Event :=
  (x.1.version, x.1.online_key, x.1.cert_bytes, x.1.requests, x.1.merkle, x.1.grease.pending, x.2.1.out, x.2.1.n, x.2.1.inq, x.2.2)

/-- the same observables computed from the model's result (`sock` is the socket before the call) -/
def obsModel (sock : Gen.Sock) (n : Nat) (gs : List Grease) (ev0 : List Event) (y : Responder × List (Option Sent) × List Event) :
    Version × Gen.OnlineKey × Bytes × List (Bytes × Nat) × Gen.MerkleTree × List Grease × List (Option Sent) × Nat ×
      List (Bytes × Addr) × List Event :=
  (y.1.ver, ⟨y.1.onl, Version.supportedWire⟩, y.1.cert, y.1.requests, toGenTree y.1.ver y.1.tree, gs.drop n, sock.out ++ y.2.1,
   sock.n + n, sock.inq, ev0 ++ y.2.2)

/-- exact form of `send_responses_sim`: the whole state after the call (responder with its fault-injection queue,
    socket, statistics) -/
theorem send_responses_exact (E : Env) (hH : ∀ x, (E.H x).length = 64) (r : Responder) (gs : List Grease) (cur : Grease)
    (sock : Gen.Sock) (LOG : Nat) (ev0 : List Event) :
    Gen.Responder.send_responses E.S E.H LOG (toGenResponder r ⟨gs, cur⟩) sock ev0
      ≃ᵣ (Responder.sendResponsesF (fun a k => sock.ok a (sock.n + k)) E r (decide (LOG ≥ 4))
            ((sock.clock sock.n).secs, (sock.clock sock.n).nanos) gs).map
          (fun y => (toGenResponder y.1 ⟨gs.drop r.requests.length, curAfter gs cur r.requests.length⟩,
            ({ sock with n := sock.n + r.requests.length, out := sock.out ++ y.2.1 } : Gen.Sock), ev0 ++ y.2.2)) := by
  unfold Gen.Responder.send_responses Responder.sendResponsesF
  simp only [Res.pure_eq, Res.bind_eq, responder_is_empty_eq', bind_ok_s]
  cases hemp : r.requests.isEmpty with
  | true =>
    have hnil : r.requests = [] := List.isEmpty_iff.mp hemp
    simp [hnil, Res.map, Res.Sim, curAfter]
  | false =>
    simp only [Bool.false_eq_true, if_false, map_bind', mcfg_eq E hH]
    refine Sim.bind_map (q := fun p => (p.2, toGenTree r.ver p.1)) (compute_root_sim E.H hH r.ver r.tree) fun a => ?_
    refine Sim.bind_map (q := fun p => (toGen p.1, ({ signer := p.2, vers_wire_bytes := Version.supportedWire } : Gen.OnlineKey)))
      (make_srep_sim E.S ⟨r.onl, Version.supportedWire⟩ rfl r.ver (Gen.Sock.now sock) a.2) fun b => ?_
    refine loop_sim' sock { r with tree := a.1, onl := b.2 } (decide (LOG ≥ 4)) b.1 _ ?hbody r.requests gs cur ev0 _ rfl _
      (fun _ => rfl) _ (fun _ => rfl)
    intro idx nonce src gs cur out stats
    obtain ⟨t, root⟩ := a
    obtain ⟨srep, onl'⟩ := b
    dsimp only [toGenResponder]
    simp only [Responder.respondOneF, Responder.respondOne, map_bind', bind_assoc']
    refine iter_head_sim E.S E.H _ r.ver t srep r.cert idx nonce gs cur _ _ ?hK
    intro m
    obtain ⟨ver, onl, cert, reqs, tree⟩ := r
    cases ver <;>
      simp only [encode_eq, encode_framed_eq, unwrapR_ok, bind_ok_s, Gen.Sock.sendTo, wireOf, draw_snd] <;>
      cases hok : sock.ok src (sock.n + idx) <;>
      by_cases hL : LOG ≥ 4 <;>
      by_cases hs : 4 ≤ nonce.length <;>
      simp [hL, hs, Rs.slice, slice, stepState, toGenResponder, Res.Sim, Res.map, Nat.add_assoc]

/-- The clock is read from the socket environment (`SystemTime::now()` = `sock.clock sock.n`, once, before the first
    send) and the outcome of the k-th send of this call is `sock.ok dst (sock.n + k)`. -/
theorem send_responses_sim (E : Env) (hH : ∀ x, (E.H x).length = 64) (r : Responder) (gs : List Grease) (cur : Grease)
    (sock : Gen.Sock) (LOG : Nat) (ev0 : List Event) :
    (Gen.Responder.send_responses E.S E.H LOG (toGenResponder r ⟨gs, cur⟩) sock ev0).map obsGen
      ≃ᵣ (Responder.sendResponsesF (fun a k => sock.ok a (sock.n + k)) E r (decide (LOG ≥ 4))
            ((sock.clock sock.n).secs, (sock.clock sock.n).nanos) gs).map
            (obsModel sock r.requests.length gs ev0) := by
  have h := Sim.map_congr (send_responses_exact E hH r gs cur sock LOG ev0) obsGen
  refine Res.Sim.trans h (Res.Sim.of_eq ?_)
  rw [map_map]
  cases Responder.sendResponsesF (fun a k => sock.ok a (sock.n + k)) E r (decide (LOG ≥ 4))
      ((sock.clock sock.n).secs, (sock.clock sock.n).nanos) gs <;> rfl

end Bridge
end Rough

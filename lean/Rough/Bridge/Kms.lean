import Rough.Bridge.Basic
import Rough.Generated.Src.Kms
import Rough.Model.Config
/-
  Bridge theorem for `kms::load_seed` (src/kms/mod.rs, the variant compiled without a KMS feature) as regenerated from
  the Rust source: with `kms_protection: plaintext` the long-term seed the server uses IS the configured seed — nothing is
  cached, derived or looked up — and with any other protection the load fails (no KMS support compiled in). The model's
  `Server.new` takes that seed as its parameter; C10 / C12 / C20 are stated for it.
-/
namespace Rough
namespace Bridge

/-- `load_seed`: a function of the configuration alone -/
theorem load_seed_eq (c : Config.Cfg) :
    Gen.load_seed c = if c.kmsPlain then .ok c.seed else .err := by
  unfold Gen.load_seed
  cases h : c.kmsPlain <;> simp [h] <;> rfl

/-- two configurations with the same protection and seed load the same seed, whatever else differs and whatever was
    loaded before (the function has no state) -/
theorem load_seed_depends_on_seed_only (c c' : Config.Cfg) (hk : c.kmsPlain = c'.kmsPlain) (hs : c.seed = c'.seed) :
    Gen.load_seed c = Gen.load_seed c' := by
  rw [load_seed_eq, load_seed_eq, hk, hs]

end Bridge
end Rough

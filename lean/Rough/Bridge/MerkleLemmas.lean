import Rough.Bridge.Basic
import Rough.Model.Merkle
/-
  Helper lemmas for Rough/Bridge/Merkle.lean: loop rules for `Rs.forList` / `Rs.whileFuel` and small facts about
  `Res.map` / `≃ᵣ`.
-/
namespace Rough
namespace Bridge

/-- a `forList` whose body always continues with a pure state update is a `foldl` -/
theorem forList_foldl {α σ : Type} (g : σ → α → σ) (f : α → σ → Res (Rs.Step σ))
    (hf : ∀ x s, f x s = .ok (.next (g s x))) : ∀ (l : List α) (s : σ),
    Rs.forList l s f = .ok (l.foldl g s) := by
  intro l
  induction l with
  | nil => intro s; rfl
  | cons x xs ih => intro s; rw [Rs.forList_cons, hf]; exact ih _

theorem foldl_append_flatten {α : Type} : ∀ (l : List (List α)) (acc : List α),
    l.foldl (· ++ ·) acc = acc ++ l.flatten := by
  intro l
  induction l with
  | nil => intro acc; simp
  | cons x xs ih => intro acc; simp [ih]

theorem foldl_snoc_const {α β : Type} (b : β) : ∀ (l : List α) (acc : List β),
    l.foldl (fun acc _ => acc ++ [b]) acc = acc ++ l.map (fun _ => b) := by
  intro l
  induction l with
  | nil => intro acc; simp
  | cons x xs ih => intro acc; simp [ih]

/-! ### `whileFuel` unfolding -/

theorem whileFuel_zero {σ : Type} (s : σ) (c : σ → Res Bool) (f : σ → Res (Rs.Step σ)) :
    Rs.whileFuel 0 s c f =
      match c s with
      | .ok false => .ok s
      | .ok true => .panic "rs2lean: loop fuel exhausted"
      | .err => .err
      | .panic p => .panic p := rfl

theorem whileFuel_succ {σ : Type} (n : Nat) (s : σ) (c : σ → Res Bool) (f : σ → Res (Rs.Step σ)) :
    Rs.whileFuel (n + 1) s c f =
      match c s with
      | .ok false => .ok s
      | .ok true =>
        (match f s with
         | .ok (.next s') => Rs.whileFuel n s' c f
         | .ok (.brk s') => .ok s'
         | .err => .err
         | .panic p => .panic p)
      | .err => .err
      | .panic p => .panic p := rfl

theorem whileFuel_of_false {σ : Type} (n : Nat) (s : σ) (c : σ → Res Bool) (f : σ → Res (Rs.Step σ))
    (h : c s = .ok false) : Rs.whileFuel n s c f = .ok s := by
  cases n <;> simp [whileFuel_zero, whileFuel_succ, h]

theorem whileFuel_of_panic {σ : Type} (n : Nat) (s : σ) (c : σ → Res Bool) (f : σ → Res (Rs.Step σ)) (p : String)
    (h : c s = .panic p) : Rs.whileFuel n s c f = .panic p := by
  cases n <;> simp [whileFuel_zero, whileFuel_succ, h]

theorem whileFuel_succ_true {σ : Type} (n : Nat) (s : σ) (c : σ → Res Bool) (f : σ → Res (Rs.Step σ))
    (h : c s = .ok true) : Rs.whileFuel (n + 1) s c f =
      match f s with
      | .ok (.next s') => Rs.whileFuel n s' c f
      | .ok (.brk s') => .ok s'
      | .err => .err
      | .panic p => .panic p := by
  rw [whileFuel_succ, h]

/-! ### `Res.map` -/

@[simp] theorem map_ok {α β} (f : α → β) (a : α) : (Res.ok a).map f = .ok (f a) := rfl
@[simp] theorem map_err {α β} (f : α → β) : (Res.err : Res α).map f = .err := rfl
@[simp] theorem map_panic {α β} (f : α → β) (s : String) : (Res.panic s : Res α).map f = .panic s := rfl

theorem map_bind {α β γ} (r : Res α) (f : α → Res β) (g : β → γ) :
    (r.bind f).map g = r.bind fun a => (f a).map g := by
  cases r <;> rfl

@[simp] theorem sim_ok_ok {α} (a b : α) : (Res.ok a ≃ᵣ Res.ok b) ↔ a = b := Iff.rfl
@[simp] theorem sim_panic_panic {α} (a b : String) : ((Res.panic a : Res α) ≃ᵣ Res.panic b) ↔ True := Iff.rfl
@[simp] theorem sim_err_err {α} : ((Res.err : Res α) ≃ᵣ Res.err) ↔ True := Iff.rfl

/-- bind respects `≃ᵣ` when the two computations agree up to projections `p`, `q` and the continuations agree on
    values with equal projections -/
theorem Sim.bind_of_map {α β γ δ : Type} {r : Res α} {s : Res β} {p : α → γ} {q : β → γ}
    (h : r.map p ≃ᵣ s.map q) {f : α → Res δ} {g : β → Res δ} (hf : ∀ a b, p a = q b → f a ≃ᵣ g b) :
    r.bind f ≃ᵣ s.bind g := by
  cases r <;> cases s <;> simp_all [Res.Sim, Res.map, Res.bind]

/-! ### the `get_paths` loop -/

theorem paths_while (levels : List (List Bytes)) (s1 s2 s3 s4 : String)
    (c : Nat × Bytes × Nat → Res Bool) (f : Nat × Bytes × Nat → Res (Rs.Step (Nat × Bytes × Nat)))
    (hc : ∀ i acc lv, c (i, acc, lv) = (Rs.idx levels lv s1).bind fun l => .ok (decide (¬ (l.isEmpty = true))))
    (hf : ∀ i acc lv, f (i, acc, lv) =
      (if i % 2 = 0 then Res.ok (i + 1) else Rs.sub i 1 s2).bind fun sib =>
      (Rs.idx levels lv s3).bind fun l => (Rs.idx l sib s4).bind fun s =>
        .ok (.next (i / 2, acc ++ s, lv + 1))) :
    ∀ (fuel lv i : Nat) (acc : Bytes), levels.length + 1 ≤ lv + fuel →
      (Rs.whileFuel fuel (i, acc, lv) c f).map (fun s => (s.2.1, s.2.2)) ≃ᵣ
        (Merkle.pathsLoop levels fuel lv i).map (fun r => (acc ++ r.1, r.2)) := by
  intro fuel
  induction fuel with
  | zero =>
    intro lv i acc hl
    have hn : levels[lv]? = none := by simp; omega
    rw [whileFuel_of_panic _ _ _ _ s1 (by simp [hc, Rs.idx, hn])]
    simp [Merkle.pathsLoop]
  | succ n ih =>
    intro lv i acc hl
    cases hlv : levels[lv]? with
    | none =>
      rw [whileFuel_of_panic _ _ _ _ s1 (by simp [hc, Rs.idx, hlv])]
      simp [Merkle.pathsLoop, Merkle.idx, hlv]
    | some l =>
      by_cases he : l = []
      · rw [whileFuel_of_false _ _ _ _ (by simp [hc, Rs.idx, hlv, he])]
        simp [Merkle.pathsLoop, Merkle.idx, hlv, he]
      · rw [whileFuel_succ_true _ _ _ _ (by simp [hc, Rs.idx, hlv, he]), hf]
        have he' : ¬ (l.isEmpty = true) := by simpa using he
        simp only [Merkle.pathsLoop, Merkle.idx, hlv, he', Res.bind_ok, Rs.idx, Rs.sub, csub]
        by_cases hi : i % 2 = 0
        · simp only [hi, if_true, Res.bind_ok]
          cases hs : l[i + 1]? with
          | none => simp
          | some sb =>
            simp only [Res.bind_ok]
            have := ih (lv + 1) (i / 2) (acc ++ sb) (by omega)
            revert this
            cases Merkle.pathsLoop levels n (lv + 1) (i / 2) <;>
              cases Rs.whileFuel n (i / 2, acc ++ sb, lv + 1) c f <;> simp [Res.Sim]
        · simp only [hi, if_false]
          by_cases h1 : 1 ≤ i
          · simp only [h1, if_true, Res.bind_ok]
            cases hs : l[i - 1]? with
            | none => simp
            | some sb =>
              simp only [Res.bind_ok]
              have := ih (lv + 1) (i / 2) (acc ++ sb) (by omega)
              revert this
              cases Merkle.pathsLoop levels n (lv + 1) (i / 2) <;>
                cases Rs.whileFuel n (i / 2, acc ++ sb, lv + 1) c f <;> simp [Res.Sim]
          · simp [h1]

/-! ### the `compute_root` loops -/

theorem bind_assoc {α β γ} (r : Res α) (f : α → Res β) (g : β → Res γ) :
    (r.bind f).bind g = r.bind fun a => (f a).bind g := by
  cases r <;> rfl

/-- monadic left fold in `Res` (the shape of a `for` loop without `break`) -/
def foldRes {α τ : Type} (step : α → τ → Res τ) : List α → τ → Res τ
  | [], t => .ok t
  | x :: xs, t => (step x t).bind (foldRes step xs)

/-- a `forList` over states `emb t` whose body simulates `step` simulates the fold of `step` -/
theorem forList_sim_fold {α σ τ : Type} (emb : τ → σ) (f : α → σ → Res (Rs.Step σ)) (step : α → τ → Res τ)
    (h : ∀ x t, f x (emb t) ≃ᵣ (step x t).map (fun t' => Rs.Step.next (emb t'))) :
    ∀ (l : List α) (t : τ), Rs.forList l (emb t) f ≃ᵣ (foldRes step l t).map emb := by
  intro l
  induction l with
  | nil => intro t; simp [foldRes]
  | cons x xs ih =>
    intro t
    rw [Rs.forList_cons, foldRes]
    have hx := h x t
    revert hx
    cases hf : f x (emb t) <;> cases hs : step x t <;> simp [Res.Sim, Res.map]
    intro e
    subst e
    exact ih _

/-- one iteration of the inner loop of `compute_root` (model side) -/
def parentStep (c : MerkleCfg) (level : Nat) (i : Nat) (levels : List (List Bytes)) : Res (List (List Bytes)) :=
  (Merkle.idx levels (level - 1) "merkle.rs:compute_root:levels[level-1]").bind fun below =>
  (Merkle.idx below (i * 2) "merkle.rs:compute_root:levels[level-1][i*2]").bind fun a =>
  (Merkle.idx below (i * 2 + 1) "merkle.rs:compute_root:levels[level-1][i*2+1]").bind fun b =>
  Merkle.modifyLevel levels level (· ++ [Merkle.hashNodes c a b]) "merkle.rs:compute_root:levels[level]"

theorem pushParents_eq_fold (c : MerkleCfg) (level : Nat) : ∀ (k i : Nat) (ls : List (List Bytes)),
    Merkle.pushParents c ls level i k = foldRes (parentStep c level) (List.range' i k) ls := by
  intro k
  induction k with
  | zero => intro i ls; rfl
  | succ k ih =>
    intro i ls
    rw [List.range'_succ, foldRes, Merkle.pushParents, parentStep]
    simp only [bind_assoc, ih]

/-- the inner `for i in 0..node_count` loop against `pushParents` -/
theorem inner_loop_sim {σ : Type} (c : MerkleCfg) (emb : List (List Bytes) → σ) (level : Nat)
    (f : Nat → σ → Res (Rs.Step σ))
    (hf : ∀ i ls, f i (emb ls) ≃ᵣ (parentStep c level i ls).map (fun t' => Rs.Step.next (emb t')))
    (k : Nat) (ls : List (List Bytes)) :
    Rs.forList (List.range k) (emb ls) f ≃ᵣ (Merkle.pushParents c ls level 0 k).map emb := by
  rw [pushParents_eq_fold, List.range_eq_range']
  exact forList_sim_fold emb f _ hf _ _

/-- end of one outer iteration: package the new state -/
theorem iter_tail_sim {σ : Type} (emb : List (List Bytes) → σ) (L : Res σ) (P : Res (List (List Bytes)))
    (h : L ≃ᵣ P.map emb) (lv n : Nat) :
    (L.bind fun s1 => Res.ok (Rs.Step.next (s1, lv + 1, n))) ≃ᵣ
      (P.bind fun ls' => Res.ok (ls', n)).map (fun p => Rs.Step.next (emb p.1, lv + 1, p.2)) := by
  cases L <;> cases P <;> simp_all [Res.Sim, Res.map, Res.bind]

/-- the zero-padding of an odd level: `levels[level-1].push(pad)` on both sides, then simulating continuations -/
theorem pad_sim {β γ : Type} (ls : List (List Bytes)) (lv nc : Nat) (pad : Bytes) (s3 s4 s : String)
    (F : List (List Bytes) → Res β) (G : List (List Bytes) × Nat → Res γ) (φ : γ → β)
    (h : ∀ l', F l' ≃ᵣ (G (l', nc + 1)).map φ) :
    ((Rs.idx ls lv s3).bind fun cur => (Rs.setIdx ls lv (cur ++ [pad]) s4).bind F) ≃ᵣ
      (((Merkle.modifyLevel ls lv (· ++ [pad]) s).bind fun l => Res.ok (l, nc + 1)).bind G).map φ := by
  simp only [Rs.idx, Rs.setIdx, Merkle.modifyLevel]
  cases h0 : ls[lv]? with
  | none => simp
  | some cur =>
    have := (List.getElem?_eq_some_iff.mp h0).1
    simp only [this, if_true, Res.bind_ok]
    exact h _

/-- one iteration of the outer loop of `compute_root` (model side): new levels and node count -/
def iterM (c : MerkleCfg) (ls : List (List Bytes)) (lv nc : Nat) : Res (List (List Bytes) × Nat) :=
  let ls1 := if ls.length < lv + 1 + 1 then ls ++ [[]] else ls
  (if nc % 2 ≠ 0 then
      (Merkle.modifyLevel ls1 lv (· ++ [zeros c.N]) "merkle.rs:compute_root:levels[level-1].push").bind
        fun l => Res.ok (l, nc + 1)
    else Res.ok (ls1, nc)).bind fun p =>
  (Merkle.pushParents c p.1 (lv + 1) 0 (p.2 / 2)).bind fun ls' => Res.ok (ls', p.2 / 2)

theorem rootLoop_succ_of_gt (c : MerkleCfg) (fuel : Nat) (ls : List (List Bytes)) (lv nc : Nat) (h : nc > 1) :
    Merkle.rootLoop c (fuel + 1) ls lv nc =
      (iterM c ls lv nc).bind fun p => Merkle.rootLoop c fuel p.1 (lv + 1) p.2 := by
  rw [Merkle.rootLoop, iterM]
  simp only [h, if_true, bind_assoc, Nat.add_sub_cancel, Res.bind_ok]

/-- the outer `while node_count > 1` loop: a `whileFuel` over states `(emb ls, level, node_count)` whose body
    simulates `iterM` simulates `rootLoop` (same fuel) -/
theorem root_while {σ : Type} (c : MerkleCfg) (emb : List (List Bytes) → σ)
    (cnd : σ × Nat × Nat → Res Bool) (f : σ × Nat × Nat → Res (Rs.Step (σ × Nat × Nat)))
    (hc : ∀ s, cnd s = .ok (decide (s.2.2 > 1)))
    (hf : ∀ ls lv nc, f (emb ls, lv, nc) ≃ᵣ
      (iterM c ls lv nc).map (fun p => Rs.Step.next (emb p.1, lv + 1, p.2))) :
    ∀ (fuel : Nat) (ls : List (List Bytes)) (lv nc : Nat),
      (Rs.whileFuel fuel (emb ls, lv, nc) cnd f).map (fun s => (s.1, s.2.1)) ≃ᵣ
        (Merkle.rootLoop c fuel ls lv nc).map (fun p => (emb p.1, p.2)) := by
  intro fuel
  induction fuel with
  | zero =>
    intro ls lv nc
    rw [whileFuel_zero, hc, Merkle.rootLoop]
    by_cases h : nc > 1 <;> simp [h]
  | succ n ih =>
    intro ls lv nc
    by_cases h : nc > 1
    · rw [whileFuel_succ_true _ _ _ _ (by simp [hc, h]), rootLoop_succ_of_gt _ _ _ _ _ h]
      have hx := hf ls lv nc
      revert hx
      cases hs : iterM c ls lv nc <;> cases hg : f (emb ls, lv, nc) <;> simp [Res.Sim, Res.map]
      intro e
      subst e
      exact ih _ _ _
    · rw [whileFuel_of_false _ _ _ _ (by simp [hc, h]), Merkle.rootLoop]
      simp [h]

end Bridge
end Rough

import Rough.Bridge.Keys
import Rough.Model.Server
/-
  Bridge theorems for the constructors `OnlineKey::new` (src/key/online.rs) and `Responder::new` (src/responder.rs)
  generated from the Rust source, against the key-material part of the model's `Server.new` (about which C10's
  certificate theorems are proved).  Environment: the online seed that `MsgSigner::new` draws from the system random
  number generator is the parameter `onl`; the fault injector's future decisions are the parameter `gq`.
-/
namespace Rough
namespace Bridge

/-- `OnlineKey::new`: a signer over the drawn seed and the supported-versions list -/
theorem online_key_new_eq (onl : Bytes) :
    Gen.OnlineKey.new onl = (Signer.fromSeed onl).map fun s => (⟨s, Version.supportedWire⟩ : Gen.OnlineKey) := by
  simp only [Gen.OnlineKey.new, Res.pure_eq, Res.bind_eq]
  cases Signer.fromSeed onl <;> rfl

/-- `Responder::new`: the online key is created from the drawn seed, the certificate is the long-term key's
    `make_cert` for this version and online key (the SAME long-term signer object is handed back for the next
    responder), the request queue and the Merkle tree start empty — exactly one responder of the model's `Server.new` -/
theorem responder_new_sim (S : SigScheme) (H : Bytes → Bytes) (onl : Bytes) (gq : List Grease) (v : Version)
    (cfg : Config.Cfg) (k : LongTermKey) :
    Gen.Responder.new S H onl gq v cfg (toGenLtk k) ≃ᵣ
      ((Signer.fromSeed onl).bind fun s =>
        (makeCert S k v onl).bind fun p =>
          Res.ok (toGenResponder ⟨v, s, encode p.1, [], Merkle.new⟩ ⟨gq, Grease.none⟩, toGenLtk p.2)) := by
  simp only [Gen.Responder.new, Res.pure_eq, Res.bind_eq, online_key_new_eq]
  unfold Signer.fromSeed
  by_cases h : onl.length = 32
  · rw [if_pos h]
    simp only [Res.map, bind_ok_s]
    refine Sim.bind_map (make_cert_sim S H k v ⟨⟨onl, []⟩, Version.supportedWire⟩) fun p => ?_
    simp only [encode_eq, unwrapR_ok, bind_ok_s, ltk_public_key_eq, Rs.unwrapO, new_eq, Rs.withCapacity]
    exact Res.Sim.refl _
  · rw [if_neg h]
    trivial

/-- `Sim.bind_map` where the continuations need to agree only on the value actually produced -/
theorem Sim.bind_map_of_ok {α β δ : Type} {r : Res α} {s : Res β} {q : β → α} (h : r ≃ᵣ s.map q)
    {f : α → Res δ} {g : β → Res δ} (hf : ∀ b, s = .ok b → f (q b) ≃ᵣ g b) : r.bind f ≃ᵣ s.bind g := by
  cases r <;> cases s <;> simp_all [Res.Sim, Res.map, Res.bind]

/-- bind against a two-step computation that ends in `ok`; the continuations need to agree only on the values
    actually produced -/
theorem Sim.bind2 {α σ π δ : Type} {r : Res α} {x : Res σ} {y : σ → Res π} {A : σ → π → α} {f : α → Res δ}
    {g : σ → π → Res δ} (h : r ≃ᵣ x.bind fun s => (y s).bind fun p => Res.ok (A s p))
    (hf : ∀ s p, x = .ok s → y s = .ok p → f (A s p) ≃ᵣ g s p) :
    r.bind f ≃ᵣ x.bind fun s => (y s).bind fun p => g s p := by
  refine Res.Sim.trans (Res.Sim.bind h fun a => Res.Sim.refl (f a)) ?_
  rw [bind_assoc']
  cases hx : x with
  | ok s =>
    rw [bind_ok_s, bind_ok_s, bind_assoc']
    cases hy : y s with
    | ok p => rw [bind_ok_s, bind_ok_s, bind_ok_s]; exact hf s p hx hy
    | err => trivial
    | panic m => trivial
  | err => trivial
  | panic m => trivial

/-- `LongTermKey::new` keeps the seed, with an empty signer buffer -/
theorem ltk_new_signer (S : SigScheme) (H : Bytes → Bytes) (seed : Bytes) (k : LongTermKey)
    (h : LongTermKey.new S H seed = .ok k) : k.signer = ⟨seed, []⟩ := by
  unfold LongTermKey.new Signer.fromSeed at h
  by_cases hl : seed.length = 32
  · rw [if_pos hl, bind_ok_s] at h
    cases hc : calcSrv H (Signer.publicKey S ⟨seed, []⟩) with
    | ok v => rw [hc, bind_ok_s] at h; cases h; rfl
    | err => rw [hc] at h; cases h
    | panic m => rw [hc] at h; cases h
  · rw [if_neg hl] at h; cases h

/-- `make_cert` keeps the seed and the SRV value of the long-term key and leaves its signer buffer empty -/
theorem makeCert_ltk (S : SigScheme) (k : LongTermKey) (v : Version) (onl : Bytes) (p : Msg × LongTermKey)
    (h : makeCert S k v onl = .ok p) : p.2 = ⟨⟨k.signer.seed, []⟩, k.srv⟩ := by
  unfold makeCert at h
  cases hd : makeDele S onl with
  | ok d =>
    rw [hd, bind_ok_s] at h
    dsimp only at h
    cases hb : buildMsg "longterm.rs:make_cert:add_field.unwrap"
        [(Tag.SIG, (((k.signer.update v.delePrefix).update (encode d)).sign S).1), (Tag.DELE, encode d)] with
    | ok c => rw [hb, bind_ok_s] at h; cases h; rfl
    | err => rw [hb] at h; cases h
    | panic s => rw [hb] at h; cases h
  | err => rw [hd] at h; cases h
  | panic s => rw [hd] at h; cases h

/-- the two responders of a server, created in the order `Server::new` creates them (IETF first, then classic, with the
    same long-term key object) are the model's `Server.new` responders -/
theorem server_responders_sim (E : Env) (seed onlI onlC : Bytes) (b : Nat) (gqI gqC : List Grease) (cfg : Config.Cfg) :
    ((Gen.LongTermKey.new E.S E.H seed).bind fun ltk =>
      (Gen.Responder.new E.S E.H onlI gqI Version.ietf cfg ltk).bind fun r1 =>
        (Gen.Responder.new E.S E.H onlC gqC Version.google cfg r1.2).bind fun r2 =>
          Res.ok (r1.1, r2.1, r2.2))
      ≃ᵣ (Server.new E seed onlI onlC b).map fun s =>
          (toGenResponder s.ietf ⟨gqI, Grease.none⟩, toGenResponder s.classic ⟨gqC, Grease.none⟩,
            (⟨⟨seed, []⟩, s.srv⟩ : Gen.LongTermKey)) := by
  simp only [Server.new, map_bind']
  refine Sim.bind_map_of_ok (ltk_new_sim E.S E.H seed) fun ltk hk => ?_
  refine Sim.bind2 (responder_new_sim E.S E.H onlI gqI Version.ietf cfg ltk) fun sI pI _ hI => ?_
  obtain ⟨certI, ltk1⟩ := pI
  dsimp only
  refine Sim.bind2 (responder_new_sim E.S E.H onlC gqC Version.google cfg ltk1) fun sC pC _ hC => ?_
  obtain ⟨certC, ltk2⟩ := pC
  have e1 := makeCert_ltk _ _ _ _ _ hI
  have e2 := makeCert_ltk _ _ _ _ _ hC
  have e0 := ltk_new_signer _ _ _ _ hk
  dsimp only at e1 e2
  dsimp only [Res.map, bind_ok_s]
  subst e2 e1
  apply Res.Sim.of_eq
  simp only [toGenLtk, e0]

end Bridge
end Rough

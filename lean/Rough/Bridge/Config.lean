import Rough.Bridge.Basic
import Rough.Generated.Src.Config
import Rough.Model.Config
import Rough.Bridge.ConfigLemmas
/-
  Bridge theorems for `is_valid_config` (src/config/mod.rs): the validator generated from the Rust source accepts
  exactly the configurations the model's `Config.isValid` accepts (about which C16's "out-of-range ⇒ refused" and C15's
  "valid ⇒ Server::new preconditions" are proved) — for every configuration record and every file system.
  A refusal is `Ok(false)` or a panic (`dir.metadata().unwrap()` on a path that does not exist): both refuse start-up.
-/
namespace Rough
namespace Bridge

/-- the model's single file-system fact, from the three the Rust code consults -/
def fsOf (fs : Gen.Fs) : Config.FsFacts := ⟨fun d => fs.isDir d && fs.pathExists d && !fs.readonly d⟩

/-- the model validator, on the same Boolean as `is_valid_config_char` -/
theorem isValid_char (fs : Gen.Fs) (c : Config.Cfg) :
    Config.isValid (fsOf fs) c = true ↔ (cfgFlags c && (cfgFsOk fs c && Config.isIpv4 c.interface)) = true := by
  unfold Config.isValid cfgFlags cfgFsOk fsOf
  cases hk : c.kmsPlain <;> cases hcs : c.clientStats <;> cases hpd : c.persistDir <;>
    simp [and_assoc, Nat.one_le_iff_ne_zero]

/-- accepted by the generated validator ⇔ accepted by the model validator -/
theorem is_valid_config_true_iff (fs : Gen.Fs) (c : Config.Cfg) :
    Gen.is_valid_config fs c = .ok true ↔ Config.isValid (fsOf fs) c = true :=
  (is_valid_config_char fs c).1.trans (isValid_char fs c).symm

/-- the validator never returns `Err` (it has no error path) -/
theorem is_valid_config_not_err (fs : Gen.Fs) (c : Config.Cfg) : Gen.is_valid_config fs c ≠ .err :=
  (is_valid_config_char fs c).2

end Bridge
end Rough

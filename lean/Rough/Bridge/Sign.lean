import Rough.Bridge.Basic
import Rough.Generated.Src.Sign
import Rough.Model.Sign
/-
  Bridge theorems for src/sign.rs: the incremental signer and verifier generated from the Rust source (ed25519-dalek is
  the abstract scheme `S`; keys are their byte strings) are exactly the model's `Signer` / `Verifier`, about which C13
  (k-th signature = one-shot signature of the k-th message's chunks, no carry-over, verifier = one-shot verify) is proved.
  Other generated modules use MsgSigner / MsgVerifier through the translator's externs onto these model functions; the
  theorems below justify those externs.
-/
namespace Rough
namespace Bridge

def toGenSigner (s : Signer) : Gen.MsgSigner := ⟨s.seed, s.buf⟩
def toGenVerifier (v : Verifier) : Gen.MsgVerifier := ⟨v.pk, v.buf⟩

/-- `MsgSigner::from_seed`: a signer with an empty buffer for a 32-byte seed, a panic (`expect`) otherwise -/
theorem signer_from_seed_sim (S : SigScheme) (seed : Bytes) :
    Gen.MsgSigner.from_seed S seed ≃ᵣ (Signer.fromSeed seed).map toGenSigner := by
  unfold Gen.MsgSigner.from_seed Signer.fromSeed Rs.tryIntoArray
  by_cases h : seed.length = 32 <;> simp [h, Rs.unwrapR, Res.Sim, Res.map, toGenSigner, Rs.withCapacity, Res.bind]

theorem signer_update_eq (S : SigScheme) (s : Signer) (d : Bytes) :
    Gen.MsgSigner.update S (toGenSigner s) d = .ok (toGenSigner (s.update d)) := by
  rfl

/-- `MsgSigner::sign`: signs exactly the buffered bytes and leaves an EMPTY buffer -/
theorem signer_sign_eq (S : SigScheme) (s : Signer) :
    Gen.MsgSigner.sign S (toGenSigner s) = .ok ((s.sign S).1, toGenSigner (s.sign S).2) := by
  rfl

theorem signer_public_key_bytes_eq (S : SigScheme) (s : Signer) :
    Gen.MsgSigner.public_key_bytes S (toGenSigner s) = .ok (s.publicKey S) := by
  rfl

/-- `MsgVerifier::new`: panics unless the key is 32 bytes and parses -/
theorem verifier_new_sim (S : SigScheme) (pk : Bytes) :
    Gen.MsgVerifier.new S pk ≃ᵣ (Verifier.new S pk).map toGenVerifier := by
  unfold Gen.MsgVerifier.new Verifier.new Rs.tryIntoArray
  by_cases h : pk.length = 32 <;> by_cases hv : S.pkValid pk = true <;>
    simp [h, hv, Rs.unwrapR, Res.Sim, Res.map, toGenVerifier, Rs.withCapacity, Res.bind]

theorem verifier_update_eq (S : SigScheme) (v : Verifier) (d : Bytes) :
    Gen.MsgVerifier.update S (toGenVerifier v) d = .ok (toGenVerifier (v.update d)) := by
  rfl

/-- `MsgVerifier::verify`: the scheme's verdict on (key, buffered bytes, signature); panics unless the signature is 64 bytes -/
theorem verifier_verify_sim (S : SigScheme) (v : Verifier) (sig : Bytes) :
    Gen.MsgVerifier.verify S (toGenVerifier v) sig ≃ᵣ v.verify S sig := by
  unfold Gen.MsgVerifier.verify Verifier.verify Rs.tryIntoArray
  by_cases h : sig.length = 64 <;> by_cases hv : S.verify v.pk v.buf sig = true <;>
    simp [h, hv, Rs.unwrapR, Rs.isOk, Res.Sim, toGenVerifier, Res.bind]

end Bridge
end Rough

import Rough.Bridge.SendResponses
import Rough.Bridge.Request
import Rough.Generated.Src.Server
import Rough.Model.Server
/-
  Helper lemmas for Rough/Bridge/ServerLoop.lean: the responder bridge lemmas of Rough/Bridge/Keys.lean for an
  arbitrary fault-injection queue, `sendResponsesF` when every send succeeds, the receive buffer after a number of
  `recv_from` calls, small `Res` facts.
-/
namespace Rough
namespace Bridge
open Rough.Stats

/-! ### responders with an arbitrary fault-injection queue -/

theorem responder_reset_eq' (S : SigScheme) (H : Bytes → Bytes) (r : Responder) (g : Gen.GreaseQ) :
    Gen.Responder.reset S H (toGenResponder r g) = .ok (toGenResponder (Responder.reset r) g) := by
  simp only [Gen.Responder.reset, toGenResponder, Res.pure_eq, Res.bind_eq, reset_eq, bind_ok_s]
  rfl

theorem add_classic_request_sim' (E : Env) (hH : ∀ x, (E.H x).length = 64) (r : Responder) (g : Gen.GreaseQ)
    (nonce : Bytes) (src : Stats.Addr) :
    Gen.Responder.add_classic_request E.S E.H (toGenResponder r g) nonce src ≃ᵣ
      (Responder.add E r nonce nonce src).map (fun r' => toGenResponder r' g) := by
  simp only [Gen.Responder.add_classic_request, Responder.add, toGenResponder, Res.pure_eq, Res.bind_eq, map_bind',
    mcfg_eq E hH]
  refine Sim.bind_map (push_leaf_sim E.H hH r.ver r.tree nonce) fun b => ?_
  exact Res.Sim.refl _

theorem add_ietf_request_sim' (E : Env) (hH : ∀ x, (E.H x).length = 64) (r : Responder) (g : Gen.GreaseQ)
    (data nonce : Bytes) (src : Stats.Addr) :
    Gen.Responder.add_ietf_request E.S E.H (toGenResponder r g) data nonce src ≃ᵣ
      (Responder.add E r data nonce src).map (fun r' => toGenResponder r' g) := by
  simp only [Gen.Responder.add_ietf_request, Responder.add, toGenResponder, Res.pure_eq, Res.bind_eq, map_bind',
    mcfg_eq E hH]
  refine Sim.bind_map (push_leaf_sim E.H hH r.ver r.tree data) fun b => ?_
  exact Res.Sim.refl _

/-! ### every send succeeds -/

theorem respondAllF_all_ok (ok : Addr → Nat → Bool) (hok : ∀ a k, ok a k = true) (r : Responder) (debug : Bool)
    (srep : Msg) : ∀ (reqs : List (Bytes × Addr)) (idx : Nat) (gs : List Grease),
    Responder.respondAllF ok r debug srep idx reqs gs =
      (Responder.respondAll r debug srep idx reqs gs).map fun p => (p.1.map some, p.2) := by
  intro reqs
  induction reqs with
  | nil => intro idx gs; rfl
  | cons q rest ih =>
    intro idx gs
    obtain ⟨nonce, src⟩ := q
    simp only [Responder.respondAllF, Responder.respondAll, Responder.respondOneF, hok, if_true, ih]
    cases Responder.respondOne r debug srep idx nonce src (gs.headD Grease.none) with
    | ok p =>
      cases Responder.respondAll r debug srep (idx + 1) rest gs.tail <;> rfl
    | err => rfl
    | panic s => rfl

theorem sendResponsesF_all_ok (ok : Addr → Nat → Bool) (hok : ∀ a k, ok a k = true) (E : Env) (r : Responder)
    (debug : Bool) (now : Nat × Nat) (gs : List Grease) :
    Responder.sendResponsesF ok E r debug now gs =
      (Responder.sendResponses E r debug now gs).map fun y => (y.1, y.2.1.map some, y.2.2) := by
  unfold Responder.sendResponsesF Responder.sendResponses
  cases r.requests.isEmpty with
  | true => rfl
  | false =>
    simp only [Bool.false_eq_true, if_false, map_bind', respondAllF_all_ok ok hok]
    congr 1; funext a
    congr 1; funext b
    cases Responder.respondAll _ debug b.1 0 r.requests gs <;> rfl

theorem respondAll_length (r : Responder) (debug : Bool) (srep : Msg) :
    ∀ (reqs : List (Bytes × Addr)) (idx : Nat) (gs : List Grease) (p : List Sent × List Event),
    Responder.respondAll r debug srep idx reqs gs = .ok p → p.1.length = reqs.length := by
  intro reqs
  induction reqs with
  | nil => intro idx gs p h; cases h; rfl
  | cons q rest ih =>
    intro idx gs p h
    obtain ⟨nonce, src⟩ := q
    simp only [Responder.respondAll] at h
    cases h1 : Responder.respondOne r debug srep idx nonce src (gs.headD Grease.none) with
    | ok x =>
      rw [h1] at h
      cases h2 : Responder.respondAll r debug srep (idx + 1) rest gs.tail with
      | ok y =>
        rw [h2] at h
        cases h
        simp [ih _ _ _ h2]
      | err => rw [h2] at h; cases h
      | panic s => rw [h2] at h; cases h
    | err => rw [h1] at h; cases h
    | panic s => rw [h1] at h; cases h

/-- a successful `send_responses` puts one datagram per queued request on the wire and leaves the queue as it was -/
theorem sendResponses_shape (E : Env) (r : Responder) (debug : Bool) (now : Nat × Nat) (gs : List Grease)
    (y : Responder × List Sent × List Event) (h : Responder.sendResponses E r debug now gs = .ok y) :
    y.2.1.length = r.requests.length ∧ y.1.requests = r.requests := by
  unfold Responder.sendResponses at h
  cases hemp : r.requests.isEmpty with
  | true =>
    have hnil : r.requests = [] := List.isEmpty_iff.mp hemp
    simp only [hemp, if_true] at h
    cases h
    simp [hnil]
  | false =>
    simp only [hemp, Bool.false_eq_true, if_false] at h
    cases h1 : Merkle.computeRoot (E.mcfg r.ver) r.ver.isIetf r.tree with
    | ok a =>
      rw [h1] at h
      simp only [Res.bind_ok] at h
      cases h2 : makeSrep E.S r.onl r.ver now.1 now.2 a.2 with
      | ok b =>
        rw [h2] at h
        simp only [Res.bind_ok] at h
        cases h3 : Responder.respondAll { r with tree := a.1, onl := b.2 } debug b.1 0 r.requests gs with
        | ok c =>
          rw [h3] at h
          cases h
          exact ⟨respondAll_length _ _ _ _ _ _ _ h3, rfl⟩
        | err => rw [h3] at h; cases h
        | panic s => rw [h3] at h; cases h
      | err => rw [h2] at h; cases h
      | panic s => rw [h2] at h; cases h
    | err => rw [h1] at h; cases h
    | panic s => rw [h1] at h; cases h

/-! ### the receive buffer -/

/-- the receive buffer after the datagrams `q` were received into it, oldest first -/
def bufAfter (buf : Bytes) (q : List (Bytes × Addr)) : Bytes :=
  q.foldl (fun b p => p.1 ++ b.drop p.1.length) buf

@[simp] theorem bufAfter_nil (buf : Bytes) : bufAfter buf [] = buf := rfl
@[simp] theorem bufAfter_cons (buf : Bytes) (p : Bytes × Addr) (q : List (Bytes × Addr)) :
    bufAfter buf (p :: q) = bufAfter (p.1 ++ buf.drop p.1.length) q := rfl

theorem recv_length (d buf : Bytes) (h : d.length ≤ buf.length) : (d ++ buf.drop d.length).length = buf.length := by
  simp only [List.length_append, List.length_drop]; omega

theorem bufAfter_length (q : List (Bytes × Addr)) : ∀ (buf : Bytes), (∀ p ∈ q, p.1.length ≤ buf.length) →
    (bufAfter buf q).length = buf.length := by
  induction q with
  | nil => intro buf _; rfl
  | cons p q ih =>
    intro buf h
    have hp := h p (List.mem_cons_self ..)
    rw [bufAfter_cons, ih _ (fun x hx => by rw [recv_length _ _ hp]; exact h x (List.mem_cons_of_mem _ hx)),
      recv_length _ _ hp]

theorem recv_take (d buf : Bytes) : (d ++ buf.drop d.length).take d.length = d := by
  simp

/-! ### small `Res` facts -/

theorem bind_dup {α β} (x : Res α) (g : α → α → Res β) : (x.bind fun a => x.bind (g a)) = x.bind fun a => g a a := by
  cases x <;> rfl

theorem map_eq_bind {α β} (r : Res α) (f : α → β) : r.map f = r.bind fun a => .ok (f a) := by
  cases r <;> rfl

end Bridge
end Rough

import Rough.Bridge.Keys
import Rough.Model.SendFail
import Rough.Lemmas.Bytes
/-
  Helper lemmas for Rough/Bridge/SendResponses.lean: fault-injection queue versus `applyGrease`, one loop iteration's
  head (get_paths, make_response, add_errors) and tail (encode, send_to, debug slice, statistics), and the loop rule
  relating `Rs.forList` over the enumerated requests to the model's `respondAllF`.
-/
namespace Rough
namespace Bridge
open Rough.Stats

/-! ### small facts -/

theorem enumerate_eq_range' {α} (l : List α) : Rs.enumerate l = (List.range' 0 l.length).zip l := by
  simp [Rs.enumerate, List.range_eq_range']

theorem responder_is_empty_eq' (S : SigScheme) (H : Bytes → Bytes) (r : Responder) (g : Gen.GreaseQ) :
    Gen.Responder.is_empty S H (toGenResponder r g) = .ok r.requests.isEmpty := rfl

theorem makeResponse_mod (srep : Msg) (cert path : Bytes) (idx : Nat) (nonce : Bytes) :
    makeResponse srep cert path (idx % 4294967296) nonce = makeResponse srep cert path idx nonce := by
  simp only [makeResponse, Lemmas.le32_mod]

theorem addErrors_eq (p : List Grease) (g : Grease) (m : Msg) :
    Gen.GreaseQ.addErrors ⟨p, g⟩ (toGen m) = (applyGrease g m).map toGen := by
  have e : (⟨(toGen m).tags.zip (toGen m).values⟩ : Msg) = m := ofGen_toGen m
  simp only [Gen.GreaseQ.addErrors, e]
  cases applyGrease g m <;> rfl

/-- `should_add_error()` followed by `add_errors` (or not) is the model's `applyGrease` of the next decision -/
theorem grease_step_eq (gs : List Grease) (cur : Grease) (m : Msg) :
    (if (Gen.GreaseQ.draw ⟨gs, cur⟩).1 = true then (Gen.GreaseQ.draw ⟨gs, cur⟩).2.addErrors (toGen m)
      else Res.ok (toGen m)) = (applyGrease (gs.headD Grease.none) m).map toGen := by
  have e2 : (Gen.GreaseQ.draw ⟨gs, cur⟩).2 = ⟨gs.tail, gs.headD Grease.none⟩ := rfl
  rw [e2, addErrors_eq]
  cases h : gs.headD Grease.none with
  | none =>
    have e1 : (Gen.GreaseQ.draw ⟨gs, cur⟩).1 = false := by
      simp only [Gen.GreaseQ.draw]; rw [h]
    rw [e1]; rfl
  | reorder perm =>
    have e1 : (Gen.GreaseQ.draw ⟨gs, cur⟩).1 = true := by
      simp only [Gen.GreaseQ.draw]; rw [h]
    rw [e1]; rfl
  | corruptSig rho =>
    have e1 : (Gen.GreaseQ.draw ⟨gs, cur⟩).1 = true := by
      simp only [Gen.GreaseQ.draw]; rw [h]
    rw [e1]; rfl

theorem draw_snd (gs : List Grease) (cur : Grease) :
    (Gen.GreaseQ.draw ⟨gs, cur⟩).2 = ⟨gs.tail, gs.headD Grease.none⟩ := rfl

/-- head of one iteration: get_paths, make_response (INDX as u32), fault injection -/
theorem iter_head_sim {δ : Type} (S : SigScheme) (H : Bytes → Bytes) (g : Gen.Responder) (v : Version) (t : Tree)
    (srep : Msg) (cert : Bytes) (idx : Nat) (nonce : Bytes) (gs : List Grease) (cur : Grease)
    (K : Gen.RtMessage → Res δ) (K' : Msg → Res δ) (hK : ∀ m, K (toGen m) ≃ᵣ K' m) :
    ((Gen.MerkleTree.get_paths H (toGenTree v t) idx).bind fun p =>
      (Gen.Responder.make_response S H g (toGen srep) cert p (idx % 4294967296) nonce).bind fun m =>
        (if (Gen.GreaseQ.draw ⟨gs, cur⟩).1 = true then (Gen.GreaseQ.draw ⟨gs, cur⟩).2.addErrors m
          else Res.ok m).bind K)
    ≃ᵣ ((Merkle.getPaths t idx).bind fun path =>
      (makeResponse srep cert path idx nonce).bind fun resp =>
        (applyGrease (gs.headD Grease.none) resp).bind K') := by
  refine Res.Sim.bind (get_paths_sim H v t idx) fun path => ?_
  refine Sim.bind_map (q := toGen) ?_ fun resp => ?_
  · rw [← makeResponse_mod]; exact make_response_sim S H g srep cert path _ nonce
  · rw [grease_step_eq]
    exact Sim.bind_map (q := toGen) (Res.Sim.refl _) hK

/-! ### the loop -/

/-- what one iteration leaves: the fault-injection queue advanced, the socket counter advanced and the outcome
    recorded, the statistics event appended -/
def stepState (ok : Addr → Nat → Bool) (n0 : Nat) (inq : List (Bytes × Addr)) (clk : Nat → Rs.Time) (r : Responder)
    (idx : Nat) (gs : List Grease) (out : List (Option Sent))
    (stats : List Event) (p : Option Sent × Event) : Rs.Step (Gen.Responder × Gen.Sock × List Event) :=
  Rs.Step.next (toGenResponder r ⟨gs.tail, gs.headD Grease.none⟩, ⟨ok, n0 + (idx + 1), out ++ [p.1], inq, clk⟩,
    stats ++ [p.2])

/-- the decision last drawn after `n` more draws from the queue `⟨gs, cur⟩` -/
def curAfter (gs : List Grease) (cur : Grease) : Nat → Grease
  | 0 => cur
  | k + 1 => (gs.drop k).headD Grease.none

theorem curAfter_step (gs : List Grease) (cur : Grease) (k : Nat) :
    curAfter gs.tail (gs.headD Grease.none) k = curAfter gs cur (k + 1) := by
  cases k with
  | zero => rfl
  | succ j => cases gs <;> simp [curAfter]

theorem Sim.map_congr {α β} {r s : Res α} (h : r ≃ᵣ s) (f : α → β) : r.map f ≃ᵣ s.map f := by
  cases r <;> cases s <;> simp_all [Res.Sim, Res.map]

/-- the loop, exact final state -/
theorem loop_sim (ok : Addr → Nat → Bool) (n0 : Nat) (inq : List (Bytes × Addr)) (clk : Nat → Rs.Time)
    (r : Responder) (debug : Bool) (srep : Msg)
    (body : Nat × Bytes × Addr → Gen.Responder × Gen.Sock × List Event →
      Res (Rs.Step (Gen.Responder × Gen.Sock × List Event)))
    (hbody : ∀ idx nonce src gs cur out stats,
      body (idx, nonce, src) (toGenResponder r ⟨gs, cur⟩, ⟨ok, n0 + idx, out, inq, clk⟩, stats) ≃ᵣ
        (Responder.respondOneF (fun a k => ok a (n0 + k)) r debug srep idx nonce src (gs.headD Grease.none)).map
          (stepState ok n0 inq clk r idx gs out stats)) :
    ∀ (rest : List (Bytes × Addr)) (idx : Nat) (gs : List Grease) (cur : Grease) (out : List (Option Sent))
      (stats : List Event),
      Rs.forList ((List.range' idx rest.length).zip rest)
          (toGenResponder r ⟨gs, cur⟩, ⟨ok, n0 + idx, out, inq, clk⟩, stats) body
        ≃ᵣ (Responder.respondAllF (fun a k => ok a (n0 + k)) r debug srep idx rest gs).map fun p =>
            (toGenResponder r ⟨gs.drop rest.length, curAfter gs cur rest.length⟩,
              (⟨ok, n0 + (idx + rest.length), out ++ p.1, inq, clk⟩ : Gen.Sock), stats ++ p.2) := by
  intro rest
  induction rest with
  | nil =>
    intro idx gs cur out stats
    simp [Responder.respondAllF, curAfter, Res.map, Res.Sim]
  | cons x rest ih =>
    intro idx gs cur out stats
    obtain ⟨nonce, src⟩ := x
    have hb := hbody idx nonce src gs cur out stats
    simp only [List.length_cons, List.range'_succ, List.zip_cons_cons, Rs.forList_cons, Responder.respondAllF]
    cases h1 : Responder.respondOneF (fun a k => ok a (n0 + k)) r debug srep idx nonce src (gs.headD Grease.none) with
    | ok p =>
      rw [h1] at hb
      cases h2 : body (idx, nonce, src) (toGenResponder r ⟨gs, cur⟩, ⟨ok, n0 + idx, out, inq, clk⟩, stats) with
      | ok st =>
        rw [h2] at hb
        have e : st = stepState ok n0 inq clk r idx gs out stats p := hb
        subst e
        simp only [stepState, bind_ok_s]
        have := ih (idx + 1) gs.tail (gs.headD Grease.none) (out ++ [p.1]) (stats ++ [p.2])
        refine Res.Sim.trans this ?_
        cases Responder.respondAllF (fun a k => ok a (n0 + k)) r debug srep (idx + 1) rest gs.tail with
        | ok q =>
          obtain ⟨ss, es⟩ := q
          obtain ⟨s, e⟩ := p
          rw [← curAfter_step gs cur rest.length]
          simp [Res.bind, Res.map, Res.Sim, Nat.add_assoc, Nat.add_comm 1]
        | err => trivial
        | panic s => trivial
      | err => rw [h2] at hb; exact hb.elim
      | panic s => rw [h2] at hb; exact hb.elim
    | err =>
      rw [h1] at hb
      cases h2 : body (idx, nonce, src) (toGenResponder r ⟨gs, cur⟩, ⟨ok, n0 + idx, out, inq, clk⟩, stats) with
      | ok st => rw [h2] at hb; exact hb.elim
      | err => trivial
      | panic s => rw [h2] at hb; exact hb.elim
    | panic s =>
      rw [h1] at hb
      cases h2 : body (idx, nonce, src) (toGenResponder r ⟨gs, cur⟩, ⟨ok, n0 + idx, out, inq, clk⟩, stats) with
      | ok st => rw [h2] at hb; exact hb.elim
      | err => rw [h2] at hb; exact hb.elim
      | panic s => trivial

theorem bind_ok_map {α β} (r : Res α) (f : α → β) : (r.bind fun a => Res.map f (Res.ok a)) = r.map f := by
  cases r <;> rfl

/-- the loop as it appears in `send_responses` (from index 0, socket as found), with the final repacking -/
theorem loop_sim' (sock : Gen.Sock) (r : Responder) (debug : Bool) (srep : Msg)
    (body : Nat × Bytes × Addr → Gen.Responder × Gen.Sock × List Event →
      Res (Rs.Step (Gen.Responder × Gen.Sock × List Event)))
    (hbody : ∀ idx nonce src gs cur out stats,
      body (idx, nonce, src) (toGenResponder r ⟨gs, cur⟩, ⟨sock.ok, sock.n + idx, out, sock.inq, sock.clock⟩, stats) ≃ᵣ
        (Responder.respondOneF (fun a k => sock.ok a (sock.n + k)) r debug srep idx nonce src (gs.headD Grease.none)).map
          (stepState sock.ok sock.n sock.inq sock.clock r idx gs out stats))
    (reqs : List (Bytes × Addr)) (gs : List Grease) (cur : Grease) (ev0 : List Event)
    (st : Gen.Responder × Gen.Sock × List Event) (hst : st = (toGenResponder r ⟨gs, cur⟩, sock, ev0))
    (f : Gen.Responder × Gen.Sock × List Event → Res _) (hf : ∀ a, f a = .ok a)
    (g : List (Option Sent) × List Event → Res _)
    (hg : ∀ p, g p = .ok (toGenResponder r ⟨gs.drop reqs.length, curAfter gs cur reqs.length⟩,
      ({ sock with n := sock.n + reqs.length, out := sock.out ++ p.1 } : Gen.Sock), ev0 ++ p.2)) :
    (Rs.forList (Rs.enumerate reqs) st body).bind f ≃ᵣ
      (Responder.respondAllF (fun a k => sock.ok a (sock.n + k)) r debug srep 0 reqs gs).bind g := by
  subst hst
  have h := loop_sim sock.ok sock.n sock.inq sock.clock r debug srep body hbody reqs 0 gs cur sock.out ev0
  rw [enumerate_eq_range']
  have e1 : f = fun a => Res.ok a := funext hf
  have e2 : g = fun p => Res.ok (toGenResponder r ⟨gs.drop reqs.length, curAfter gs cur reqs.length⟩,
      ({ sock with n := sock.n + reqs.length, out := sock.out ++ p.1 } : Gen.Sock), ev0 ++ p.2) :=
    funext hg
  rw [e1, e2]
  have es : (⟨sock.ok, sock.n + 0, sock.out, sock.inq, sock.clock⟩ : Gen.Sock) = sock := rfl
  rw [es] at h
  cases h1 : Rs.forList ((List.range' 0 reqs.length).zip reqs) (toGenResponder r ⟨gs, cur⟩, sock, ev0) body <;>
    cases h2 : Responder.respondAllF (fun a k => sock.ok a (sock.n + k)) r debug srep 0 reqs gs <;>
    rw [h1, h2] at h <;> simp_all [Res.Sim, Res.map, Res.bind]

end Bridge
end Rough

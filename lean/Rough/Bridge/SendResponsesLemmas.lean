import Rough.Bridge.Keys
import Rough.Model.SendFail
import Rough.Lemmas.Bytes
/-
  Helper lemmas for Rough/Bridge/SendResponses.lean: fault-injection queue versus `applyGrease`, one loop iteration's
  head (get_paths, make_response, add_errors) and tail (encode, send_to, debug slice, statistics), and the loop rule
  relating `Rs.forList` over the enumerated requests to the model's `respondAllF`.
-/
namespace Rough
namespace Bridge
open Rough.Stats

/-! ### small facts -/

theorem enumerate_eq_range' {α} (l : List α) : Rs.enumerate l = (List.range' 0 l.length).zip l := by
  simp [Rs.enumerate, List.range_eq_range']

theorem responder_is_empty_eq' (S : SigScheme) (H : Bytes → Bytes) (r : Responder) (g : Gen.GreaseQ) :
    Gen.Responder.is_empty S H (toGenResponder r g) = .ok r.requests.isEmpty := rfl

theorem makeResponse_mod (srep : Msg) (cert path : Bytes) (idx : Nat) (nonce : Bytes) :
    makeResponse srep cert path (idx % 4294967296) nonce = makeResponse srep cert path idx nonce := by
  simp only [makeResponse, Lemmas.le32_mod]

theorem addErrors_eq (p : List Grease) (g : Grease) (m : Msg) :
    Gen.GreaseQ.addErrors ⟨p, g⟩ (toGen m) = (applyGrease g m).map toGen := by
  have e : (⟨(toGen m).tags.zip (toGen m).values⟩ : Msg) = m := ofGen_toGen m
  simp only [Gen.GreaseQ.addErrors, e]
  cases applyGrease g m <;> rfl

/-- `should_add_error()` followed by `add_errors` (or not) is the model's `applyGrease` of the next decision -/
theorem grease_step_eq (gs : List Grease) (cur : Grease) (m : Msg) :
    (if (Gen.GreaseQ.draw ⟨gs, cur⟩).1 = true then (Gen.GreaseQ.draw ⟨gs, cur⟩).2.addErrors (toGen m)
      else Res.ok (toGen m)) = (applyGrease (gs.headD Grease.none) m).map toGen := by
  have e2 : (Gen.GreaseQ.draw ⟨gs, cur⟩).2 = ⟨gs.tail, gs.headD Grease.none⟩ := rfl
  rw [e2, addErrors_eq]
  cases h : gs.headD Grease.none with
  | none =>
    have e1 : (Gen.GreaseQ.draw ⟨gs, cur⟩).1 = false := by
      simp only [Gen.GreaseQ.draw]; rw [h]
    rw [e1]; rfl
  | reorder perm =>
    have e1 : (Gen.GreaseQ.draw ⟨gs, cur⟩).1 = true := by
      simp only [Gen.GreaseQ.draw]; rw [h]
    rw [e1]; rfl
  | corruptSig rho =>
    have e1 : (Gen.GreaseQ.draw ⟨gs, cur⟩).1 = true := by
      simp only [Gen.GreaseQ.draw]; rw [h]
    rw [e1]; rfl

theorem draw_snd (gs : List Grease) (cur : Grease) :
    (Gen.GreaseQ.draw ⟨gs, cur⟩).2 = ⟨gs.tail, gs.headD Grease.none⟩ := rfl

/-- head of one iteration: get_paths, make_response (INDX as u32), fault injection -/
theorem iter_head_sim {δ : Type} (S : SigScheme) (H : Bytes → Bytes) (g : Gen.Responder) (v : Version) (t : Tree)
    (srep : Msg) (cert : Bytes) (idx : Nat) (nonce : Bytes) (gs : List Grease) (cur : Grease)
    (K : Gen.RtMessage → Res δ) (K' : Msg → Res δ) (hK : ∀ m, K (toGen m) ≃ᵣ K' m) :
    ((Gen.MerkleTree.get_paths H (toGenTree v t) idx).bind fun p =>
      (Gen.Responder.make_response S H g (toGen srep) cert p (idx % 4294967296) nonce).bind fun m =>
        (if (Gen.GreaseQ.draw ⟨gs, cur⟩).1 = true then (Gen.GreaseQ.draw ⟨gs, cur⟩).2.addErrors m
          else Res.ok m).bind K)
    ≃ᵣ ((Merkle.getPaths t idx).bind fun path =>
      (makeResponse srep cert path idx nonce).bind fun resp =>
        (applyGrease (gs.headD Grease.none) resp).bind K') := by
  refine Res.Sim.bind (get_paths_sim H v t idx) fun path => ?_
  refine Sim.bind_map (q := toGen) ?_ fun resp => ?_
  · rw [← makeResponse_mod]; exact make_response_sim S H g srep cert path _ nonce
  · rw [grease_step_eq]
    exact Sim.bind_map (q := toGen) (Res.Sim.refl _) hK

/-! ### the loop -/

/-- what one iteration leaves: the fault-injection queue advanced, the socket counter advanced and the outcome
    recorded, the statistics event appended -/
def stepState (ok : Addr → Nat → Bool) (r : Responder) (idx : Nat) (gs : List Grease) (out : List (Option Sent))
    (stats : List Event) (p : Option Sent × Event) : Rs.Step (Gen.Responder × Gen.Sock × List Event) :=
  Rs.Step.next (toGenResponder r ⟨gs.tail, gs.headD Grease.none⟩, ⟨ok, idx + 1, out ++ [p.1]⟩, stats ++ [p.2])

/-- observables of the loop state -/
def obsLoop (x : Gen.Responder × Gen.Sock × List Event) :
    Version × Gen.OnlineKey × Bytes × List (Bytes × Nat) × Gen.MerkleTree × List Grease × List (Option Sent) × Nat × List Event :=
  (x.1.version, x.1.online_key, x.1.cert_bytes, x.1.requests, x.1.merkle, x.1.grease.pending, x.2.1.out, x.2.1.n, x.2.2)

theorem loop_sim (ok : Addr → Nat → Bool) (r : Responder) (debug : Bool) (srep : Msg)
    (body : Nat × Bytes × Addr → Gen.Responder × Gen.Sock × List Event →
      Res (Rs.Step (Gen.Responder × Gen.Sock × List Event)))
    (hbody : ∀ idx nonce src gs cur out stats,
      body (idx, nonce, src) (toGenResponder r ⟨gs, cur⟩, ⟨ok, idx, out⟩, stats) ≃ᵣ
        (Responder.respondOneF ok r debug srep idx nonce src (gs.headD Grease.none)).map
          (stepState ok r idx gs out stats)) :
    ∀ (rest : List (Bytes × Addr)) (idx : Nat) (gs : List Grease) (cur : Grease) (out : List (Option Sent))
      (stats : List Event),
      (Rs.forList ((List.range' idx rest.length).zip rest) (toGenResponder r ⟨gs, cur⟩, ⟨ok, idx, out⟩, stats) body).map
          obsLoop
        ≃ᵣ (Responder.respondAllF ok r debug srep idx rest gs).map fun p =>
            (r.ver, (⟨r.onl, Version.supportedWire⟩ : Gen.OnlineKey), r.cert, r.requests, toGenTree r.ver r.tree,
              gs.drop rest.length, out ++ p.1, idx + rest.length, stats ++ p.2) := by
  intro rest
  induction rest with
  | nil =>
    intro idx gs cur out stats
    simp [Responder.respondAllF, obsLoop, toGenResponder]
  | cons x rest ih =>
    intro idx gs cur out stats
    obtain ⟨nonce, src⟩ := x
    have hb := hbody idx nonce src gs cur out stats
    simp only [List.length_cons, List.range'_succ, List.zip_cons_cons, Rs.forList_cons, Responder.respondAllF]
    cases h1 : Responder.respondOneF ok r debug srep idx nonce src (gs.headD Grease.none) with
    | ok p =>
      rw [h1] at hb
      cases h2 : body (idx, nonce, src) (toGenResponder r ⟨gs, cur⟩, ⟨ok, idx, out⟩, stats) with
      | ok st =>
        rw [h2] at hb
        have e : st = stepState ok r idx gs out stats p := hb
        subst e
        simp only [stepState, bind_ok_s]
        have := ih (idx + 1) gs.tail (gs.headD Grease.none) (out ++ [p.1]) (stats ++ [p.2])
        refine Res.Sim.trans this ?_
        cases Responder.respondAllF ok r debug srep (idx + 1) rest gs.tail with
        | ok q =>
          obtain ⟨ss, es⟩ := q
          obtain ⟨s, e⟩ := p
          simp [Res.bind, Res.map, Res.Sim, Nat.add_assoc, Nat.add_comm 1]
        | err => trivial
        | panic s => trivial
      | err => rw [h2] at hb; exact hb.elim
      | panic s => rw [h2] at hb; exact hb.elim
    | err =>
      rw [h1] at hb
      cases h2 : body (idx, nonce, src) (toGenResponder r ⟨gs, cur⟩, ⟨ok, idx, out⟩, stats) with
      | ok st => rw [h2] at hb; exact hb.elim
      | err => trivial
      | panic s => rw [h2] at hb; exact hb.elim
    | panic s =>
      rw [h1] at hb
      cases h2 : body (idx, nonce, src) (toGenResponder r ⟨gs, cur⟩, ⟨ok, idx, out⟩, stats) with
      | ok st => rw [h2] at hb; exact hb.elim
      | err => rw [h2] at hb; exact hb.elim
      | panic s => trivial

theorem bind_ok_map {α β} (r : Res α) (f : α → β) : (r.bind fun a => Res.map f (Res.ok a)) = r.map f := by
  cases r <;> rfl

/-- the loop as it appears in `send_responses` (from index 0, nothing sent yet), with the final repacking -/
theorem loop_sim' (ok : Addr → Nat → Bool) (r : Responder) (debug : Bool) (srep : Msg)
    (body : Nat × Bytes × Addr → Gen.Responder × Gen.Sock × List Event →
      Res (Rs.Step (Gen.Responder × Gen.Sock × List Event)))
    (hbody : ∀ idx nonce src gs cur out stats,
      body (idx, nonce, src) (toGenResponder r ⟨gs, cur⟩, ⟨ok, idx, out⟩, stats) ≃ᵣ
        (Responder.respondOneF ok r debug srep idx nonce src (gs.headD Grease.none)).map
          (stepState ok r idx gs out stats))
    (reqs : List (Bytes × Addr)) (gs : List Grease) (cur : Grease) (ev0 : List Event)
    (st : Gen.Responder × Gen.Sock × List Event) (hst : st = (toGenResponder r ⟨gs, cur⟩, ⟨ok, 0, []⟩, ev0))
    (f : Gen.Responder × Gen.Sock × List Event → Res _) (hf : ∀ a, f a = .ok (obsLoop a))
    (g : List (Option Sent) × List Event → Res _)
    (hg : ∀ p, g p = .ok (r.ver, (⟨r.onl, Version.supportedWire⟩ : Gen.OnlineKey), r.cert, r.requests,
      toGenTree r.ver r.tree, gs.drop reqs.length, p.1, reqs.length, ev0 ++ p.2)) :
    (Rs.forList (Rs.enumerate reqs) st body).bind f ≃ᵣ (Responder.respondAllF ok r debug srep 0 reqs gs).bind g := by
  subst hst
  have h := loop_sim ok r debug srep body hbody reqs 0 gs cur [] ev0
  rw [enumerate_eq_range']
  have e1 : f = fun a => Res.ok (obsLoop a) := funext hf
  have e2 : g = fun p => Res.ok (r.ver, (⟨r.onl, Version.supportedWire⟩ : Gen.OnlineKey), r.cert, r.requests,
      toGenTree r.ver r.tree, gs.drop reqs.length, p.1, reqs.length, ev0 ++ p.2) := funext hg
  rw [e1, e2]
  cases h1 : Rs.forList ((List.range' 0 reqs.length).zip reqs) (toGenResponder r ⟨gs, cur⟩, ⟨ok, 0, []⟩, ev0) body <;>
    cases h2 : Responder.respondAllF ok r debug srep 0 reqs gs <;>
    rw [h1, h2] at h <;> simp_all [Res.Sim, Res.map, Res.bind]

end Bridge
end Rough

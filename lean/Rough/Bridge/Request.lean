import Rough.Bridge.Message
import Rough.Bridge.RequestLemmas
import Rough.Generated.Src.Request
import Rough.Model.Request
/-
  Bridge theorems for src/request.rs: the generated request classifier equals the model's `nonceFromRequest`
  (about which `Lemmas.Request.classify_eq` proves agreement with the reference classification, C07 / C12) on
  EVERY receive buffer and datagram length.
-/
namespace Rough
namespace Bridge

/-- `get_supported_version` -/
theorem get_supported_version_eq (m : Msg) :
    Gen.get_supported_version (toGen m) = .ok (supportedVersion m) := by
  unfold Gen.get_supported_version supportedVersion
  simp only [get_field_eq, Res.bind_eq, Res.bind_ok, Res.pure_eq]
  cases hv : m.get Tag.VER with
  | none => rfl
  | some v =>
    simp only
    rw [forListR_find (fun c => c == Version.ietf.wire) (some Version.ietf)]
    · simp only [Res.bind_ok]
      cases ((List.take 4 (chunks 4 v)).any fun c => c == Version.ietf.wire) <;> rfl
    · intro c s
      rw [Rs.forListR_cons]
      by_cases h : Version.ietf.wire = c
      · subst h; simp
      · have h' : (c == Version.ietf.wire) = false := by
          rw [beq_eq_false_iff_ne]; exact fun e => h e.symm
        simp [h, h']

/-- `is_rfc_request` on a buffer of at least 8 bytes -/
theorem is_rfc_request_eq (buf : Bytes) (h : 8 ≤ buf.length) :
    Gen.is_rfc_request buf = .ok (decide (buf.take 8 = framing)) := by
  unfold Gen.is_rfc_request Rs.slice
  rw [if_pos ⟨Nat.zero_le _, h⟩]
  rfl

/-- `nonce_from_classic_request` -/
theorem nonce_from_classic_request_sim (d : Bytes) :
    Gen.nonce_from_classic_request d ≃ᵣ nonceFromClassic d := by
  unfold Gen.nonce_from_classic_request nonceFromClassic
  simp only [Res.bind_eq, Res.pure_eq]
  refine Sim.bind_map (from_bytes_sim d) fun m => ?_
  simp only [Res.bind_ok, get_field_eq, Gen.CLASSIC_NONCE_LENGTH]
  cases m.get Tag.NONC <;> exact Res.Sim.refl _

/-- `nonce_from_rfc_request` -/
theorem nonce_from_rfc_request_sim (d srv : Bytes) :
    Gen.nonce_from_rfc_request d srv ≃ᵣ nonceFromRfc d srv := by
  unfold Gen.nonce_from_rfc_request nonceFromRfc
  simp only [Res.bind_eq, Res.pure_eq, Res.bind_err]
  by_cases h12 : 12 ≤ d.length
  · have e1 : Rs.slice d 8 12 "request.rs:nonce_from_rfc_request:slice#1" = .ok ((d.drop 8).take 4) := by
      simp [Rs.slice, h12]
    have e2 : slice d 8 12 "request.rs:nonce_from_rfc_request:buf[8..12]" = .ok ((d.drop 8).take 4) :=
      Lemmas.slice_ok (by omega) h12
    have e3 : Rs.sub d.length 12 "request.rs:nonce_from_rfc_request:sub#1" = .ok (d.length - 12) := by
      simp [Rs.sub, h12]
    have e4 : csub d.length 12 "request.rs:nonce_from_rfc_request:buf.len()-12" = .ok (d.length - 12) := by
      simp [csub, h12]
    have e5 : Rs.sliceFrom d 12 "request.rs:nonce_from_rfc_request:slice#2" = .ok (d.drop 12) := by
      simp [Rs.sliceFrom, h12]
    have e6 : slice d 12 d.length "request.rs:nonce_from_rfc_request:buf[12..]" = .ok (d.drop 12) := by
      rw [Lemmas.slice_ok h12 (Nat.le_refl _), List.take_of_length_le (by simp)]
    have e7 : ((d.drop 8).take 4).length = 4 := by simp; omega
    rw [e1, e2, e3, e4, e5, e6]
    simp only [Res.bind_ok, readU32_new _ e7]
    by_cases hl : rd32 ((d.drop 8).take 4) = (d.length - 12) % 4294967296
    · simp only [hl, ne_eq, not_true_eq_false, if_false]
      refine Sim.bind_map (from_bytes_sim _) fun m => ?_
      simp only [get_supported_version_eq, get_field_eq, Res.bind_ok, Gen.RFC_NONCE_LENGTH]
      apply Res.Sim.of_eq
      cases supportedVersion m with
      | none => rfl
      | some ver =>
        simp only [Option.isNone_some, Bool.false_eq_true, if_false, Rs.unwrapO, Res.bind_ok]
        cases m.get Tag.SRV with
        | none =>
          simp only [Bool.false_eq_true, if_false]
          cases m.get Tag.NONC <;> rfl
        | some s =>
          by_cases hs : s = srv
          · simp only [hs, not_true_eq_false, if_false, bne_self_eq_false, Bool.false_eq_true]
            cases m.get Tag.NONC <;> rfl
          · have hb : (s != srv) = true := by simpa using hs
            simp only [hs, not_false_eq_true, if_true, hb]
    · simp only [ne_eq, hl, not_false_eq_true, if_true]
      trivial
  · have e1 : Rs.slice d 8 12 "request.rs:nonce_from_rfc_request:slice#1" = .panic "request.rs:nonce_from_rfc_request:slice#1" := by
      simp [Rs.slice, h12]
    have e2 : slice d 8 12 "request.rs:nonce_from_rfc_request:buf[8..12]" =
        .panic "request.rs:nonce_from_rfc_request:buf[8..12]" := by
      simp [slice, h12]
    rw [e1, e2]
    trivial

/-- `nonce_from_request(buf, num_bytes, expected_srv)`: for every receive buffer, every datagram length that fits
    in it and every SRV value, the generated code classifies the datagram `buf[..num_bytes]` as the model does. -/
theorem nonce_from_request_sim (buf : Bytes) (n : Nat) (srv : Bytes) (hn : n ≤ buf.length) :
    Gen.nonce_from_request buf n srv ≃ᵣ nonceFromRequest (buf.take n) srv := by
  have hlen : (buf.take n).length = n := by simp [hn]
  unfold Gen.nonce_from_request nonceFromRequest
  rw [hlen]
  simp only [Res.bind_eq, Gen.MIN_REQUEST_LENGTH, Gen.MAX_REQUEST_LENGTH,
    MIN_REQUEST_LENGTH, MAX_REQUEST_LENGTH]
  by_cases h1 : n < 1024
  · simp only [h1, if_true, Res.bind_err]; trivial
  by_cases h2 : n > 1500
  · simp only [h1, h2, if_true, if_false, Res.bind_err]; trivial
  have e1 : ∀ site, Rs.sliceTo buf n site = .ok (buf.take n) := by
    intro site; simp [Rs.sliceTo, hn]
  have e2 : slice (buf.take n) 0 8 "request.rs:is_rfc_request:buf[0..8]" = .ok (buf.take 8) := by
    rw [Lemmas.slice_ok (Nat.zero_le _) (by omega)]
    simp [List.take_take]; omega
  simp only [h1, h2, if_false, Res.bind_ok, is_rfc_request_eq buf (by omega), e1, e2]
  by_cases hm : buf.take 8 = framing
  · simp only [hm, decide_true, if_true, beq_self_eq_true]
    exact nonce_from_rfc_request_sim _ _
  · have hb : (buf.take 8 == framing) = false := by simpa using hm
    simp only [hm, decide_false, Bool.false_eq_true, if_false, hb]
    exact nonce_from_classic_request_sim _

/-- the generated classifier never panics on a datagram that fits in the buffer -/
theorem nonce_from_request_no_panic (buf : Bytes) (n : Nat) (srv : Bytes) (hn : n ≤ buf.length) :
    (Gen.nonce_from_request buf n srv).isPanic = false := by
  rw [Res.Sim.isPanic_eq (nonce_from_request_sim buf n srv hn)]
  cases h : nonceFromRequest (buf.take n) srv with
  | panic s => exact absurd h (Lemmas.Request.no_panic _ _ s)
  | ok _ => rfl
  | err => rfl

end Bridge
end Rough

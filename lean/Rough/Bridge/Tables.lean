import Rough.Bridge.Basic
import Rough.Generated.Src.Tag
import Rough.Generated.Src.Version
import Rough.Lemmas.KeysBasic
/-
  Bridge theorems for the two table modules src/tag.rs and src/version.rs.  Other generated modules reach these tables
  through the translator's externs (`Tag.wire`, `Tag.ofWire`, `Tag.isNested`, `Version.wire`, `Version.delePrefix`,
  `Version.srepPrefix`, `Version.supportedWire`); the theorems below show that the functions generated from the Rust
  source are exactly those model tables, which is what justifies the externs.
-/
namespace Rough
namespace Bridge

theorem tag_wire_value_eq (t : Tag) : Gen.Tag.wire_value t = .ok (Tag.wire t) := by
  cases t <;> rfl

theorem tag_is_nested_eq (t : Tag) : Gen.Tag.is_nested t = .ok (Tag.isNested t) := by
  cases t <;> rfl

theorem tag_as_string_eq (t : Tag) : Gen.Tag.as_string t = .ok (Tag.name t) := by
  cases t <;> rfl

/-- every tag is recognised from its own wire value -/
theorem tag_from_wire_wire (t : Tag) : Gen.Tag.from_wire (Tag.wire t) = .ok t := by
  cases t <;> rfl

/-- `Tag::from_wire` returns a tag only for that tag's wire value -/
theorem tag_from_wire_ok (b : Bytes) (t : Tag) (h : Gen.Tag.from_wire b = .ok t) : b = Tag.wire t := by
  unfold Gen.Tag.from_wire at h
  simp only [pure] at h
  split at h <;> first
    | (injection h with h; subst h; rfl)
    | (exact absurd h (by simp))

/-- `Tag::from_wire` never panics -/
theorem tag_from_wire_no_panic (b : Bytes) (s : String) : Gen.Tag.from_wire b ≠ .panic s := by
  unfold Gen.Tag.from_wire
  simp only [pure]
  split <;> simp

/-- hence `Tag::from_wire` is the model's `Tag.ofWire` (error collapsed) on EVERY byte string -/
theorem tag_from_wire_eq (b : Bytes) : Gen.Tag.from_wire b = Rs.ofOpt (Tag.ofWire b) := by
  cases h : Gen.Tag.from_wire b with
  | ok t =>
    have hb := tag_from_wire_ok b t h
    subst hb
    cases t <;> rfl
  | panic s => exact absurd h (tag_from_wire_no_panic b s)
  | err =>
    cases ho : Tag.ofWire b with
    | none => rfl
    | some t =>
      exfalso
      have hw : Tag.wire t = b := by
        unfold Tag.ofWire at ho
        have := List.find?_some ho
        simpa using this
      subst hw
      rw [tag_from_wire_wire] at h
      cases h

theorem version_wire_bytes_eq (v : Version) : Gen.Version.wire_bytes v = .ok (Version.wire v) := by
  cases v <;> rfl

theorem version_dele_prefix_eq (v : Version) : Gen.Version.dele_prefix v = .ok (Version.delePrefix v) := by
  cases v
  · rw [Lemmas.Keys.delePrefix_google]; rfl
  · rw [Lemmas.Keys.delePrefix_ietf]; rfl

theorem version_sign_prefix_eq (v : Version) : Gen.Version.sign_prefix v = .ok (Version.srepPrefix v) := by
  rw [Lemmas.Keys.srepPrefix_eq]
  cases v <;> rfl

theorem version_supported_versions_wire_eq : Gen.Version.supported_versions_wire = .ok Version.supportedWire := by
  rfl

end Bridge
end Rough

import Rough.Bridge.Basic
import Rough.Generated.Src.Envelope
import Rough.Model.Envelope
import Rough.Bridge.EnvelopeLemmas
/-
  Bridge theorem for src/kms/envelope.rs `decrypt_seed`: the parser of the envelope blob (length fields, wrapped key,
  nonce, ciphertext) and the unwrap / AEAD-open sequence generated from the Rust source equal the model `Envelope.decrypt`
  about which C14 (round trip, tamper / wrong key ⇒ AEAD forgery or malleable provider, never a panic) is proved —
  for every AEAD `A`, provider `K` and blob.
-/
namespace Rough
namespace Bridge

theorem decrypt_seed_sim (A : Envelope.Aead) (K : Envelope.Kms) (blob : Bytes) :
    Gen.EnvelopeEncryption.decrypt_seed A K blob ≃ᵣ Envelope.decrypt K A blob := by
  unfold Gen.EnvelopeEncryption.decrypt_seed Envelope.decrypt Envelope.parse
  simp only [Res.bind_eq, Res.pure_eq, gen_min, model_min, strBytes_AD]
  by_cases h64 : blob.length < 64
  · simp only [if_pos h64, Res.bind_err]; exact Res.Sim.refl _
  simp only [if_neg h64]
  have h0 : ¬ (blob.drop 0).length < 2 := by simp only [List.drop_zero]; omega
  have h2 : ¬ (blob.drop 2).length < 2 := by simp only [List.length_drop]; omega
  simp only [Rs.Cursor.new, readU16_ok blob 0 h0, Res.bind_ok, List.drop_zero, Nat.zero_add,
    readU16_ok blob 2 h2, Gen.NONCE_LEN_BYTES]
  by_cases hc : rd16 (blob.drop 2) ≠ 12 ∨ rd16 blob > blob.length
  · simp only [hc, if_true, Res.bind_err]; exact Res.Sim.refl _
  simp only [hc, if_false, vec_zero_filled_eq, Res.bind_ok, vec_zero_filled_len, rep_len]
  simp only [Nat.reduceAdd]
  by_cases h4 : (blob.drop 4).length < rd16 blob
  · simp only [readExact_err blob 4 _ h4, h4, if_true, Res.bind_err]; exact Res.Sim.refl _
  simp only [readExact_ok blob 4 _ h4, h4, if_false, Res.bind_ok]
  have hdd : (blob.drop 4).drop (rd16 blob) = blob.drop (4 + rd16 blob) := by
    rw [List.drop_drop]
  rw [hdd]
  by_cases h12 : (blob.drop (4 + rd16 blob)).length < 12
  · simp only [readExact_err blob _ 12 h12, h12, if_true, Res.bind_err]; exact Res.Sim.refl _
  simp only [readExact_ok blob _ 12 h12, h12, if_false, Res.bind_ok, readToEnd_fst, List.nil_append,
    List.drop_drop]
  cases hu : K.unwrap (List.take (rd16 blob) (List.drop 4 blob)) with
  | none => simp only [Rs.ofOpt, Res.bind_err]; exact Res.Sim.refl _
  | some dek =>
    simp only [Rs.ofOpt, Res.bind_ok, tryIntoArray_eq]
    by_cases hl : dek.length = 32
    · simp only [hl, if_true, Res.bind_ok, ne_eq, not_true_eq_false, if_false]
      cases ho : A.openF dek (List.take 12 (List.drop (4 + rd16 blob) blob)) Envelope.AD
          (List.drop (4 + rd16 blob + 12) blob) with
      | none => exact Res.Sim.refl _
      | some pt => exact Res.Sim.refl _
    · simp only [hl, if_false, Res.bind_err, ne_eq, not_false_eq_true, if_true]; exact Res.Sim.refl _

/-- in particular the generated decryption never panics -/
theorem decrypt_seed_no_panic (A : Envelope.Aead) (K : Envelope.Kms) (blob : Bytes) :
    (Gen.EnvelopeEncryption.decrypt_seed A K blob).isPanic = false := by
  rw [Res.Sim.isPanic_eq (decrypt_seed_sim A K blob)]
  exact decrypt_not_panic K A blob

end Bridge
end Rough

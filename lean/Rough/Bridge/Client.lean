import Rough.Bridge.Message
import Rough.Bridge.Merkle
import Rough.Generated.Src.Client
import Rough.Model.Client
import Rough.Bridge.ClientLemmas
/-
  Bridge theorems for src/bin/roughenough-client.rs: the request builder and the whole response-validation path
  (`ResponseHandler::new`, `extract_time`, `validate_merkle`, `validate_midpoint`, `validate_dele`, `validate_srep`)
  generated from the Rust source equal, up to `≃ᵣ`, the hand-written client model about which C01 (soundness w.r.t.
  the independent authenticity predicate) and C03 (acceptance of honest replies) are proved — for every signature
  scheme `S`, every SHA-512 `H` with 64-byte outputs, every response message, nonce, request and pinned key.
-/
set_option linter.unusedSimpArgs false
namespace Rough
namespace Bridge
open Rough.Client Cl
open Rough.Lemmas.Keys (buildMsg_sorted)

/-- what `extract_time` returns, from the model's outcome (the model additionally carries INDX, read by `main`) -/
def toParsed (o : Client.Outcome) : Gen.ParsedResponse := ⟨o.verified, o.midpoint, o.radius⟩

theorem calc_srv_value_sim (H : Bytes → Bytes) (pk : Bytes) :
    Gen.LongTermKey.calc_srv_value H pk ≃ᵣ calcSrv H pk := by
  unfold Gen.LongTermKey.calc_srv_value calcSrv Rs.slice slice Gen.HASH_PREFIX_SRV
  simp only [Res.pure_eq, Res.bind_eq, List.nil_append, List.singleton_append]
  by_cases h : 0 ≤ 32 ∧ 32 ≤ (H (255 :: pk)).length
  · rw [if_pos h, if_pos h]; exact Res.Sim.refl _
  · rw [if_neg h, if_neg h]; trivial

theorem calc_srv_value_ok (H : Bytes → Bytes) (p : Bytes) (h : 32 ≤ (H (255 :: p)).length) :
    ∃ s, Gen.LongTermKey.calc_srv_value H p = .ok s := by
  unfold Gen.LongTermKey.calc_srv_value Rs.slice Gen.HASH_PREFIX_SRV
  simp only [Res.pure_eq, Res.bind_eq, List.nil_append, List.singleton_append]
  rw [if_pos ⟨by omega, h⟩]
  exact ⟨_, rfl⟩

theorem make_request_google (S : SigScheme) (H : Bytes → Bytes) (nonce : Bytes) (td : Bool)
    (pk : Option Bytes) (sv : Option Bytes)
    (hs : (Rs.optMapM pk fun pk => Gen.LongTermKey.calc_srv_value H pk) = .ok sv) :
    Gen.make_request S H .google nonce td pk ≃ᵣ Client.makeRequest H .google nonce pk := by
  unfold Gen.make_request makeRequest
  simp only [Res.pure_eq, Res.bind_eq, with_capacity_eq, Res.bind_ok, hs,
    if_false, unwrapR_add_field, ite_self,
    Msg.addField, Msg.empty, List.getLast?_nil, List.getLast?_singleton, List.getLast?_cons_cons,
    List.nil_append, List.cons_append, Res.bind_ok, Tag.idx, Nat.reduceLeDiff, reduceIte, clear_eq]
  rw [calculate_padding_length_eq _ (by simp)]
  rw [buildMsg_sorted _ _ (by tags_sorted)]
  simp only [Res.bind_ok, map_zero_range, encode_eq, unwrapR_ok]
  rw [buildMsg_sorted _ _ (by tags_sorted)]
  exact Res.Sim.refl _

theorem make_request_ietf_none (S : SigScheme) (H : Bytes → Bytes) (nonce : Bytes) (td : Bool) :
    Gen.make_request S H .ietf nonce td none ≃ᵣ Client.makeRequest H .ietf nonce none := by
  unfold Gen.make_request makeRequest
  simp only [Res.pure_eq, Res.bind_eq, with_capacity_eq, Res.bind_ok, optMapM_none, Option.isSome_none,
    Bool.false_eq_true, if_false, unwrapR_add_field, ite_self,
    Msg.addField, Msg.empty, List.getLast?_nil, List.getLast?_singleton, List.getLast?_cons_cons,
    List.nil_append, List.cons_append, Res.bind_ok, Tag.idx, Nat.reduceLeDiff, reduceIte, clear_eq]
  rw [calculate_padding_length_eq _ (by simp)]
  rw [buildMsg_sorted _ _ (by tags_sorted)]
  simp only [Res.bind_ok, map_zero_range, encode_framed_eq, unwrapR_ok]
  rw [buildMsg_sorted _ _ (by tags_sorted)]
  exact Res.Sim.refl _

theorem make_request_ietf_some (S : SigScheme) (H : Bytes → Bytes) (nonce : Bytes) (td : Bool) (p : Bytes) :
    Gen.make_request S H .ietf nonce td (some p) ≃ᵣ Client.makeRequest H .ietf nonce (some p) := by
  have hsim := calc_srv_value_sim H p
  unfold Gen.make_request makeRequest
  simp only [Res.pure_eq, Res.bind_eq, with_capacity_eq, Res.bind_ok, optMapM_some]
  cases hm : calcSrv H p with
  | err => 
    have : Gen.LongTermKey.calc_srv_value H p = .err := (Res.Sim.err_iff hsim).mpr hm
    rw [this]; trivial
  | panic s =>
    rw [hm] at hsim
    cases hg : Gen.LongTermKey.calc_srv_value H p with
    | ok a => rw [hg] at hsim; exact hsim.elim
    | err => rw [hg] at hsim; exact hsim.elim
    | panic s' => trivial
  | ok sv =>
    have : Gen.LongTermKey.calc_srv_value H p = .ok sv := (Res.Sim.ok_iff hsim sv).mpr hm
    rw [this]
    simp only [Res.bind_ok, Option.isSome_some, if_true, Rs.unwrapO, unwrapR_add_field, ite_self,
      Msg.addField, Msg.empty, List.getLast?_nil, List.getLast?_singleton, List.getLast?_cons_cons,
      List.nil_append, List.cons_append, Res.bind_ok, Tag.idx, Nat.reduceLeDiff, reduceIte, clear_eq]
    rw [calculate_padding_length_eq _ (by simp)]
    rw [buildMsg_sorted _ _ (by tags_sorted)]
    simp only [Res.bind_ok, map_zero_range, encode_framed_eq, unwrapR_ok]
    rw [buildMsg_sorted _ _ (by tags_sorted)]
    exact Res.Sim.refl _

/-- `make_request` (the `text_dump` flag only prints) under the weakest hypothesis on `H`: the Rust code computes
    `pub_key.map(calc_srv_value)` before the version match, so for the classic protocol with a pinned key the SRV
    slice `[0..32]` of the hash must not panic (the model ignores the key there). -/
theorem make_request_sim_of (S : SigScheme) (H : Bytes → Bytes) (ver : Version) (nonce : Bytes) (td : Bool)
    (pk : Option Bytes) (hsrv : ver = .google → ∀ p, pk = some p → 32 ≤ (H (255 :: p)).length) :
    Gen.make_request S H ver nonce td pk ≃ᵣ Client.makeRequest H ver nonce pk := by
  cases ver with
  | google =>
    cases pk with
    | none => exact make_request_google S H nonce td none none rfl
    | some p =>
      obtain ⟨s, hs⟩ := calc_srv_value_ok H p (hsrv rfl p rfl)
      exact make_request_google S H nonce td (some p) (some s) (by rw [optMapM_some, hs]; rfl)
  | ietf =>
    cases pk with
    | none => exact make_request_ietf_none S H nonce td
    | some p => exact make_request_ietf_some S H nonce td p

/-- `make_request` (the `text_dump` flag only prints), for every SHA-512 `H` with 64-byte outputs. Without `hH` the
    statement is false: `H = fun _ => []`, classic protocol, `pk = some []` makes the generated code panic at
    `longterm.rs:calc_srv_value:slice#1` while the model (which ignores the key for the classic protocol) succeeds. -/
theorem make_request_sim (S : SigScheme) (H : Bytes → Bytes) (hH : ∀ x, (H x).length = 64) (ver : Version)
    (nonce : Bytes) (td : Bool) (pk : Option Bytes) :
    Gen.make_request S H ver nonce td pk ≃ᵣ Client.makeRequest H ver nonce pk :=
  make_request_sim_of S H ver nonce td pk (fun _ p _ => by rw [hH]; omega)

/-- `receive_response` on the client's zeroed 4096-byte receive buffer holding the (possibly truncated) datagram -/
theorem receive_response_sim (S : SigScheme) (H : Bytes → Bytes) (ver : Version) (dg : Bytes) :
    Gen.receive_response S H ver (dg.take 4096 ++ zeros (4096 - (dg.take 4096).length)) (dg.take 4096).length
      ≃ᵣ (Client.receiveResponse ver dg).map toGen := by
  unfold Gen.receive_response Client.receiveResponse
  generalize hd : dg.take 4096 = d
  have hdl : d.length ≤ 4096 := by rw [← hd]; simp; omega
  have hbl : (d ++ zeros (4096 - d.length)).length = 4096 := by simp [zeros]; omega
  cases ver with
  | google =>
    simp only [Res.pure_eq, Res.bind_eq]
    have e1 : ∀ site, Rs.slice (d ++ zeros (4096 - d.length)) 0 d.length site = .ok d := by
      intro site
      unfold Rs.slice
      rw [if_pos ⟨Nat.zero_le _, by omega⟩]
      simp
    rw [e1]
    simp only [Res.bind_ok]
    exact parse_sim _ _ _
  | ietf => 
    simp only [Res.pure_eq, Res.bind_eq]
    rw [verify_framing_eq S H _ hbl]
    generalize d ++ zeros (4096 - d.length) = buf
    by_cases h1 : buf.take 8 ≠ framing
    · rw [if_pos h1, if_pos h1]; trivial
    rw [if_neg h1, if_neg h1]
    by_cases h2 : rd32 (buf.drop 8) > 4096 - 12
    · rw [if_pos h2, if_pos h2]; trivial
    rw [if_neg h2, if_neg h2]
    simp only [Rs.unwrapR, Res.bind_ok]
    refine Sim.bind_mapR ?_ (fun b => parse_sim _ _ _)
    unfold Rs.slice slice
    by_cases h3 : 12 ≤ d.length ∧ d.length ≤ buf.length
    · rw [if_pos h3, if_pos h3]; exact Res.Sim.refl _
    · rw [if_neg h3, if_neg h3]; trivial

/-- `validate_sig` -/
theorem validate_sig_eq (S : SigScheme) (H : Bytes → Bytes) (h : Gen.ResponseHandler) (pk sig data : Bytes) :
    Gen.ResponseHandler.validate_sig S H h pk sig data = validateSig S pk sig data := by
  unfold Gen.ResponseHandler.validate_sig validateSig
  simp only [Res.pure_eq, Res.bind_eq]

/-! the four validation steps, each against the corresponding fragment of the model, in continuation form -/

theorem merkle_tail {β γ : Type} (H : Bytes → Bytes) (hH : ∀ x, (H x).length = 64) (v : Version)
    (index : Nat) (leaf paths : Bytes) (srep : Msg) (k : Unit → Res β) (k' : Res γ) (t : γ → β)
    (hk : k () ≃ᵣ k'.map t) (g1 g2 s4 s5 : String) :
    ((Gen.MerkleTree.root_from_paths H (toGenTree v Merkle.new) index leaf paths).bind fun a =>
        (Rs.mapIdx srep.fields Tag.ROOT g1).bind fun a_1 =>
          (Rs.assert (decide (a = a_1)) g2).bind fun _ => k ()) ≃ᵣ
      Res.map t ((Merkle.rootFromPaths (cfgOf H v) v.isIetf index leaf paths).bind fun hash =>
        (field s4 srep Tag.ROOT).bind fun root => if hash ≠ root then Res.panic s5 else k') := by
  refine Sim.bind_mapR (root_from_paths_sim H hH _ _ _ _ _) (fun hash => ?_)
  refine Sim.bind_mapR (mapIdx_sim _ _ _ _) (fun root => ?_)
  by_cases h : hash = root
  · subst h
    simp only [decide_true, Rs.assert, if_true, Res.bind_ok, ne_eq, not_true_eq_false, if_false]
    exact hk
  · simp only [h, decide_false, Rs.assert, Bool.false_eq_true, if_false, Res.bind_panic, ne_eq, not_false_eq_true,
      if_true]
    trivial

theorem validate_merkle_step {β γ : Type} (S : SigScheme) (H : Bytes → Bytes) (hH : ∀ x, (H x).length = 64)
    (ver : Version) (pk : Option Bytes) (nonce request : Bytes) (msg : Msg) (srepB : Bytes) (srep : Msg)
    (certF deleF : List (Tag × Bytes))
    (hS : msg.get Tag.SREP = some srepB) (hs : fromBytes srepB = .ok srep)
    (k : Unit → Res β) (k' : Nat → Res γ) (t : γ → β) (hk : ∀ index, k () ≃ᵣ (k' index).map t)
    (s1 s2 s3 s4 s5 : String) :
    (Gen.ResponseHandler.validate_merkle S H
        ⟨pk, msg.fields, srep.fields, certF, deleF, nonce, request, ver⟩).bind k ≃ᵣ
      Res.map t ((field s1 msg Tag.INDX).bind fun indxB =>
        (readU32 s2 indxB).bind fun index =>
          (field s3 msg Tag.PATH).bind fun paths =>
            (Merkle.rootFromPaths
                (match ver with
                  | Version.google => ⟨H, 64⟩
                  | Version.ietf => ⟨fun x => (H x).take 32, 32⟩)
                ver.isIetf index
                (match ver with
                  | Version.google => nonce
                  | Version.ietf => request)
                paths).bind fun hash =>
              (field s4 srep Tag.ROOT).bind fun root =>
                if hash ≠ root then Res.panic s5 else k' index) := by
  unfold Gen.ResponseHandler.validate_merkle
  simp only [Res.pure_eq, Res.bind_eq, Res.bind_ok, Cl.bind_assoc, mapIdx_of_get hS, from_bytes_of_ok hs, unwrapR_ok,
    into_hash_map_eq, new_eq]
  refine Sim.bind_mapR (mapIdx_sim _ _ _ _) (fun indxB => ?_)
  refine Sim.bind_mapR (readU32_sim _ _ _) (fun index => ?_)
  refine Sim.bind_mapR (mapIdx_sim _ _ _ _) (fun paths => ?_)
  cases ver with
  | google =>
    have hc := (cfgOf_eq H hH Version.google).symm
    simp only at hc
    simp only [Res.bind_ok, hc]
    exact merkle_tail H hH _ index _ paths srep k (k' index) t (hk index) _ _ _ _
  | ietf =>
    have hc := (cfgOf_eq H hH Version.ietf).symm
    simp only at hc
    simp only [Res.bind_ok, hc]
    exact merkle_tail H hH _ index _ paths srep k (k' index) t (hk index) _ _ _ _

theorem validate_midpoint_step {β γ : Type} (S : SigScheme) (H : Bytes → Bytes)
    (ver : Version) (pk : Option Bytes) (nonce request : Bytes) (dele : Msg) (midpoint : Nat)
    (msgF srepF certF : List (Tag × Bytes))
    (k : Unit → Res β) (k' : Res γ) (t : γ → β) (hk : k () ≃ᵣ k'.map t)
    (s1 s2 s3 s4 s5 s6 : String) :
    (Gen.ResponseHandler.validate_midpoint S H
        ⟨pk, msgF, srepF, certF, dele.fields, nonce, request, ver⟩ midpoint).bind k ≃ᵣ
      Res.map t ((field s1 dele Tag.MINT).bind fun mintB =>
        (readU64 s2 mintB).bind fun mint =>
          (field s3 dele Tag.MAXT).bind fun maxtB =>
            (readU64 s4 maxtB).bind fun maxt =>
              if midpoint < mint then Res.panic s5
              else if midpoint > maxt then Res.panic s6 else k') := by
  unfold Gen.ResponseHandler.validate_midpoint
  simp only [Res.pure_eq, Res.bind_eq, Res.bind_ok, Cl.bind_assoc]
  refine Sim.bind_mapR (mapIdx_sim _ _ _ _) (fun mintB => ?_)
  refine Sim.bind_mapR (readU64_sim _ _ _) (fun mint => ?_)
  refine Sim.bind_mapR (mapIdx_sim _ _ _ _) (fun maxtB => ?_)
  refine Sim.bind_mapR (readU64_sim _ _ _) (fun maxt => ?_)
  by_cases h1 : midpoint < mint
  · have : ¬ midpoint ≥ mint := by omega
    simp only [this, h1, decide_false, Rs.assert, Bool.false_eq_true, if_false, if_true, Res.bind_panic]
    trivial
  · have h1' : midpoint ≥ mint := by omega
    by_cases h2 : midpoint > maxt
    · have : ¬ midpoint ≤ maxt := by omega
      simp only [this, h1, h1', h2, decide_false, decide_true, Rs.assert, Bool.false_eq_true, if_false, if_true,
        Res.bind_panic, Res.bind_ok]
      trivial
    · have h2' : midpoint ≤ maxt := by omega
      simp only [h1, h1', h2, h2', decide_true, Rs.assert, if_false, if_true, Res.bind_ok]
      exact hk

theorem validate_dele_step {β : Type} (S : SigScheme) (H : Bytes → Bytes)
    (ver : Version) (p : Bytes) (nonce request : Bytes) (cert : Msg) (deleB : Bytes)
    (msgF srepF deleF : List (Tag × Bytes)) (hD : cert.get Tag.DELE = some deleB)
    (k : Unit → Res β) (k' : Res β) (hk : k () ≃ᵣ k')
    (s1 s2 : String) :
    (Gen.ResponseHandler.validate_dele S H
        ⟨some p, msgF, srepF, cert.fields, deleF, nonce, request, ver⟩).bind k ≃ᵣ
      (field s1 cert Tag.SIG).bind fun certSig =>
        (validateSig S p certSig (ver.delePrefix ++ deleB)).bind fun okDele =>
          if ¬ okDele then Res.panic s2 else k' := by
  unfold Gen.ResponseHandler.validate_dele
  simp only [Res.pure_eq, Res.bind_eq, Res.bind_ok, Cl.bind_assoc, Rs.unwrapO, mapIdx_of_get hD]
  refine Res.Sim.bind (mapIdx_sim _ _ _ _) (fun certSig => ?_)
  rw [validate_sig_eq]
  refine Res.Sim.bind (Res.Sim.refl _) (fun okDele => ?_)
  cases okDele
  · simp only [Bool.false_eq_true, if_false, Res.bind_panic, not_false_eq_true, if_true]; trivial
  · simp only [if_true, Res.bind_ok, not_true_eq_false, if_false]; exact hk

theorem validate_srep_step {β : Type} (S : SigScheme) (H : Bytes → Bytes)
    (ver : Version) (pk : Option Bytes) (nonce request : Bytes) (msg dele : Msg) (srepB : Bytes)
    (srepF certF : List (Tag × Bytes)) (hS : msg.get Tag.SREP = some srepB)
    (k : Unit → Res β) (k' : Res β) (hk : k () ≃ᵣ k')
    (s1 s2 s3 : String) :
    (Gen.ResponseHandler.validate_srep S H
        ⟨pk, msg.fields, srepF, certF, dele.fields, nonce, request, ver⟩).bind k ≃ᵣ
      (field s1 dele Tag.PUBK).bind fun pubk =>
        (field s2 msg Tag.SIG).bind fun sig =>
          (validateSig S pubk sig (ver.srepPrefix ++ srepB)).bind fun okSrep =>
            if ¬ okSrep then Res.panic s3 else k' := by
  unfold Gen.ResponseHandler.validate_srep
  simp only [Res.pure_eq, Res.bind_eq, Res.bind_ok, Cl.bind_assoc, mapIdx_of_get hS]
  refine Res.Sim.bind (mapIdx_sim _ _ _ _) (fun pubk => ?_)
  refine Res.Sim.bind (mapIdx_sim _ _ _ _) (fun sig => ?_)
  rw [validate_sig_eq]
  refine Res.Sim.bind (Res.Sim.refl _) (fun okSrep => ?_)
  cases okSrep
  · simp only [Bool.false_eq_true, if_false, Res.bind_panic, not_false_eq_true, if_true]; trivial
  · simp only [if_true, Res.bind_ok, not_true_eq_false, if_false]; exact hk

/-- `extract_time` on the handler `new` builds from successfully parsed SREP / CERT / DELE -/
theorem extract_sim (S : SigScheme) (H : Bytes → Bytes) (hH : ∀ x, (H x).length = 64) (ver : Version)
    (pk : Option Bytes) (nonce request : Bytes) (msg : Msg) (srepB certB deleB : Bytes) (srep cert dele : Msg)
    (hS : msg.get Tag.SREP = some srepB) (hs : fromBytes srepB = .ok srep)
    (hC : msg.get Tag.CERT = some certB) (hc : fromBytes certB = .ok cert)
    (hD : cert.get Tag.DELE = some deleB) (hd : fromBytes deleB = .ok dele) :
    Gen.ResponseHandler.extract_time S H
        ⟨pk, msg.fields, srep.fields, cert.fields, dele.fields, nonce, request, ver⟩
      ≃ᵣ (Client.handleParsed S H ver pk nonce request msg).map toParsed := by
  unfold handleParsed
  simp only [field_of_get hS, field_of_get hC, field_of_get hD, fromBytesUnwrap_of hs, fromBytesUnwrap_of hc,
    fromBytesUnwrap_of hd, Res.bind_ok]
  unfold Gen.ResponseHandler.extract_time
  simp only [Res.pure_eq, Res.bind_eq, Res.bind_ok, Cl.bind_assoc]
  refine Sim.bind_mapR (mapIdx_sim _ _ _ _) (fun midpB => ?_)
  refine Sim.bind_mapR (readU64_sim _ _ _) (fun midpoint => ?_)
  refine Sim.bind_mapR (mapIdx_sim _ _ _ _) (fun radiB => ?_)
  refine Sim.bind_mapR (readU32_sim _ _ _) (fun radius => ?_)
  refine validate_merkle_step S H hH ver pk nonce request msg srepB srep _ _ hS hs _ _ _ (fun index => ?_) _ _ _ _ _
  refine validate_midpoint_step S H ver pk nonce request dele midpoint _ _ _ _ _ _ ?_ _ _ _ _ _ _
  refine Sim.bind_mapR ?_ (fun verified => Res.Sim.refl _)
  cases pk with
  | none => exact Res.Sim.refl _
  | some p =>
    simp only [Option.isSome_some, if_true]
    refine validate_dele_step S H ver p nonce request cert deleB _ _ _ hD _ _ ?_ _ _
    exact validate_srep_step S H ver (some p) nonce request msg dele srepB _ _ hS _ _ (Res.Sim.refl _) _ _ _

/-- The whole validation path: `ResponseHandler::new(..)` followed by `extract_time()` accepts exactly the responses
    the client model accepts, with the same verified flag, midpoint and radius; otherwise both panic (the process
    exits 101 without printing a time). -/
theorem handle_sim (S : SigScheme) (H : Bytes → Bytes) (hH : ∀ x, (H x).length = 64) (ver : Version)
    (pk : Option Bytes) (nonce request : Bytes) (msg : Msg) :
    ((Gen.ResponseHandler.new S H ver pk (toGen msg) nonce request).bind
        fun h => Gen.ResponseHandler.extract_time S H h)
      ≃ᵣ (Client.handleParsed S H ver pk nonce request msg).map toParsed := by
  unfold Gen.ResponseHandler.new
  simp only [Res.pure_eq, Res.bind_eq, into_hash_map_eq, Res.bind_ok, Cl.bind_assoc]
  -- SREP
  cases hS : msg.get Tag.SREP with
  | none =>
    obtain ⟨s, hs⟩ := field_of_none hS "client:msg"
    rw [mapIdx_of_none hS]
    unfold handleParsed
    rw [hs]
    trivial
  | some srepB =>
  rw [mapIdx_of_get hS, Res.bind_ok]
  rcases parse_cases srepB "roughenough-client.rs:new:unwrap#1" "client:new:SREP.from_bytes.unwrap" with
    ⟨srep, hs⟩ | ⟨⟨s, hg⟩, ⟨s', hm⟩⟩
  case inr =>
    rw [hg]
    unfold handleParsed
    rw [field_of_get hS, Res.bind_ok, hm]
    trivial
  rw [from_bytes_of_ok hs, unwrapR_ok, Res.bind_ok, into_hash_map_eq, Res.bind_ok]
  -- CERT
  cases hC : msg.get Tag.CERT with
  | none =>
    obtain ⟨s, hc⟩ := field_of_none hC "client:msg"
    rw [mapIdx_of_none hC]
    unfold handleParsed
    rw [field_of_get hS, Res.bind_ok, fromBytesUnwrap_of hs, Res.bind_ok, hc]
    trivial
  | some certB =>
  rw [mapIdx_of_get hC, Res.bind_ok]
  rcases parse_cases certB "roughenough-client.rs:new:unwrap#2" "client:new:CERT.from_bytes.unwrap" with
    ⟨cert, hc⟩ | ⟨⟨s, hg⟩, ⟨s', hm⟩⟩
  case inr =>
    rw [hg]
    unfold handleParsed
    rw [field_of_get hS, Res.bind_ok, fromBytesUnwrap_of hs, Res.bind_ok, field_of_get hC, Res.bind_ok, hm]
    trivial
  rw [from_bytes_of_ok hc, unwrapR_ok, Res.bind_ok, into_hash_map_eq, Res.bind_ok]
  -- DELE
  cases hD : cert.get Tag.DELE with
  | none =>
    obtain ⟨s, hd⟩ := field_of_none hD "client:cert"
    rw [mapIdx_of_none hD]
    unfold handleParsed
    rw [field_of_get hS, Res.bind_ok, fromBytesUnwrap_of hs, Res.bind_ok, field_of_get hC, Res.bind_ok,
      fromBytesUnwrap_of hc, Res.bind_ok, hd]
    trivial
  | some deleB =>
  rw [mapIdx_of_get hD, Res.bind_ok]
  rcases parse_cases deleB "roughenough-client.rs:new:unwrap#3" "client:new:DELE.from_bytes.unwrap" with
    ⟨dele, hd⟩ | ⟨⟨s, hg⟩, ⟨s', hm⟩⟩
  case inr =>
    rw [hg]
    unfold handleParsed
    rw [field_of_get hS, Res.bind_ok, fromBytesUnwrap_of hs, Res.bind_ok, field_of_get hC, Res.bind_ok,
      fromBytesUnwrap_of hc, Res.bind_ok, field_of_get hD, Res.bind_ok, hm]
    trivial
  rw [from_bytes_of_ok hd, unwrapR_ok, Res.bind_ok, into_hash_map_eq, Res.bind_ok]
  exact extract_sim S H hH ver pk nonce request msg srepB certB deleB srep cert dele hS hs hC hc hD hd

end Bridge
end Rough

import Rough.Bridge.Stats
import Rough.Generated.Src.Reporter
/-
  Bridge theorems for src/stats/reporter.rs: `Reporter::receive_client_stats` generated from the Rust source drains the
  queue of published snapshots and merges every entry into the reporter's map exactly as the model's
  `Stats.reporterReceive` does (about which C17's merge / pipeline theorems are proved) — for every queue content and
  every map without duplicate addresses (the hash-map invariant, which the function preserves).
-/
namespace Rough
namespace Bridge
open Rough.Stats

/-- a published snapshot (`Vec<ClientStats>`) of model entries -/
def toGenSnap (snap : List (Addr × Counters)) : List Gen.ClientStats := snap.map fun p => toGenClient p.1 p.2

/-- the reporter's map of model entries -/
def toGenRepMap (acc : List (Addr × Counters)) : List (Nat × Gen.ClientStats) := acc.map fun p => (p.1, toGenClient p.1 p.2)

/-! ### helper lemmas (in `Rough.Bridge.ReporterAux`, so that their names cannot clash with other bridge files) -/
namespace ReporterAux
open StatsAux

/-- merging one snapshot into the map (the inner fold of `reporterReceive`) -/
def mergeSnap (acc snap : List (Addr × Counters)) : List (Addr × Counters) :=
  snap.foldl (fun acc (p : Addr × Counters) => PerClient.upsert acc p.1 (fun c => c.merge p.2)) acc

theorem reporterReceive_nil (acc : List (Addr × Counters)) : reporterReceive acc [] = acc := rfl

theorem reporterReceive_cons (acc snap : List (Addr × Counters)) (q : List (List (Addr × Counters))) :
    reporterReceive acc (snap :: q) = reporterReceive (mergeSnap acc snap) q := rfl

theorem mergeSnap_nodup (snap acc : List (Addr × Counters)) (h : (acc.map (·.1)).Nodup) :
    ((mergeSnap acc snap).map (·.1)).Nodup := by
  induction snap generalizing acc with
  | nil => exact h
  | cons p rest ih => exact ih _ (upsert_keys_nodup acc p.1 _ h)

theorem whileFuel_succ_true {σ : Type} (n : Nat) (s : σ) (c : σ → Res Bool) (f : σ → Res (Rs.Step σ))
    (h : c s = .ok true) : Rs.whileFuel (n + 1) s c f =
      match f s with
      | .ok (.next s') => Rs.whileFuel n s' c f
      | .ok (.brk s') => .ok s'
      | .err => .err
      | .panic p => .panic p := by
  rw [Rs.whileFuel, h]
  rfl

theorem ip_addr_toGenClient (a : Addr) (c : Counters) : (toGenClient a c).ip_addr = a := rfl

theorem find_not_mem (l : List (Addr × Counters)) (a : Addr) (h : a ∉ l.map (·.1)) :
    (toGenRepMap l).find? (fun e => e.1 == a) = none := by
  induction l with
  | nil => rfl
  | cons p rest ih =>
    simp only [List.map_cons, List.mem_cons, not_or] at h
    have hne : ¬ p.1 = a := fun e => h.1 e.symm
    have ih' := ih h.2
    unfold toGenRepMap at ih' ⊢
    have hb : (p.1 == a) = false := by simpa using hne
    simp only [List.map_cons, List.find?_cons, ih', hb]

theorem modify_not_mem' (l : List (Addr × Counters)) (a : Addr) (F : Gen.ClientStats → Gen.ClientStats)
    (h : a ∉ l.map (·.1)) : Rs.mapModify (toGenRepMap l) a F = toGenRepMap l :=
  modify_not_mem l a F h

theorem any_key (l : List (Addr × Counters)) (a : Addr) :
    (toGenRepMap l).any (fun e => e.1 == a) = decide (a ∈ l.map (·.1)) :=
  any_key_map l a

/-- a tracked address: the lookup finds its record and overwriting it with the merged record is the model's `upsert` -/
theorem idx_modify_mem (l : List (Addr × Counters)) (a : Addr) (d : Counters)
    (hn : (l.map (·.1)).Nodup) (h : a ∈ l.map (·.1)) :
    ∃ c, (toGenRepMap l).find? (fun e => e.1 == a) = some (a, toGenClient a c) ∧
      Rs.mapModify (toGenRepMap l) a (fun _ => toGenClient a (c.merge d)) =
        toGenRepMap (PerClient.upsert l a (fun c => c.merge d)) := by
  induction l with
  | nil => simp at h
  | cons p rest ih =>
    obtain ⟨b, c⟩ := p
    simp only [List.map_cons, List.nodup_cons] at hn
    simp only [List.map_cons, List.mem_cons] at h
    by_cases hab : a = b
    · subst hab
      refine ⟨c, ?_, ?_⟩
      · simp [toGenRepMap]
      · have hrest := modify_not_mem' rest a (fun _ => toGenClient a (c.merge d)) hn.1
        unfold PerClient.upsert
        unfold Rs.mapModify toGenRepMap at hrest ⊢
        simp only [List.map_cons, hrest]
        simp
    · have hmem : a ∈ rest.map (·.1) := by
        rcases h with h | h
        · exact absurd h hab
        · exact h
      obtain ⟨c', h1, h2⟩ := ih hn.2 hmem
      have hba : ¬ b = a := fun e => hab e.symm
      refine ⟨c', ?_, ?_⟩
      · unfold toGenRepMap at h1 ⊢
        have hb : (b == a) = false := by simpa using hba
        simp only [List.map_cons, List.find?_cons, h1, hb]
      · unfold PerClient.upsert
        unfold Rs.mapModify toGenRepMap at h2 ⊢
        simp only [List.map_cons, h2]
        simp [hab, hba]

/-- `entry(addr).or_insert_with(new)`, reading the record back and overwriting it with the merged record -/
theorem idx_modify_ensure (l : List (Addr × Counters)) (a : Addr) (d : Counters) (site : String)
    (hn : (l.map (·.1)).Nodup) :
    ∃ c, Rs.mapIdx (Rs.mapEnsure (toGenRepMap l) a (toGenClient a Counters.zero)) a site = .ok (toGenClient a c) ∧
      Rs.mapModify (Rs.mapEnsure (toGenRepMap l) a (toGenClient a Counters.zero)) a
          (fun _ => toGenClient a (c.merge d)) =
        toGenRepMap (PerClient.upsert l a (fun c => c.merge d)) := by
  unfold Rs.mapEnsure Rs.mapIdx
  rw [any_key]
  by_cases h : a ∈ l.map (·.1)
  · simp only [h, decide_true, if_true]
    obtain ⟨c, h1, h2⟩ := idx_modify_mem l a d hn h
    exact ⟨c, by rw [h1], h2⟩
  · simp only [h, decide_false, Bool.false_eq_true, if_false]
    refine ⟨Counters.zero, ?_, ?_⟩
    · rw [List.find?_append, find_not_mem l a h]
      simp
    · rw [upsert_not_mem l a _ h]
      have hm := modify_not_mem' l a (fun _ => toGenClient a (Counters.zero.merge d)) h
      unfold Rs.mapModify at hm ⊢
      rw [List.map_append, hm]
      simp [toGenRepMap]

/-- the `for client in stats` loop, for any body that does what the generated one does to the reporter; the second
    component of the loop state (the `num_processed` counter, which only feeds a log line) may be changed by the body in
    any way whatsoever -/
theorem inner_loop (body : Gen.ClientStats → Gen.Reporter × Nat → Res (Rs.Step (Gen.Reporter × Nat)))
    (hbody : ∀ (a : Addr) (d : Counters) (acc : List (Addr × Counters)) (sq : List (List Gen.ClientStats)) (n : Nat),
      (acc.map (·.1)).Nodup →
      ∃ n', body (toGenClient a d) (⟨sq, toGenRepMap acc⟩, n) =
        .ok (.next (⟨sq, toGenRepMap (PerClient.upsert acc a (fun c => c.merge d))⟩, n')))
    (snap acc : List (Addr × Counters)) (sq : List (List Gen.ClientStats)) (n : Nat)
    (h : (acc.map (·.1)).Nodup) :
    ∃ n', Rs.forList (toGenSnap snap) (⟨sq, toGenRepMap acc⟩, n) body =
      .ok (⟨sq, toGenRepMap (mergeSnap acc snap)⟩, n') := by
  induction snap generalizing acc n with
  | nil => exact ⟨n, rfl⟩
  | cons p rest ih =>
    obtain ⟨n1, h1⟩ := hbody p.1 p.2 acc sq n h
    obtain ⟨n2, h2⟩ := ih _ n1 (upsert_keys_nodup acc p.1 _ h)
    refine ⟨n2, ?_⟩
    unfold toGenSnap at h2 ⊢
    rw [List.map_cons, Rs.forList_cons, h1]
    simp only []
    rw [h2]
    simp only [mergeSnap, List.foldl_cons]

/-- the inner loop followed by the rest of the outer loop's body `k`: it is `k` on the merged map and some counter -/
theorem inner_loop_bind {β : Type} (body : Gen.ClientStats → Gen.Reporter × Nat → Res (Rs.Step (Gen.Reporter × Nat)))
    (hbody : ∀ (a : Addr) (d : Counters) (acc : List (Addr × Counters)) (sq : List (List Gen.ClientStats)) (n : Nat),
      (acc.map (·.1)).Nodup →
      ∃ n', body (toGenClient a d) (⟨sq, toGenRepMap acc⟩, n) =
        .ok (.next (⟨sq, toGenRepMap (PerClient.upsert acc a (fun c => c.merge d))⟩, n')))
    (k : Gen.Reporter × Nat → Res β)
    (snap acc : List (Addr × Counters)) (sq : List (List Gen.ClientStats)) (n : Nat)
    (h : (acc.map (·.1)).Nodup) :
    ∃ n', (Rs.forList (toGenSnap snap) (⟨sq, toGenRepMap acc⟩, n) body).bind k =
      k (⟨sq, toGenRepMap (mergeSnap acc snap)⟩, n') := by
  obtain ⟨n', hn'⟩ := inner_loop body hbody snap acc sq n h
  exact ⟨n', by rw [hn', Res.bind_ok]⟩

/-- the `while let Some(stats) = queue.pop()` loop, for any condition / body that do what the generated ones do to the
    reporter (whatever they do to the counter) -/
theorem outer_loop (c : Gen.Reporter × Nat → Res Bool) (f : Gen.Reporter × Nat → Res (Rs.Step (Gen.Reporter × Nat)))
    (hc : ∀ s, c s = .ok true)
    (hnil : ∀ m n, ∃ n', f (⟨[], m⟩, n) = .ok (.brk (⟨[], m⟩, n')))
    (hcons : ∀ (snap : List (Addr × Counters)) (sq : List (List Gen.ClientStats)) (acc : List (Addr × Counters)) (n : Nat),
      (acc.map (·.1)).Nodup →
      ∃ n', f (⟨toGenSnap snap :: sq, toGenRepMap acc⟩, n) =
        .ok (.next (⟨sq, toGenRepMap (mergeSnap acc snap)⟩, n')))
    (q : List (List (Addr × Counters))) (acc : List (Addr × Counters)) (n fuel : Nat)
    (hfuel : q.length < fuel) (h : (acc.map (·.1)).Nodup) :
    ∃ n', Rs.whileFuel fuel (⟨q.map toGenSnap, toGenRepMap acc⟩, n) c f =
      .ok (⟨[], toGenRepMap (reporterReceive acc q)⟩, n') := by
  induction q generalizing acc n fuel with
  | nil =>
    obtain ⟨k, rfl⟩ : ∃ k, fuel = k + 1 := ⟨fuel - 1, by simp only [List.length_nil] at hfuel; omega⟩
    obtain ⟨n', hn'⟩ := hnil (toGenRepMap acc) n
    refine ⟨n', ?_⟩
    rw [List.map_nil, whileFuel_succ_true _ _ _ _ (hc _), hn']
    rfl
  | cons snap rest ih =>
    obtain ⟨k, rfl⟩ : ∃ k, fuel = k + 1 := ⟨fuel - 1, by omega⟩
    simp only [List.length_cons] at hfuel
    obtain ⟨n1, hn1⟩ := hcons snap (rest.map toGenSnap) acc n h
    obtain ⟨n', hn'⟩ := ih (mergeSnap acc snap) n1 k (by omega) (mergeSnap_nodup snap acc h)
    refine ⟨n', ?_⟩
    rw [List.map_cons, whileFuel_succ_true _ _ _ _ (hc _), hn1]
    simp only []
    rw [hn', reporterReceive_cons]

/-- the whole function, for any initial counter / loop condition / loop body / epilogue that do what the generated ones
    do to the reporter -/
theorem drain_shape (c : Gen.Reporter × Nat → Res Bool) (f : Gen.Reporter × Nat → Res (Rs.Step (Gen.Reporter × Nat)))
    (K : Gen.Reporter × Nat → Res Gen.Reporter)
    (hc : ∀ s, c s = .ok true)
    (hnil : ∀ m n, ∃ n', f (⟨[], m⟩, n) = .ok (.brk (⟨[], m⟩, n')))
    (hcons : ∀ (snap : List (Addr × Counters)) (sq : List (List Gen.ClientStats)) (acc : List (Addr × Counters)) (n : Nat),
      (acc.map (·.1)).Nodup →
      ∃ n', f (⟨toGenSnap snap :: sq, toGenRepMap acc⟩, n) =
        .ok (.next (⟨sq, toGenRepMap (mergeSnap acc snap)⟩, n')))
    (hK : ∀ r n, K (r, n) = .ok r)
    (q : List (List (Addr × Counters))) (acc : List (Addr × Counters)) (n0 fuel : Nat)
    (hfuel : q.length < fuel) (h : (acc.map (·.1)).Nodup) :
    (Rs.whileFuel fuel (⟨q.map toGenSnap, toGenRepMap acc⟩, n0) c f).bind K =
      .ok ⟨[], toGenRepMap (reporterReceive acc q)⟩ := by
  obtain ⟨n', hn'⟩ := outer_loop c f hc hnil hcons q acc n0 fuel hfuel h
  rw [hn', Res.bind_ok, hK]

end ReporterAux
open ReporterAux

/-- merging keeps the map free of duplicate addresses -/
theorem reporterReceive_nodup (acc : List (Addr × Counters)) (q : List (List (Addr × Counters)))
    (h : (acc.map (·.1)).Nodup) : ((reporterReceive acc q).map (·.1)).Nodup := by
  induction q generalizing acc with
  | nil => exact h
  | cons snap rest ih =>
    rw [reporterReceive_cons]
    exact ih _ (mergeSnap_nodup snap acc h)

/-- `Reporter::receive_client_stats`: the queue is drained (oldest snapshot first) and the map is the model's -/
theorem receive_client_stats_eq (acc : List (Addr × Counters)) (q : List (List (Addr × Counters)))
    (h : (acc.map (·.1)).Nodup) :
    Gen.Reporter.receive_client_stats ⟨q.map toGenSnap, toGenRepMap acc⟩ =
      .ok ⟨[], toGenRepMap (reporterReceive acc q)⟩ := by
  unfold Gen.Reporter.receive_client_stats
  simp only [Res.bind_eq, Res.pure_eq]
  refine drain_shape _ _ _ ?_ ?_ ?_ ?_ q acc _ _ (by simp) h
  · intro s
    simp
  · intro m n
    exact ⟨_, rfl⟩
  · intro snap sq acc n hn
    simp only [List.head?_cons, List.tail_cons]
    refine inner_loop_bind _ ?_ _ snap acc sq n hn
    intro a d acc sq n hn
    obtain ⟨c, h1, h2⟩ := idx_modify_ensure acc a d "reporter.rs:receive_client_stats:entry#1" hn
    simp only [ip_addr_toGenClient, StatsAux.client_new_eq, Res.bind_ok, h1, client_stats_merge_eq, h2]
    exact ⟨_, rfl⟩
  · intro r n
    simp only []
    split <;> rfl

end Bridge
end Rough

import Rough.Bridge.Basic
import Rough.Generated.Src.Message
import Rough.Lemmas.Codec
/-
  Bridge theorems for src/message.rs: every function generated from the Rust source equals (up to `≃ᵣ`) the
  hand-written model function that the property theorems (C05, C06, C07, C08, C12 …) are about — for ALL inputs.
  The generated file is rewritten from /repo on every run, so these proofs are re-checked against what the code says
  now; a change of behaviour in message.rs makes one of them fail.
-/
namespace Rough
namespace Bridge

/-- the generated `RtMessage` (two parallel vectors) of a model message -/
def toGen (m : Msg) : Gen.RtMessage := ⟨m.tags, m.values⟩
/-- and back -/
def ofGen (g : Gen.RtMessage) : Msg := ⟨g.tags.zip g.values⟩

theorem ofGen_toGen (m : Msg) : ofGen (toGen m) = m := by
  cases m with
  | mk fields =>
    simp only [ofGen, toGen, Msg.tags, Msg.values]
    congr 1
    induction fields with
    | nil => rfl
    | cons f fs ih => simp [ih]

theorem forList_pure {α σ} (f : α → σ → σ) (xs : List α) (s : σ) :
    Rs.forList xs s (fun x s => Res.ok (Rs.Step.next (f x s))) = .ok (xs.foldl (fun s x => f x s) s) := by
  induction xs generalizing s with
  | nil => rfl
  | cons x xs ih => rw [Rs.forList_cons]; simp only [List.foldl_cons]; exact ih _

/-- `RtMessage::with_capacity` builds the empty message whatever the capacity -/
theorem with_capacity_eq (n : Nat) : Gen.RtMessage.with_capacity n = .ok (toGen Msg.empty) := by
  rfl

/-- `RtMessage::add_field` -/
theorem add_field_eq (m : Msg) (t : Tag) (v : Bytes) :
    Gen.RtMessage.add_field (toGen m) t v = Rs.ofOpt ((m.addField t v).map toGen) := by
  unfold Gen.RtMessage.add_field
  simp only [Res.pure_eq, Res.bind_eq, toGen, Msg.addField, Msg.tags, Msg.values, List.getLast?_map]
  cases h : m.fields.getLast? with
  | none => 
    have : m.fields = [] := by simpa using h
    simp [Rs.ofOpt, this, toGen, Msg.tags, Msg.values]
  | some p =>
    obtain ⟨lt, lv⟩ := p
    simp only [Option.map_some, Tag.le_def]
    by_cases hc : t.idx ≤ lt.idx <;> simp [hc, Rs.ofOpt, Msg.tags, Msg.values, toGen]

/-- `RtMessage::num_fields` (a `u32`) -/
theorem num_fields_eq (m : Msg) : Gen.RtMessage.num_fields (toGen m) = .ok (m.numFields % 4294967296) := by
  simp [Gen.RtMessage.num_fields, toGen, Msg.numFields]

/-- `RtMessage::encoded_size` -/
theorem encoded_size_eq (m : Msg) : Gen.RtMessage.encoded_size (toGen m) = .ok (encodedSize m) := by
  unfold Gen.RtMessage.encoded_size
  simp only [Res.pure_eq, Res.bind_eq, toGen, Lemmas.tags_length, encodedSize, Rs.sub]
  by_cases h : m.fields.length < 2
  · simp [h]
  · have : 1 ≤ m.fields.length := by omega
    simp [h, this]

/-- `RtMessage::calculate_padding_length`: the model's value whenever the Rust subtraction `padding_needed -= 4`
    does not underflow (it cannot for a message of 4-byte aligned values: sizes are multiples of 4). -/
theorem calculate_padding_length_eq (m : Msg)
    (h : ¬ (m.fields.length = 1 ∧ 1020 < encodedSize m ∧ encodedSize m < 1024)) :
    Gen.RtMessage.calculate_padding_length (toGen m) = .ok (paddingLength m, toGen m) := by
  unfold Gen.RtMessage.calculate_padding_length
  simp only [Res.pure_eq, Res.bind_eq, encoded_size_eq, Res.bind_ok, paddingLength]
  have ht : (toGen m).tags.length = m.fields.length := by simp [toGen]
  rw [ht]
  by_cases h1 : encodedSize m ≥ 1024
  · simp [h1]
  · have h2 : encodedSize m ≤ 1024 := by omega
    simp only [h1, if_false, Rs.sub, h2, if_true, Res.bind_ok]
    by_cases h3 : m.fields.length = 1
    · have : 4 ≤ 1024 - encodedSize m := by omega
      simp [h3, this]
    · simp [h3]


theorem get_loop (t : Tag) (vals : List Bytes) (site : String) (suf : List (Tag × Bytes)) (k : Nat)
    (hv : vals.drop k = suf.map (·.2)) :
    Rs.forListR ((List.range' k suf.length).zip (suf.map (·.1))) ()
      (fun x (_ : Unit) => if t = x.snd then (Rs.idx vals x.fst site).bind fun v => Res.ok (Rs.Flow.ret (some v))
        else Res.ok (Rs.Flow.next ()))
      = .ok (match suf.find? (fun f => f.1 == t) with
             | some f => Rs.Flow.ret (some f.2)
             | none => Rs.Flow.next ()) := by
  induction suf generalizing k with
  | nil => rfl
  | cons f fs ih =>
    have h1 : vals[k]? = some f.2 := by
      have := congrArg List.head? hv
      simpa [List.head?_drop] using this
    have h2 : vals.drop (k + 1) = fs.map (·.2) := by
      have := congrArg List.tail hv
      simpa [List.tail_drop] using this
    simp only [List.length_cons, List.range'_succ, List.map_cons, List.zip_cons_cons, Rs.forListR_cons,
      List.find?_cons]
    by_cases hc : t = f.1
    · subst hc; simp [Rs.idx, h1]
    · have hc' : (f.1 == t) = false := by simpa using fun h => hc h.symm
      simp only [hc, if_false, hc']
      exact ih (k + 1) h2

/-- `RtMessage::get_field` never fails and returns the model's lookup -/
theorem get_field_eq (m : Msg) (t : Tag) : Gen.RtMessage.get_field (toGen m) t = .ok (m.get t) := by
  unfold Gen.RtMessage.get_field
  simp only [Res.pure_eq, Res.bind_eq, Rs.enumerate, List.range_eq_range', toGen, Msg.tags, List.length_map]
  rw [get_loop t _ _ m.fields 0 (by simp [Msg.values])]
  simp only [Res.bind_ok, Msg.get]
  cases m.fields.find? (fun f => f.1 == t) <;> rfl

theorem offsets_loop (ws : List Bytes) : ∀ (v : Bytes) (acc : Nat) (out : Bytes),
    (ws.foldl (fun (s : Bytes × Nat) (x : Bytes) => (s.fst ++ le32 s.snd, s.snd + x.length))
      (out, acc + v.length)).1 = out ++ (offsetsFrom acc (v :: ws)).flatMap le32 := by
  induction ws with
  | nil => intro v acc out; simp [offsetsFrom]
  | cons w ws ih =>
    intro v acc out
    simp only [List.foldl_cons, offsetsFrom, List.flatMap_cons]
    rw [ih w (acc + v.length)]
    simp

theorem tags_loop (ts : List Tag) (out : Bytes) :
    ts.foldl (fun out (tag : Tag) => out ++ tag.wire) out = out ++ ts.flatMap Tag.wire := by
  induction ts generalizing out with
  | nil => simp
  | cons t ts ih => simp [ih]

theorem values_loop (vs : List Bytes) (out : Bytes) :
    vs.foldl (fun out (v : Bytes) => out ++ v) out = out ++ vs.flatten := by
  induction vs generalizing out with
  | nil => simp
  | cons t ts ih => simp [ih]

/-- `RtMessage::encode`: the internal `assert_eq!` never fires and the bytes are the model's -/
theorem encode_eq (m : Msg) : Gen.RtMessage.encode (toGen m) = .ok (encode m) := by
  unfold Gen.RtMessage.encode
  simp only [Res.pure_eq, Res.bind_eq, encoded_size_eq, Res.bind_ok, forList_pure, tags_loop, values_loop,
    Rs.withCapacity, List.nil_append, Lemmas.le32_mod]
  have ht : (toGen m).tags = m.tags := rfl
  have hv : (toGen m).values = m.values := rfl
  rw [ht, hv, Lemmas.tags_length]
  have hlen := Lemmas.encode_length m
  by_cases h : m.fields.length > 1
  · rw [if_pos h]
    obtain ⟨v, ws, hvs⟩ : ∃ v ws, m.values = v :: ws := by
      have : m.values.length = m.fields.length := Lemmas.values_length m
      cases hm : m.values with
      | nil => rw [hm] at this; simp at this; omega
      | cons v ws => exact ⟨v, ws, rfl⟩
    have hidx : Rs.idx m.values 0 "message.rs:encode:index#1" = .ok v := by simp [Rs.idx, hvs]
    have hsl : Rs.sliceFrom m.values 1 "message.rs:encode:slice#1" = .ok ws := by simp [Rs.sliceFrom, hvs]
    rw [hidx, hsl]
    simp only [Res.bind_ok]
    have := offsets_loop ws v 0 (le32 m.fields.length)
    simp only [Nat.zero_add] at this
    rw [this, ← hvs]
    have he : le32 m.fields.length ++ List.flatMap le32 (offsetsFrom 0 m.values) ++ List.flatMap Tag.wire m.tags ++
        m.values.flatten = encode m := rfl
    rw [he, hlen]
    simp [Rs.assert]
  · rw [if_neg h]
    have ho : offsetsFrom 0 m.values = [] := by
      have : m.values.length = m.fields.length := Lemmas.values_length m
      match hm : m.values with
      | [] => rfl
      | [_] => rfl
      | _ :: _ :: _ => rw [hm] at this; simp at this; omega
    have he : le32 m.fields.length ++ List.flatMap Tag.wire m.tags ++ m.values.flatten = encode m := by
      simp [encode, ho]
    rw [he, hlen]
    simp [Rs.assert]

/-- `RtMessage::encode_framed` -/
theorem encode_framed_eq (m : Msg) : Gen.RtMessage.encode_framed (toGen m) = .ok (encodeFramed m) := by
  unfold Gen.RtMessage.encode_framed
  simp only [Res.pure_eq, Res.bind_eq, encode_eq, Res.bind_ok, Rs.withCapacity, List.nil_append, Lemmas.le32_mod]
  rfl


/-! ### decoder -/

theorem readU32_eq (b : Bytes) (p : Nat) :
    Rs.Cursor.readU32 ⟨b, p⟩ =
      if (b.drop p).length < 4 then .err else .ok (rd32 (b.drop p), ⟨b, p + 4⟩) := by
  unfold Rs.Cursor.readU32 Rs.Cursor.readExact Rs.Cursor.remaining rd32
  by_cases h : (b.drop p).length < 4
  · rw [if_pos h, if_pos h]; rfl
  · rw [if_neg h, if_neg h]; rfl

/-- first loop of `multi_tag_message` = `readOffsets` -/
theorem offs_loop (b : Bytes) (len : Nat) (l : List Nat) : ∀ (p : Nat) (acc : List Nat),
    Rs.forList l ((⟨b, p⟩ : Rs.Cursor), acc) (fun _ x_1 =>
        x_1.fst.readU32.bind fun __t1 =>
          if __t1.fst % 4 ≠ 0 then Res.err
          else
            if __t1.fst > len % 4294967296 then Res.err
            else Res.ok (Rs.Step.next (__t1.snd, x_1.snd ++ [__t1.fst]))) =
      match readOffsets len l.length (b.drop p) with
      | some (os, _) => .ok (⟨b, p + 4 * l.length⟩, acc ++ os)
      | none => .err := by
  induction l with
  | nil => intro p acc; simp [readOffsets]
  | cons x l ih =>
    intro p acc
    rw [Rs.forList_cons]
    simp only [readU32_eq, List.length_cons, readOffsets]
    by_cases h4 : (b.drop p).length < 4
    · rw [if_pos h4, if_pos h4]; rfl
    rw [if_neg h4, if_neg h4]
    simp only [Res.bind_ok]
    by_cases hm : rd32 (b.drop p) % 4 ≠ 0
    · rw [if_pos hm, if_pos hm]
    rw [if_neg hm, if_neg hm]
    by_cases hl : rd32 (b.drop p) > len % 4294967296
    · rw [if_pos hl, if_pos hl]
    rw [if_neg hl, if_neg hl]
    simp only []
    rw [ih, List.drop_drop]
    cases readOffsets len l.length (b.drop (p + 4)) with
    | none => rfl
    | some q =>
      obtain ⟨os, r⟩ := q
      simp only [Res.ok.injEq, Prod.mk.injEq, Rs.Cursor.mk.injEq, true_and, List.append_assoc, List.cons_append,
        List.nil_append, and_true]
      omega


theorem readExact4_eq (b : Bytes) (p : Nat) :
    Rs.Cursor.readExact ⟨b, p⟩ 4 =
      if (b.drop p).length < 4 then .err else .ok ((b.drop p).take 4, ⟨b, p + 4⟩) := rfl

/-- body of the second loop of `multi_tag_message` -/
abbrev body2 : Nat → Rs.Cursor × Bytes × List Tag → Res (Rs.Step (Rs.Cursor × Bytes × List Tag)) :=
  fun _ x_1 =>
    match x_1.fst.readExact x_1.2.fst.length with
    | Res.ok __t4 =>
      (Rs.ofOpt (Tag.ofWire __t4.fst)).bind fun __do_lift =>
        match x_1.2.snd.getLast? with
        | some last_tag =>
          if __do_lift ≤ last_tag then Res.err
          else Res.ok (Rs.Step.next (__t4.snd, __t4.fst, x_1.2.snd ++ [__do_lift]))
        | _ => Res.ok (Rs.Step.next (__t4.snd, __t4.fst, x_1.2.snd ++ [__do_lift]))
    | Res.err => Res.err
    | Res.panic __p => Res.panic __p

theorem body2_eq (x : Nat) (b : Bytes) (p : Nat) (buf : Bytes) (acc : List Tag) (hb : buf.length = 4) :
    body2 x (⟨b, p⟩, buf, acc) =
      if (b.drop p).length < 4 then .err else
        match Tag.ofWire ((b.drop p).take 4) with
        | none => .err
        | some t =>
          if Lemmas.tooLow acc.getLast? t then .err
          else .ok (.next (⟨b, p + 4⟩, (b.drop p).take 4, acc ++ [t])) := by
  simp only [body2, hb, readExact4_eq]
  by_cases h4 : (b.drop p).length < 4
  · rw [if_pos h4, if_pos h4]
  rw [if_neg h4, if_neg h4]
  simp only []
  cases Tag.ofWire ((b.drop p).take 4) with
  | none => rfl
  | some t =>
    simp only [Rs.ofOpt, Res.bind_ok]
    cases acc.getLast? with
    | none => simp [Lemmas.tooLow]
    | some l => simp only [Lemmas.tooLow, Tag.le_def, decide_eq_true_eq]

/-- second loop of `multi_tag_message` = `readTags` -/
theorem tags_read_loop (b : Bytes) (l : List Nat) : ∀ (p : Nat) (buf : Bytes) (acc : List Tag), buf.length = 4 →
    match readTags acc.getLast? l.length (b.drop p) with
    | some (ts, _) => ∃ buf', buf'.length = 4 ∧
        Rs.forList l ((⟨b, p⟩ : Rs.Cursor), buf, acc) body2 = .ok (⟨b, p + 4 * l.length⟩, buf', acc ++ ts)
    | none => Rs.forList l ((⟨b, p⟩ : Rs.Cursor), buf, acc) body2 = .err := by
  induction l with
  | nil => intro p buf acc hb; simpa [readTags] using hb
  | cons x l ih =>
    intro p buf acc hb
    rw [Rs.forList_cons, body2_eq x b p buf acc hb, List.length_cons, Lemmas.readTags_succ]
    by_cases h4 : (b.drop p).length < 4
    · rw [if_pos h4, if_pos h4]
    rw [if_neg h4, if_neg h4]
    cases Tag.ofWire ((b.drop p).take 4) with
    | none => simp only [Option.bind_none]
    | some t =>
      simp only [Option.bind_some]
      by_cases hl : Lemmas.tooLow acc.getLast? t = true
      · rw [if_pos hl, if_pos hl]
      rw [if_neg hl, if_neg hl]
      simp only []
      have hlen : ((b.drop p).take 4).length = 4 := by
        rw [List.length_take]; omega
      have := ih (p + 4) ((b.drop p).take 4) (acc ++ [t]) hlen
      rw [List.getLast?_append] at this
      simp only [List.getLast?_singleton, Option.some_or] at this
      rw [List.drop_drop]
      cases hr : readTags (some t) l.length (b.drop (p + 4)) with
      | none => rw [hr] at this; simpa using this
      | some q =>
        obtain ⟨ts, r⟩ := q
        rw [hr] at this
        obtain ⟨buf', hb', he⟩ := this
        refine ⟨buf', hb', ?_⟩
        rw [he]
        simp only [Res.ok.injEq, Prod.mk.injEq, Rs.Cursor.mk.injEq, true_and, List.append_assoc, List.cons_append,
          List.nil_append, and_true]
        omega


/-- `add_field` on the raw pair of vectors succeeds when the tag is above the last one -/
theorem add_field_raw_ok (T : List Tag) (V : List Bytes) (t : Tag) (v : Bytes)
    (h : ∀ l, T.getLast? = some l → l.idx < t.idx) :
    Gen.RtMessage.add_field ⟨T, V⟩ t v = .ok ⟨T ++ [t], V ++ [v]⟩ := by
  unfold Gen.RtMessage.add_field
  simp only [Res.pure_eq, Res.bind_eq]
  cases hl : T.getLast? with
  | none => rfl
  | some l =>
    have := h l hl
    have hn : ¬ t ≤ l := by rw [Tag.le_def]; omega
    simp only [if_neg hn]

/-- consecutive (start, end) pairs: `zip (s :: es) es` -/
def pairs : Nat → List Nat → List (Nat × Nat)
  | _, [] => []
  | s, e :: es => (s, e) :: pairs e es

theorem zip_pairs (e : Nat) (offs : List Nat) : ∀ s, List.zip (s :: offs) (offs ++ [e]) = pairs s (offs ++ [e]) := by
  induction offs with
  | nil => intro s; rfl
  | cons o os ih => intro s; simp only [List.cons_append, List.zip_cons_cons, pairs, ih]

/-- body of the third loop of `multi_tag_message` -/
abbrev body3 (b : Bytes) (h : Nat) : Tag × Nat × Nat → Gen.RtMessage → Res (Rs.Step Gen.RtMessage) :=
  fun x rt_msg =>
    if h + x.2.snd > List.length b ∨ h + x.2.fst > h + x.2.snd then Res.err
    else
      (Rs.slice b (h + x.2.fst) (h + x.2.snd) "message.rs:multi_tag_message:slice#1").bind fun __do_lift =>
        (rt_msg.add_field x.fst __do_lift).bind fun __t7 => Res.ok (Rs.Step.next __t7)

/-- third loop of `multi_tag_message` = `cutValues` (the tags are already known to be increasing, so `add_field`
    cannot fail; the bounds check precedes the slice, so it cannot panic) -/
theorem cut_loop (b : Bytes) (h : Nat) (es : List Nat) : ∀ (ts : List Tag) (s : Nat) (accT : List Tag)
    (accV : List Bytes), ts.length = es.length → ts.Pairwise (fun a b => a.idx < b.idx) →
    Lemmas.Above accT.getLast? ts →
    Rs.forList (ts.zip (pairs s es)) (⟨accT, accV⟩ : Gen.RtMessage) (body3 b h) =
      (cutValues b h s es).bind fun vs => .ok ⟨accT ++ ts, accV ++ vs⟩ := by
  induction es with
  | nil =>
    intro ts s accT accV hlen _ _
    have : ts = [] := by simpa using hlen
    subst this
    simp [pairs, cutValues]
  | cons e es ih =>
    intro ts s accT accV hlen hp ha
    match ts, hlen, hp, ha with
    | t :: ts, hlen, hp, ha =>
      rw [List.pairwise_cons] at hp
      simp only [pairs, List.zip_cons_cons, Rs.forList_cons, cutValues]
      have hb3 : body3 b h (t, s, e) ⟨accT, accV⟩ =
          if h + e > b.length ∨ h + s > h + e then Res.err
          else (Rs.slice b (h + s) (h + e) "message.rs:multi_tag_message:slice#1").bind fun v =>
            (Gen.RtMessage.add_field ⟨accT, accV⟩ t v).bind fun r => Res.ok (Rs.Step.next r) := rfl
      rw [hb3]
      by_cases hc : h + e > b.length ∨ h + s > h + e
      · rw [if_pos hc, if_pos hc]; rfl
      rw [if_neg hc, if_neg hc]
      have hs : h + s ≤ h + e ∧ h + e ≤ b.length := by omega
      simp only [Rs.slice, slice, if_pos hs, Res.bind_ok]
      rw [add_field_raw_ok accT accV t _ (fun l hl => ha l hl t (by simp))]
      simp only [Res.bind_ok]
      rw [ih ts e (accT ++ [t]) _ (by simpa using hlen) hp.2
        (by intro l hl u hu; simp at hl; subst hl; exact hp.1 u hu)]
      cases cutValues b h e es <;> simp [Res.bind]


theorem multi_tag_sim (n : Nat) (b : Bytes) (hn : 2 ≤ n) :
    (Gen.RtMessage.multi_tag_message n b ⟨b, 4⟩).bind (fun r => .ok r.1) ≃ᵣ (multiTag n b).map toGen := by
  unfold Gen.RtMessage.multi_tag_message multiTag
  have hsub : ∀ s, Rs.sub n 1 s = .ok (n - 1) := fun s => by simp [Rs.sub]; omega
  simp only [Res.pure_eq, Res.bind_eq, Res.bind_err, Res.bind_panic, Bool.false_eq_true, if_false, if_true,
    Rs.withCapacity, hsub, Res.bind_ok]
  rw [offs_loop b b.length, List.length_range]
  cases hro : readOffsets b.length (n - 1) (b.drop 4) with
  | none => simp only [Res.bind_err, Res.map, Res.Sim]
  | some q =>
    obtain ⟨offs, rest⟩ := q
    simp only [Res.bind_ok, List.nil_append]
    obtain ⟨ho1, ho2, _⟩ := Lemmas.readOffsets_some hro
    have hrest : b.drop (4 + 4 * (n - 1)) = rest := by
      rw [← List.drop_drop, ho1]
      exact List.drop_left' (by rw [Lemmas.length_flatMap_le32, ho2])
    have h2 := tags_read_loop b (List.range n) (4 + 4 * (n - 1)) (Rs.rep 0 4) [] rfl
    rw [List.length_range, hrest, List.getLast?_nil] at h2
    cases hrt : readTags none n rest with
    | none =>
      rw [hrt] at h2
      change ((Rs.forList (List.range n) _ body2).bind _).bind _ ≃ᵣ _
      rw [h2]
      simp only [Res.bind_err, Res.map, Res.Sim]
    | some q =>
      obtain ⟨ts, r'⟩ := q
      rw [hrt] at h2
      obtain ⟨buf', _, h2⟩ := h2
      change ((Rs.forList (List.range n) _ body2).bind _).bind _ ≃ᵣ _
      rw [h2]
      simp only [Res.bind_ok, List.nil_append]
      obtain ⟨_, ht2, ht3, _⟩ := Lemmas.readTags_some hrt
      by_cases hle : 4 + 4 * (n - 1) + 4 * n ≤ b.length
      · simp only [Rs.sub, csub, if_pos hle, Res.bind_ok]
        have hwc : Gen.RtMessage.with_capacity n = .ok ⟨[], []⟩ := rfl
        rw [hwc]
        simp only [Res.bind_ok, List.singleton_append, zip_pairs]
        change (((Rs.forList _ _ (body3 b (4 + 4 * (n - 1) + 4 * n))).bind _).bind _) ≃ᵣ _
        rw [cut_loop b _ _ ts 0 [] [] (by simp [ht2, ho2]; omega) ht3 (by intro l hl; simp at hl)]
        cases hcv : cutValues b (4 + 4 * (n - 1) + 4 * n) 0 (offs ++ [b.length - (4 + 4 * (n - 1) + 4 * n)]) with
        | err => simp only [Res.bind_err, Res.map, Res.Sim]
        | panic s => simp only [Res.bind_panic, Res.map, Res.Sim]
        | ok vs =>
          obtain ⟨hes, _, _⟩ := Lemmas.cutValues_ok hcv
          have hl : ts.length = vs.length := by
            have := congrArg List.length hes
            simp only [List.length_append, List.length_singleton, Lemmas.ends_length] at this
            omega
          simp only [Res.bind_ok, Res.map, Res.Sim, List.nil_append, toGen, Lemmas.zip_tags hl, Lemmas.zip_values hl]
      · simp only [Rs.sub, csub, if_neg hle, Res.bind_panic, Res.map, Res.Sim]

theorem single_tag_eq (b : Bytes) :
    (Gen.RtMessage.single_tag_message b ⟨b, 4⟩).bind (fun r => .ok r.1) = (singleTag b).map toGen := by
  unfold Gen.RtMessage.single_tag_message singleTag
  simp only [Res.pure_eq, Res.bind_eq, Res.bind_err]
  by_cases h8 : b.length < 8
  · rw [if_pos h8, if_pos h8]; rfl
  rw [if_neg h8, if_neg h8]
  have hs : 4 ≤ 4 + 4 ∧ 4 + 4 ≤ b.length := by omega
  simp only [Rs.slice, slice, if_pos hs, Res.bind_ok]
  cases Tag.ofWire ((b.drop 4).take (8 - 4)) with
  | none => rfl
  | some t =>
    have hwc : Gen.RtMessage.with_capacity 1 = .ok ⟨[], []⟩ := rfl
    simp only [Rs.ofOpt, Res.bind_ok, hwc]
    rw [add_field_raw_ok [] [] t _ (by intro l hl; simp at hl)]
    simp [Res.map, toGen, Msg.tags, Msg.values, Rs.Cursor.readToEnd, Rs.Cursor.setPosition, Rs.Cursor.remaining]

/-- `RtMessage::from_bytes` — the decoder — agrees with the model decoder on EVERY byte string -/
theorem from_bytes_sim (b : Bytes) : Gen.RtMessage.from_bytes b ≃ᵣ (fromBytes b).map toGen := by
  unfold Gen.RtMessage.from_bytes fromBytes
  simp only [Res.pure_eq, Res.bind_eq, Res.bind_err]
  by_cases h4 : b.length < 4
  · rw [if_pos h4, if_pos h4]; trivial
  rw [if_neg h4, if_neg h4]
  by_cases hm : b.length % 4 ≠ 0
  · rw [if_pos hm, if_pos hm]; trivial
  rw [if_neg hm, if_neg hm]
  have hd : ¬ (b.drop 0).length < 4 := by simpa using h4
  rw [Rs.Cursor.new, readU32_eq, if_neg hd]
  simp only [Res.bind_ok, List.drop_zero, Nat.zero_add]
  by_cases h0 : rd32 b = 0
  · rw [if_pos h0, if_pos h0]; exact Res.Sim.of_eq rfl
  rw [if_neg h0, if_neg h0]
  by_cases h1 : rd32 b = 1
  · rw [if_pos h1, if_pos h1]; exact Res.Sim.of_eq (single_tag_eq b)
  rw [if_neg h1, if_neg h1]
  by_cases hle : rd32 b ≤ 1024
  · have : 2 ≤ rd32 b ∧ rd32 b ≤ 1024 := by omega
    rw [if_pos this, if_pos hle]
    exact multi_tag_sim _ b this.1
  · have : ¬ (2 ≤ rd32 b ∧ rd32 b ≤ 1024) := by omega
    rw [if_neg this, if_neg hle]; trivial

/-- consequently the generated decoder never panics (C06 transported to the generated code) -/
theorem from_bytes_no_panic (b : Bytes) : (Gen.RtMessage.from_bytes b).isPanic = false := by
  rw [Res.Sim.isPanic_eq (from_bytes_sim b)]
  have := Lemmas.fromBytes_no_panic b
  cases h : fromBytes b with
  | ok m => rfl
  | err => rfl
  | panic s => exact absurd h (this s)

end Bridge
end Rough

import Rough.Bridge.ServerLoop
import Rough.Bridge.Stats
import Rough.Model.EventLoop
/-
  Helper lemmas for Rough/Bridge/ProcessEvents.lean: the exact result of `handle_health_check` and `send_client_stats`
  on an arbitrary generated server state, the per-batch inputs (`passAt`) for which the model's `serviceSocket` is
  `serviceSpec`, small facts about recorders.
-/
namespace Rough
namespace Bridge
namespace PEAux
open Rough.Stats Rough.EventLoop

/-! ### `handle_health_check` -/

/-- the statistics event of an accepted connection -/
def hcEvent (c : Gen.Conn) : Event := ⟨Kind.healthCheck, c.addr, 0⟩

/-- the listener after one iteration of the accept loop on a non-empty queue `c :: rest` -/
def hcOne (t : Gen.Tcp) (c : Gen.Conn) (rest : List Gen.Conn) : Gen.Tcp :=
  (Gen.Tcp.shutdown (Gen.Tcp.writeAll { t with pending := rest, cur := c, log := t.log ++ [.accepted c.addr] }
    (Rs.strBytes Gen.HTTP_RESPONSE)).2).2

/-- the listener after the accept loop has drained the queue `l` -/
def hcDrain : List Gen.Conn → Gen.Tcp → Gen.Tcp
  | [], t => t
  | c :: rest, t => hcDrain rest (hcOne t c rest)

theorem whileFuel_succ_true {σ : Type} (n : Nat) (s : σ) (c : σ → Res Bool) (f : σ → Res (Rs.Step σ))
    (h : c s = .ok true) : Rs.whileFuel (n + 1) s c f =
      match f s with
      | .ok (.next s') => Rs.whileFuel n s' c f
      | .ok (.brk s') => .ok s'
      | .err => .err
      | .panic p => .panic p := by
  rw [Rs.whileFuel, h]
  rfl

theorem writeAll_snd (t : Gen.Tcp) (b : Bytes) : (Gen.Tcp.writeAll t b).2 =
    { t with log := t.log ++ [if t.cur.writeOk then .wrote t.cur.addr b else .writeFailed t.cur.addr] } := by
  unfold Gen.Tcp.writeAll
  cases t.cur.writeOk <;> simp

theorem shutdown_snd (t : Gen.Tcp) : (Gen.Tcp.shutdown t).2 =
    { t with log := t.log ++ [if t.cur.shutOk then .shutdown t.cur.addr else .shutdownFailed t.cur.addr] } := by
  unfold Gen.Tcp.shutdown
  cases t.cur.shutOk <;> simp

theorem writeAll_fst (t : Gen.Tcp) (b : Bytes) : (Gen.Tcp.writeAll t b).1 = .ok () ∨ (Gen.Tcp.writeAll t b).1 = .err := by
  unfold Gen.Tcp.writeAll
  cases t.cur.writeOk <;> simp

theorem shutdown_fst (t : Gen.Tcp) : (Gen.Tcp.shutdown t).1 = .ok () ∨ (Gen.Tcp.shutdown t).1 = .err := by
  unfold Gen.Tcp.shutdown
  cases t.cur.shutOk <;> simp

theorem hcOne_eq (t : Gen.Tcp) (c : Gen.Conn) (rest : List Gen.Conn) : hcOne t c rest =
    { pending := rest, hardErr := t.hardErr, cur := c,
      log := t.log ++ [.accepted c.addr,
        if c.writeOk then .wrote c.addr (Rs.strBytes Gen.HTTP_RESPONSE) else .writeFailed c.addr,
        if c.shutOk then .shutdown c.addr else .shutdownFailed c.addr] } := by
  simp [hcOne, writeAll_snd, shutdown_snd]

theorem hcOne_pending (t : Gen.Tcp) (c : Gen.Conn) (rest : List Gen.Conn) : (hcOne t c rest).pending = rest := by
  rw [hcOne_eq]

/-- the accept loop over an abstract condition / body that do what the generated ones do -/
theorem hc_loop (c : Gen.Server → Res Bool) (f : Gen.Server → Res (Rs.Step Gen.Server))
    (hc : ∀ g, c g = .ok true)
    (hnil : ∀ g, g.tcp.pending = [] → f g = .ok (.brk g))
    (hcons : ∀ g c rest, g.tcp.pending = c :: rest →
      f g = .ok (.next { g with tcp := hcOne g.tcp c rest, stats_recorder := g.stats_recorder ++ [hcEvent c] })) :
    ∀ (l : List Gen.Conn) (g : Gen.Server) (fuel : Nat), g.tcp.pending = l → l.length < fuel →
      Rs.whileFuel fuel g c f =
        .ok { g with tcp := hcDrain l g.tcp, stats_recorder := g.stats_recorder ++ l.map hcEvent } := by
  intro l
  induction l with
  | nil =>
    intro g fuel hp hfuel
    obtain ⟨k, rfl⟩ : ∃ k, fuel = k + 1 := ⟨fuel - 1, by simp only [List.length_nil] at hfuel; omega⟩
    rw [whileFuel_succ_true _ _ _ _ (hc _), hnil g hp]
    simp only [List.map_nil, List.append_nil, hcDrain]
  | cons c rest ih =>
    intro g fuel hp hfuel
    obtain ⟨k, rfl⟩ : ∃ k, fuel = k + 1 := ⟨fuel - 1, by omega⟩
    simp only [List.length_cons] at hfuel
    rw [whileFuel_succ_true _ _ _ _ (hc _), hcons g c rest hp]
    simp only []
    rw [ih _ k (hcOne_pending _ _ _) (by omega)]
    simp only [hcDrain, List.map_cons, List.append_assoc, List.singleton_append]

theorem unwrapO_unit (o : Option Unit) (site : String) (h : o.isSome) : Rs.unwrapO o site = .ok () := by
  cases o with
  | none => cases h
  | some u => rfl

/-- `handle_health_check` on any server state with a configured listener -/
theorem handle_health_check_exact (S : SigScheme) (H : Bytes → Bytes) (LOG : Nat) (g : Gen.Server)
    (hl : g.health_listener.isSome) :
    Gen.Server.handle_health_check S H LOG g =
      .ok { g with tcp := hcDrain g.tcp.pending g.tcp, stats_recorder := g.stats_recorder ++ g.tcp.pending.map hcEvent } := by
  unfold Gen.Server.handle_health_check
  simp only [Res.pure_eq, Res.bind_eq, unwrapO_unit _ _ hl, Res.bind_ok]
  rw [hc_loop _ _ ?hc ?hnil ?hcons g.tcp.pending g _ rfl (Nat.lt_succ_self _)]
  · rfl
  case hc => intro g; rfl
  case hnil =>
    intro g hp
    simp only [Gen.Tcp.accept, hp]
    rfl
  case hcons =>
    intro g c rest hp
    simp only [Gen.Tcp.accept, hp]
    have e : hcOne g.tcp c rest = (Gen.Tcp.shutdown (Gen.Tcp.writeAll
        { pending := rest, hardErr := g.tcp.hardErr, cur := c, log := g.tcp.log ++ [Gen.TcpEvent.accepted c.addr] }
        (Rs.strBytes Gen.HTTP_RESPONSE)).2).2 := rfl
    rw [e]
    generalize ({ pending := rest, hardErr := g.tcp.hardErr, cur := c, log := g.tcp.log ++ [Gen.TcpEvent.accepted c.addr] } : Gen.Tcp) = tq
    rcases writeAll_fst tq (Rs.strBytes Gen.HTTP_RESPONSE) with hw | hw <;>
      rcases shutdown_fst (tq.writeAll (Rs.strBytes Gen.HTTP_RESPONSE)).snd with hs | hs <;>
      simp only [hw, hs] <;> rfl

theorem hcDrain_pending : ∀ (l : List Gen.Conn) (t : Gen.Tcp), t.pending = l → (hcDrain l t).pending = []
  | [], _, h => h
  | c :: rest, t, _ => hcDrain_pending rest (hcOne t c rest) (hcOne_pending t c rest)

/-- the accepted addresses in the log, for any function `p` that picks them -/
theorem hcDrain_accepted (p : Gen.TcpEvent → Option Nat) (hacc : ∀ a, p (.accepted a) = some a)
    (hw : ∀ a b, p (.wrote a b) = none) (hwf : ∀ a, p (.writeFailed a) = none)
    (hs : ∀ a, p (.shutdown a) = none) (hsf : ∀ a, p (.shutdownFailed a) = none) :
    ∀ (l : List Gen.Conn) (t : Gen.Tcp), (hcDrain l t).log.filterMap p = t.log.filterMap p ++ l.map (·.addr)
  | [], t => by simp [hcDrain]
  | c :: rest, t => by
    rw [hcDrain, hcDrain_accepted p hacc hw hwf hs hsf rest, hcOne_eq]
    cases c.writeOk <;> cases c.shutOk <;> simp [List.filterMap_append, hacc, hw, hwf, hs, hsf]

/-- the log when every write and shutdown succeeds -/
theorem hcDrain_log_ok : ∀ (l : List Gen.Conn) (t : Gen.Tcp), (∀ c ∈ l, c.writeOk = true ∧ c.shutOk = true) →
    (hcDrain l t).log = t.log ++ (l.map (·.addr)).flatMap fun a =>
      [Gen.TcpEvent.accepted a, .wrote a (Rs.strBytes Gen.HTTP_RESPONSE), .shutdown a]
  | [], t, _ => by simp [hcDrain]
  | c :: rest, t, h => by
    have hc := h c (List.mem_cons_self ..)
    rw [hcDrain, hcDrain_log_ok rest _ (fun c' hc' => h c' (List.mem_cons_of_mem _ hc')), hcOne_eq]
    simp [hc.1, hc.2]

/-! ### recorders -/

theorem recordAll_append (r : Recorder) (a b : List Event) : r.recordAll (a ++ b) = (r.recordAll a).recordAll b := by
  simp [Recorder.recordAll, List.foldl_append]

theorem recordAll_perClient (ev : List Event) : ∀ (s : PerClient),
    (Recorder.perClient s).recordAll ev = .perClient (PerClient.run s ev) := by
  induction ev with
  | nil => intro s; rfl
  | cons e rest ih => intro s; exact ih (s.record e)

theorem recordAll_aggregated (ev : List Event) : ∀ (s : Aggregated),
    (Recorder.aggregated s).recordAll ev = .aggregated (Aggregated.run s ev) := by
  induction ev with
  | nil => intro s; rfl
  | cons e rest ih => intro s; exact ih (s.record e)

theorem run_limit (ev : List Event) : ∀ (s : PerClient), (PerClient.run s ev).limit = s.limit := by
  induction ev with
  | nil => intro s; rfl
  | cons e rest ih =>
    intro s
    show (PerClient.run (s.record e) rest).limit = s.limit
    rw [ih]
    unfold PerClient.record
    split <;> rfl

/-! ### `send_client_stats` -/

/-- `stats_recorder.iter().map(|(_, s)| *s).collect()` -/
def clientsOf (kind : Option Nat) (ev : List Event) : List Gen.ClientStats :=
  List.map (fun (_, s) => s) (Gen.statsIter kind ev)

/-- `send_client_stats` on any server state -/
theorem send_client_stats_exact (S : SigScheme) (H : Bytes → Bytes) (LOG : Nat) (g : Gen.Server) :
    Gen.Server.send_client_stats S H LOG g =
      .ok { g with
        stats_queue := if (clientsOf g.recorder_kind g.stats_recorder).length > 0
          then g.stats_queue ++ [clientsOf g.recorder_kind g.stats_recorder] else g.stats_queue,
        stats_recorder := if (clientsOf g.recorder_kind g.stats_recorder).length > 0 then [] else g.stats_recorder,
        stats_pub_timer := g.stats_pub_timer ++ [g.stats_pub_freq] } := by
  unfold Gen.Server.send_client_stats Gen.Server.thread_name_fn
  simp only [Res.pure_eq, Res.bind_eq]
  have e : List.map (fun (x : Nat × Gen.ClientStats) => match x with | (_, s) => s) (Gen.statsIter g.recorder_kind g.stats_recorder)
      = clientsOf g.recorder_kind g.stats_recorder := rfl
  simp only [e]
  by_cases h : (clientsOf g.recorder_kind g.stats_recorder).length > 0 <;> by_cases hl : LOG ≥ 4 <;>
    simp [h, hl]

/-! ### the model's `serviceSocket` for the per-batch inputs the generated code takes from its environment -/

/-- the server at the start of a batch: both responders reset -/
def resetSrv (s : Server) : Server := { s with ietf := s.ietf.reset, classic := s.classic.reset }

/-- the number of IETF requests a `collect` result queued (0 when it failed: irrelevant then) -/
def nIetf : Res (Server × List Event) → Nat
  | .ok y => y.1.ietf.requests.length
  | _ => 0

/-- the inputs of the next batch: the clock readings `batchSpec` uses and all pending fault-injection decisions -/
def pass0 (E : Env) (s : Server) (sock : Gen.Sock) (gI gC : List Grease) : PassIn :=
  { nowIetf := ((sock.clock sock.n).secs, (sock.clock sock.n).nanos),
    nowClassic :=
      ((sock.clock (sock.n + nIetf (Server.collect E (resetSrv s) (toDatagrams (sock.inq.take s.batchSize))))).secs,
       (sock.clock (sock.n + nIetf (Server.collect E (resetSrv s) (toDatagrams (sock.inq.take s.batchSize))))).nanos),
    greaseIetf := gI, greaseClassic := gC }

/-- the inputs of batch `i` of a `service_socket` call that starts from `s`, `sock`, `gI`, `gC` -/
def passAt (E : Env) (debug : Bool) : Nat → Server → Gen.Sock → List Grease → List Grease → PassIn
  | 0, s, sock, gI, gC => pass0 E s sock gI gC
  | i + 1, s, sock, gI, gC =>
    match batchSpec E debug s sock gI gC with
    | .ok y => passAt E debug i y.1 (sockAfter s sock y.2.1) (gI.drop y.1.ietf.requests.length)
        (gC.drop y.1.classic.requests.length)
    | _ => {}

theorem pass0_arrivals (E : Env) (s : Server) (sock : Gen.Sock) (gI gC : List Grease) :
    (pass0 E s sock gI gC).arrivals = [] := rfl

theorem passAt_arrivals (E : Env) (debug : Bool) : ∀ (i : Nat) (s : Server) (sock : Gen.Sock) (gI gC : List Grease),
    (passAt E debug i s sock gI gC).arrivals = []
  | 0, s, sock, gI, gC => pass0_arrivals E s sock gI gC
  | i + 1, s, sock, gI, gC => by
    unfold passAt
    split
    · exact passAt_arrivals E debug i _ _ _ _
    · rfl

theorem toDatagrams_take (q : List (Bytes × Addr)) (n : Nat) : toDatagrams (q.take n) = (toDatagrams q).take n := by
  simp [toDatagrams, List.map_take]

theorem toDatagrams_drop (q : List (Bytes × Addr)) (n : Nat) : toDatagrams (q.drop n) = (toDatagrams q).drop n := by
  simp [toDatagrams, List.map_drop]

theorem toDatagrams_length (q : List (Bytes × Addr)) : (toDatagrams q).length = q.length := by
  simp [toDatagrams]

theorem batchSpec_unfold (E : Env) (debug : Bool) (s : Server) (sock : Gen.Sock) (gI gC : List Grease) :
    batchSpec E debug s sock gI gC =
      (Server.collect E (resetSrv s) (toDatagrams (sock.inq.take s.batchSize))).bind fun y =>
        Server.pass E debug s
          { chunk := toDatagrams (sock.inq.take s.batchSize),
            nowIetf := ((sock.clock sock.n).secs, (sock.clock sock.n).nanos),
            nowClassic := ((sock.clock (sock.n + y.1.ietf.requests.length)).secs,
              (sock.clock (sock.n + y.1.ietf.requests.length)).nanos),
            greaseIetf := gI, greaseClassic := gC } := rfl

theorem pass_unfold (E : Env) (debug : Bool) (s : Server) (p : Server.Pass) :
    Server.pass E debug s p = (Server.collect E (resetSrv s) (p.chunk.take s.batchSize)).bind fun y =>
      (y.1.ietf.sendResponses E debug p.nowIetf p.greaseIetf).bind fun yI =>
      (y.1.classic.sendResponses E debug p.nowClassic p.greaseClassic).bind fun yC =>
      .ok ({ y.1 with ietf := yI.1, classic := yC.1 }, yI.2.1 ++ yC.2.1, y.2 ++ yI.2.2 ++ yC.2.2) := rfl

/-- the model's pass with the inputs `pass0` is `batchSpec` -/
theorem pass_eq (E : Env) (debug : Bool) (s : Server) (sock : Gen.Sock) (gI gC : List Grease) (st : Loop)
    (hs : st.srv = s) (hq : st.sockQ = toDatagrams sock.inq) :
    Server.pass E debug st.srv (passOf st (pass0 E s sock gI gC)) = batchSpec E debug s sock gI gC := by
  subst hs
  have hp : passOf st (pass0 E st.srv sock gI gC) =
      { chunk := toDatagrams (sock.inq.take st.srv.batchSize),
        nowIetf := ((sock.clock sock.n).secs, (sock.clock sock.n).nanos),
        nowClassic :=
          ((sock.clock (sock.n + nIetf (Server.collect E (resetSrv st.srv) (toDatagrams (sock.inq.take st.srv.batchSize))))).secs,
           (sock.clock (sock.n + nIetf (Server.collect E (resetSrv st.srv) (toDatagrams (sock.inq.take st.srv.batchSize))))).nanos),
        greaseIetf := gI, greaseClassic := gC } := by
    simp only [passOf, pass0, List.append_nil, hq, toDatagrams_take]
  rw [hp, batchSpec_unfold]
  generalize hc : Server.collect E (resetSrv st.srv) (toDatagrams (sock.inq.take st.srv.batchSize)) = c
  cases c with
  | ok y => rfl
  | err =>
    rw [pass_unfold]
    simp only [toDatagrams_take, List.take_take, Nat.min_self]
    rw [toDatagrams_take] at hc
    rw [hc]
    rfl
  | panic site =>
    rw [pass_unfold]
    simp only [toDatagrams_take, List.take_take, Nat.min_self]
    rw [toDatagrams_take] at hc
    rw [hc]
    rfl

/-- the model loop state after a `service_socket` call whose `serviceSpec` result is `y` -/
def stAfter (st : Loop)
    (y : Server × Bool × List Sent × List Event × List (Bytes × Addr) × List Grease × List Grease) : Loop :=
  { st with srv := y.1, backlog := y.2.1, sockQ := toDatagrams y.2.2.2.2.1, recd := st.recd.recordAll y.2.2.2.1 }

/-- what of the model's `serviceSocket` result matters -/
def svcProj (y : Loop × Out) : Loop × List Sent × List Event × List Addr := (y.1, y.2.sent, y.2.events, y.2.hcAnswered)

/-- `serviceSocket` with the inputs `passAt` (no in-call arrivals) is `serviceSpec` -/
theorem svc_model (E : Env) (debug : Bool) : ∀ (M : Nat) (s : Server) (sock : Gen.Sock) (gI gC : List Grease)
    (st : Loop), st.srv = s → st.sockQ = toDatagrams sock.inq →
    (serviceSocket E debug M st (fun i => passAt E debug i s sock gI gC)).map svcProj =
      (serviceSpec E debug M s sock gI gC).map fun y => (stAfter st y, y.2.2.1, y.2.2.2.1, []) := by
  intro M
  induction M with
  | zero =>
    intro s sock gI gC st hs hq
    subst hs
    simp [serviceSocket, serviceSpec, Res.map, svcProj, stAfter, hq, Recorder.recordAll]
  | succ M ih =>
    intro s sock gI gC st hs hq
    unfold serviceSocket serviceSpec
    simp only []
    have hp := pass_eq E debug s sock gI gC st hs hq
    have h0 : passAt E debug 0 s sock gI gC = pass0 E s sock gI gC := rfl
    rw [h0, hp]
    cases hb : batchSpec E debug s sock gI gC with
    | ok y =>
      obtain ⟨s', sent, ev⟩ := y
      simp only [Res.bind_ok]
      have hlen : ((passOf st (pass0 E s sock gI gC)).chunk.length < st.srv.batchSize) ↔
          (sock.inq.length < s.batchSize) := by
        subst hs
        simp only [passOf, pass0_arrivals, List.append_nil, hq, List.length_take, toDatagrams_length]
        omega
      by_cases hshort : sock.inq.length < s.batchSize
      · have hshort' := hlen.mpr hshort
        subst hs
        simp [hshort, hshort', Res.map, svcProj, stAfter, pass0_arrivals, hq, toDatagrams_drop]
      · have hshort' : ¬ (passOf st (pass0 E s sock gI gC)).chunk.length < st.srv.batchSize := fun h => hshort (hlen.mp h)
        simp only [hshort, hshort', if_false]
        have hins : (fun i => passAt E debug (i + 1) s sock gI gC) =
            fun i => passAt E debug i s' (sockAfter s sock sent) (gI.drop s'.ietf.requests.length)
              (gC.drop s'.classic.requests.length) := by
          funext i
          simp only [passAt, hb]
        rw [hins]
        have := ih s' (sockAfter s sock sent) (gI.drop s'.ietf.requests.length) (gC.drop s'.classic.requests.length)
          { st with srv := s', sockQ := (st.sockQ ++ (pass0 E s sock gI gC).arrivals).drop st.srv.batchSize,
                    sockEdge := st.sockEdge || !(pass0 E s sock gI gC).arrivals.isEmpty,
                    recd := st.recd.recordAll ev } rfl
          (by subst hs; simp only [pass0_arrivals, List.append_nil, hq, sockAfter, toDatagrams_drop])
        revert this
        simp only [sockAfter]
        cases serviceSocket E debug M _ _ with
        | ok z =>
          intro this
          cases hspec : serviceSpec E debug M s' _ _ _ with
          | ok w =>
            rw [hspec] at this
            simp only [Res.map, Res.ok.injEq, svcProj, Prod.mk.injEq] at this
            simp [Res.map, Res.bind, svcProj, Out.append, this.1, this.2.1, this.2.2.1, this.2.2.2, stAfter,
              recordAll_append, pass0_arrivals]
          | err => rw [hspec] at this; cases this
          | panic site => rw [hspec] at this; cases this
        | err =>
          intro this
          cases hspec : serviceSpec E debug M s' _ _ _ with
          | ok w => rw [hspec] at this; cases this
          | err => rfl
          | panic site => rw [hspec] at this; cases this
        | panic site0 =>
          intro this
          cases hspec : serviceSpec E debug M s' _ _ _ with
          | ok w => rw [hspec] at this; cases this
          | err => rw [hspec] at this; cases this
          | panic site => rw [hspec] at this; simp only [Res.map, Res.panic.injEq] at this; subst this; rfl
    | err => rfl
    | panic site => rfl

/-- `service_socket` of the generated code and the model's `serviceSocket` (with the inputs `passAt`) finish alike; when
    they return, the states and outputs correspond through one `serviceSpec` result -/
theorem svc_cases (E : Env) (hH : ∀ z, (E.H z).length = 64) (LOG : Nat) (x : GenRest) (s : Server) (sock : Gen.Sock)
    (buf : Bytes) (backlog : Bool) (ev : List Event) (gI gC : List Grease) (cI cC : Grease)
    (hok : ∀ a k, sock.ok a k = true) (hfit : ∀ p ∈ sock.inq, p.1.length ≤ buf.length)
    (st : Loop) (hs : st.srv = s) (hq : st.sockQ = toDatagrams sock.inq) :
    (∃ y g' o, Gen.Server.service_socket E.S E.H LOG (toGenServer x s sock buf backlog ev ⟨gI, cI⟩ ⟨gC, cC⟩) = .ok g' ∧
        serviceSocket E (decide (LOG ≥ 4)) 16 st (fun i => passAt E (decide (LOG ≥ 4)) i s sock gI gC) = .ok (stAfter st y, o) ∧
        obsSvc g' = specObs sock ev y ∧ restOf g' = x ∧ o.sent = y.2.2.1 ∧ o.events = y.2.2.2.1 ∧ o.hcAnswered = []) ∨
    (Gen.Server.service_socket E.S E.H LOG (toGenServer x s sock buf backlog ev ⟨gI, cI⟩ ⟨gC, cC⟩) = .err ∧
        serviceSocket E (decide (LOG ≥ 4)) 16 st (fun i => passAt E (decide (LOG ≥ 4)) i s sock gI gC) = .err) ∨
    (∃ p q, Gen.Server.service_socket E.S E.H LOG (toGenServer x s sock buf backlog ev ⟨gI, cI⟩ ⟨gC, cC⟩) = .panic p ∧
        serviceSocket E (decide (LOG ≥ 4)) 16 st (fun i => passAt E (decide (LOG ≥ 4)) i s sock gI gC) = .panic q) := by
  have h1 := service_socket_full E hH LOG x s sock buf backlog ev gI gC cI cC hok hfit
  have h2 := svc_model E (decide (LOG ≥ 4)) 16 s sock gI gC st hs hq
  cases hspec : serviceSpec E (decide (LOG ≥ 4)) 16 s sock gI gC with
  | ok y =>
    rw [hspec] at h1 h2
    cases hg : Gen.Server.service_socket E.S E.H LOG (toGenServer x s sock buf backlog ev ⟨gI, cI⟩ ⟨gC, cC⟩) with
    | ok g' =>
      rw [hg] at h1
      cases hm : serviceSocket E (decide (LOG ≥ 4)) 16 st (fun i => passAt E (decide (LOG ≥ 4)) i s sock gI gC) with
      | ok z =>
        rw [hm] at h2
        simp only [Res.map, Res.ok.injEq, svcProj, Prod.mk.injEq] at h2
        have h1' : (obsSvc g', restOf g') = (specObs sock ev y, x) := h1
        simp only [Prod.mk.injEq] at h1'
        refine Or.inl ⟨y, g', z.2, rfl, ?_, h1'.1, h1'.2, h2.2.1, h2.2.2.1, h2.2.2.2⟩
        rw [← h2.1]
      | err => rw [hm] at h2; cases h2
      | panic q => rw [hm] at h2; cases h2
    | err => rw [hg] at h1; exact h1.elim
    | panic p => rw [hg] at h1; exact h1.elim
  | err =>
    rw [hspec] at h1 h2
    refine Or.inr (Or.inl ⟨?_, ?_⟩)
    · cases hg : Gen.Server.service_socket E.S E.H LOG (toGenServer x s sock buf backlog ev ⟨gI, cI⟩ ⟨gC, cC⟩) with
      | ok g' => rw [hg] at h1; exact h1.elim
      | err => rfl
      | panic p => rw [hg] at h1; exact h1.elim
    · cases hm : serviceSocket E (decide (LOG ≥ 4)) 16 st (fun i => passAt E (decide (LOG ≥ 4)) i s sock gI gC) with
      | ok z => rw [hm] at h2; cases h2
      | err => rfl
      | panic q => rw [hm] at h2; cases h2
  | panic site =>
    rw [hspec] at h1 h2
    refine Or.inr (Or.inr ?_)
    cases hg : Gen.Server.service_socket E.S E.H LOG (toGenServer x s sock buf backlog ev ⟨gI, cI⟩ ⟨gC, cC⟩) with
    | ok g' => rw [hg] at h1; exact h1.elim
    | err => rw [hg] at h1; exact h1.elim
    | panic p =>
      cases hm : serviceSocket E (decide (LOG ≥ 4)) 16 st (fun i => passAt E (decide (LOG ≥ 4)) i s sock gI gC) with
      | ok z => rw [hm] at h2; cases h2
      | err => rw [hm] at h2; cases h2
      | panic q => exact ⟨p, q, rfl, rfl⟩

/-! ### the model's `process_events` after its poll, as a function of the remaining tokens -/

/-- one event arm -/
def stepT (E : Env) (debug : Bool) (ins : Nat → PassIn) (t : Token) (st : Loop) (serviced : Bool) :
    Res (Loop × Out × Bool) :=
  match t with
  | .message => (serviceSocket E debug MAX_BATCHES_PER_CALL st ins).bind fun (st', o) => .ok (st', o, true)
  | .healthCheck => (handleHealthCheck st).bind fun (st', o) => .ok (st', o, serviced)
  | .statusUpdate => .ok (sendClientStats st, {}, serviced)

/-- the rest of `processEvents` when the tokens `ts` are still to be handled -/
def modelTail (E : Env) (debug : Bool) (ins : Nat → PassIn) (ts : List Token) (st : Loop) (serviced : Bool) :
    Res (Loop × Out) :=
  (handleEvents E debug ins ts st serviced).bind fun (st1, o, sv) =>
    if st1.backlog && !sv then
      (serviceSocket E debug MAX_BATCHES_PER_CALL st1 ins).bind fun (st2, o') => .ok (st2, o.append o')
    else .ok (st1, o)

theorem Out.append_assoc (a b c : Out) : (a.append b).append c = a.append (b.append c) := by
  simp [Out.append, List.append_assoc, Nat.add_assoc]

theorem Out.empty_append (a : Out) : Out.append {} a = a := by
  simp [Out.append]

theorem Out.append_empty (a : Out) : Out.append a {} = a := by
  simp [Out.append]

theorem modelTail_nil (E : Env) (debug : Bool) (ins : Nat → PassIn) (st : Loop) (sv : Bool) :
    modelTail E debug ins [] st sv =
      if st.backlog && !sv then (serviceSocket E debug 16 st ins).bind fun y => .ok (y.1, y.2) else .ok (st, {}) := by
  simp only [modelTail, handleEvents, Res.bind_ok, MAX_BATCHES_PER_CALL]
  split
  · congr 1; funext y; simp only [Out.empty_append]
  · rfl

theorem modelTail_cons (E : Env) (debug : Bool) (ins : Nat → PassIn) (t : Token) (ts : List Token) (st : Loop) (sv : Bool) :
    modelTail E debug ins (t :: ts) st sv =
      (stepT E debug ins t st sv).bind fun y => (modelTail E debug ins ts y.1 y.2.2).map fun z => (z.1, y.2.1.append z.2) := by
  have hstep : handleEvents E debug ins (t :: ts) st sv =
      (stepT E debug ins t st sv).bind fun y =>
        (handleEvents E debug ins ts y.1 y.2.2).bind fun z => .ok (z.1, y.2.1.append z.2.1, z.2.2) := by
    cases t <;> rfl
  unfold modelTail
  rw [hstep]
  cases stepT E debug ins t st sv with
  | ok y =>
    simp only [Res.bind_ok]
    cases handleEvents E debug ins ts y.1 y.2.2 with
    | ok z =>
      simp only [Res.bind_ok]
      split
      · cases serviceSocket E debug MAX_BATCHES_PER_CALL z.1 ins with
        | ok w => simp only [Res.bind_ok, Res.map, Out.append_assoc]
        | err => rfl
        | panic q => rfl
      · rfl
    | err => rfl
    | panic q => rfl
  | err => rfl
  | panic q => rfl

/-! ### per-batch inputs that are taken from the environment in EVERY batch

`passAt` falls back to the default `PassIn` (clock `(0, 0)`, no fault injection) for the batches after one whose
`batchSpec` does not return — batches the model never reaches.  `passEnv` is the same function with a fallback that is
itself an environment reading; the model cannot tell the two apart (`modelTail_passEnv`), and every `passEnv … i` is a
reading of the socket's clock and a suffix of the pending fault-injection decisions (`passEnv_prov`). -/

def passEnv (E : Env) (debug : Bool) : Nat → Server → Gen.Sock → List Grease → List Grease → PassIn
  | 0, s, sock, gI, gC => pass0 E s sock gI gC
  | i + 1, s, sock, gI, gC =>
    match batchSpec E debug s sock gI gC with
    | .ok y => passEnv E debug i y.1 (sockAfter s sock y.2.1) (gI.drop y.1.ietf.requests.length)
        (gC.drop y.1.classic.requests.length)
    | _ => pass0 E s sock gI gC

/-- provenance of the inputs `passEnv`: no in-call arrivals, clock readings of the socket's clock, suffixes of the
    pending fault-injection decisions -/
theorem passEnv_prov (E : Env) (debug : Bool) : ∀ (i : Nat) (s : Server) (sock : Gen.Sock) (gI gC : List Grease),
    (passEnv E debug i s sock gI gC).arrivals = [] ∧
    (∃ k, (passEnv E debug i s sock gI gC).nowIetf = ((sock.clock k).secs, (sock.clock k).nanos)) ∧
    (∃ k, (passEnv E debug i s sock gI gC).nowClassic = ((sock.clock k).secs, (sock.clock k).nanos)) ∧
    (∃ n, (passEnv E debug i s sock gI gC).greaseIetf = gI.drop n) ∧
    (∃ n, (passEnv E debug i s sock gI gC).greaseClassic = gC.drop n) := by
  have h0 : ∀ (s : Server) (sock : Gen.Sock) (gI gC : List Grease),
      (pass0 E s sock gI gC).arrivals = [] ∧
      (∃ k, (pass0 E s sock gI gC).nowIetf = ((sock.clock k).secs, (sock.clock k).nanos)) ∧
      (∃ k, (pass0 E s sock gI gC).nowClassic = ((sock.clock k).secs, (sock.clock k).nanos)) ∧
      (∃ n, (pass0 E s sock gI gC).greaseIetf = gI.drop n) ∧
      (∃ n, (pass0 E s sock gI gC).greaseClassic = gC.drop n) :=
    fun s sock gI gC => ⟨rfl, ⟨_, rfl⟩, ⟨_, rfl⟩, ⟨0, rfl⟩, ⟨0, rfl⟩⟩
  intro i
  induction i with
  | zero => exact h0
  | succ i ih =>
    intro s sock gI gC
    unfold passEnv
    split
    · rename_i y _
      obtain ⟨a, ⟨k1, b⟩, ⟨k2, c⟩, ⟨n1, d⟩, ⟨n2, e⟩⟩ := ih y.1 (sockAfter s sock y.2.1)
        (gI.drop y.1.ietf.requests.length) (gC.drop y.1.classic.requests.length)
      refine ⟨a, ⟨k1, b⟩, ⟨k2, c⟩, ⟨y.1.ietf.requests.length + n1, ?_⟩, ⟨y.1.classic.requests.length + n2, ?_⟩⟩
      · rw [d, List.drop_drop]
      · rw [e, List.drop_drop]
    · exact h0 s sock gI gC

/-- the model's `serviceSocket` reads the per-batch inputs only up to the first batch that does not return: it cannot
    tell `passEnv` from `passAt` -/
theorem svc_passEnv (E : Env) (debug : Bool) : ∀ (M : Nat) (s : Server) (sock : Gen.Sock) (gI gC : List Grease)
    (st : Loop), st.srv = s → st.sockQ = toDatagrams sock.inq →
    serviceSocket E debug M st (fun i => passEnv E debug i s sock gI gC) =
      serviceSocket E debug M st (fun i => passAt E debug i s sock gI gC) := by
  intro M
  induction M with
  | zero =>
    intro s sock gI gC st _ _
    simp only [serviceSocket]
  | succ M ih =>
    intro s sock gI gC st hs hq
    unfold serviceSocket
    simp only []
    have hp := pass_eq E debug s sock gI gC st hs hq
    have h0 : passAt E debug 0 s sock gI gC = pass0 E s sock gI gC := rfl
    have h0' : passEnv E debug 0 s sock gI gC = pass0 E s sock gI gC := rfl
    rw [h0, h0', hp]
    cases hb : batchSpec E debug s sock gI gC with
    | ok y =>
      obtain ⟨s', sent, ev⟩ := y
      simp only [Res.bind_ok]
      split
      · rfl
      · have hins : (fun i => passAt E debug (i + 1) s sock gI gC) =
            fun i => passAt E debug i s' (sockAfter s sock sent) (gI.drop s'.ietf.requests.length)
              (gC.drop s'.classic.requests.length) := by
          funext i
          simp only [passAt, hb]
        have hins' : (fun i => passEnv E debug (i + 1) s sock gI gC) =
            fun i => passEnv E debug i s' (sockAfter s sock sent) (gI.drop s'.ietf.requests.length)
              (gC.drop s'.classic.requests.length) := by
          funext i
          simp only [passEnv, hb]
        rw [hins, hins']
        rw [ih s' (sockAfter s sock sent) (gI.drop s'.ietf.requests.length) (gC.drop s'.classic.requests.length)
          { st with srv := s', sockQ := (st.sockQ ++ (pass0 E s sock gI gC).arrivals).drop st.srv.batchSize,
                    sockEdge := st.sockEdge || !(pass0 E s sock gI gC).arrivals.isEmpty,
                    recd := st.recd.recordAll ev } rfl
          (by subst hs; simp only [pass0_arrivals, List.append_nil, hq, sockAfter, toDatagrams_drop])]
    | err => rfl
    | panic site => rfl

theorem sendClientStats_frame (st : Loop) :
    (sendClientStats st).srv = st.srv ∧ (sendClientStats st).sockQ = st.sockQ := by
  unfold sendClientStats
  simp only []
  split <;> exact ⟨rfl, rfl⟩

theorem bind_congr_ok {α β : Type} (r : Res α) (f g : α → Res β) (h : ∀ a, r = .ok a → f a = g a) :
    r.bind f = r.bind g := by
  cases r with
  | ok a => exact h a rfl
  | err => rfl
  | panic q => rfl

theorem hc_frame (st : Loop) (z : Loop × Out) (hh : handleHealthCheck st = .ok z) :
    z.1.srv = st.srv ∧ z.1.sockQ = st.sockQ := by
  unfold handleHealthCheck at hh
  split at hh
  · cases hh
  · cases hh; exact ⟨rfl, rfl⟩

/-- the whole call: as long as the socket has not been serviced the loop state still has the server and receive queue
    the inputs were computed from, and (each token at most once) the socket is serviced at most once -/
theorem modelTail_passEnv (E : Env) (debug : Bool) (s : Server) (sock : Gen.Sock) (gI gC : List Grease) :
    ∀ (toks : List Token), toks.Nodup → ∀ (st : Loop) (sv : Bool),
    (sv = false → st.srv = s ∧ st.sockQ = toDatagrams sock.inq) → (sv = true → Token.message ∉ toks) →
    modelTail E debug (fun i => passEnv E debug i s sock gI gC) toks st sv =
      modelTail E debug (fun i => passAt E debug i s sock gI gC) toks st sv := by
  intro toks
  induction toks with
  | nil =>
    intro _ st sv hst _
    rw [modelTail_nil, modelTail_nil]
    cases sv with
    | true => simp only [Bool.not_true, Bool.and_false, Bool.false_eq_true, if_false]
    | false => rw [svc_passEnv E debug 16 s sock gI gC st (hst rfl).1 (hst rfl).2]
  | cons t ts ih =>
    intro hnd st sv hst hsv
    obtain ⟨hnt, hnd'⟩ := List.nodup_cons.mp hnd
    rw [modelTail_cons, modelTail_cons]
    have hstep : stepT E debug (fun i => passEnv E debug i s sock gI gC) t st sv =
        stepT E debug (fun i => passAt E debug i s sock gI gC) t st sv := by
      cases t with
      | message =>
        have hsvf : sv = false := by
          cases sv with
          | false => rfl
          | true => exact absurd (List.mem_cons_self ..) (hsv rfl)
        simp only [stepT, MAX_BATCHES_PER_CALL]
        rw [svc_passEnv E debug 16 s sock gI gC st (hst hsvf).1 (hst hsvf).2]
      | healthCheck => simp only [stepT]
      | statusUpdate => simp only [stepT]
    rw [hstep]
    apply bind_congr_ok
    intro y hy
    have hrest : (y.2.2 = false → y.1.srv = s ∧ y.1.sockQ = toDatagrams sock.inq) ∧
        (y.2.2 = true → Token.message ∉ ts) := by
      cases t with
      | message =>
        simp only [stepT] at hy
        cases hsvc : serviceSocket E debug MAX_BATCHES_PER_CALL st (fun i => passAt E debug i s sock gI gC) with
        | ok z =>
          rw [hsvc] at hy
          cases hy
          exact ⟨fun h => (by cases h), fun _ => hnt⟩
        | err => rw [hsvc] at hy; cases hy
        | panic q => rw [hsvc] at hy; cases hy
      | healthCheck =>
        simp only [stepT] at hy
        cases hh : handleHealthCheck st with
        | ok z =>
          rw [hh] at hy
          cases hy
          have hz := hc_frame st z hh
          exact ⟨fun h => (by rw [hz.1, hz.2]; exact hst h), fun h hm => hsv h (List.mem_cons_of_mem _ hm)⟩
        | err => rw [hh] at hy; cases hy
        | panic q => rw [hh] at hy; cases hy
      | statusUpdate =>
        simp only [stepT] at hy
        cases hy
        have hz := sendClientStats_frame st
        exact ⟨fun h => (by rw [hz.1, hz.2]; exact hst h), fun h hm => hsv h (List.mem_cons_of_mem _ hm)⟩
    rw [ih hnd' y.1 y.2.2 hrest.1 hrest.2]

end PEAux
end Bridge
end Rough

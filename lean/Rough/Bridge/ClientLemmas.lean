import Rough.Bridge.Message
import Rough.Bridge.Merkle
import Rough.Generated.Src.Client
import Rough.Model.Client
import Rough.Lemmas.KeysBasic
/-
  Helper lemmas for Rough/Bridge/Client.lean.
-/
set_option linter.unusedSimpArgs false
namespace Rough
namespace Bridge
namespace Cl
open Rough.Client

/-! ### `Res` plumbing -/

theorem bind_assoc {α β γ} (r : Res α) (f : α → Res β) (g : β → Res γ) :
    (r.bind f).bind g = r.bind fun a => (f a).bind g := by
  cases r <;> rfl

theorem Sim.panic {α} (s t : String) : (Res.panic s : Res α) ≃ᵣ Res.panic t := trivial

/-- `≃ᵣ` through a bind on both sides, the right one under a final `map` -/
theorem Sim.bind_mapR {α β γ} {r s : Res α} {f : α → Res β} {g : α → Res γ} {t : γ → β}
    (h : r ≃ᵣ s) (hf : ∀ a, f a ≃ᵣ (g a).map t) : r.bind f ≃ᵣ (s.bind g).map t := by
  cases r <;> cases s <;> simp_all [Res.Sim, Res.bind, Res.map]

/-- same, the left value being the `u`-image of the right one -/
theorem Sim.bind_mapR' {α α' β γ} {r : Res α} {s : Res α'} {u : α' → α} {f : α → Res β} {g : α' → Res γ}
    {t : γ → β} (h : r ≃ᵣ s.map u) (hf : ∀ a, f (u a) ≃ᵣ (g a).map t) : r.bind f ≃ᵣ (s.bind g).map t := by
  cases r <;> cases s <;> simp_all [Res.Sim, Res.bind, Res.map]

theorem map_panic {α β} (t : α → β) (s : String) : (Res.panic s : Res α).map t = .panic s := rfl
theorem map_ok {α β} (t : α → β) (a : α) : (Res.ok a : Res α).map t = .ok (t a) := rfl

/-! ### the two new message functions -/

theorem zip_toGen (m : Msg) : List.zip (toGen m).tags (toGen m).values = m.fields :=
  congrArg Msg.fields (ofGen_toGen m)

theorem into_hash_map_eq (m : Msg) : Gen.RtMessage.into_hash_map (toGen m) = .ok m.fields := by
  unfold Gen.RtMessage.into_hash_map
  simp only [Res.pure_eq, zip_toGen]

theorem clear_eq (g : Gen.RtMessage) : Gen.RtMessage.clear g = .ok (toGen Msg.empty) := rfl

/-! ### map lookups, nested parses, integer reads -/

theorem mapIdx_sim (m : Msg) (t : Tag) (site site' : String) :
    Rs.mapIdx m.fields t site ≃ᵣ field site' m t := by
  unfold Rs.mapIdx field Msg.get
  cases m.fields.find? (fun e => e.1 == t) <;> simp [Res.Sim, Res.unwrap]

theorem mapIdx_of_get {m : Msg} {t : Tag} {v : Bytes} (h : m.get t = some v) (site : String) :
    Rs.mapIdx m.fields t site = .ok v := by
  unfold Msg.get at h
  unfold Rs.mapIdx
  cases hf : m.fields.find? (fun e => e.1 == t) with
  | none => rw [hf] at h; cases h
  | some e => rw [hf] at h; simp only [Option.map_some, Option.some.injEq] at h; simp [h]

theorem field_ok_get {site : String} {m : Msg} {t : Tag} {v : Bytes} (h : field site m t = .ok v) :
    m.get t = some v := by
  unfold field at h
  cases hg : m.get t with
  | none => rw [hg] at h; cases h
  | some w => rw [hg] at h; cases h; rfl

theorem from_bytes_of_ok {b : Bytes} {m : Msg} (h : fromBytes b = .ok m) :
    Gen.RtMessage.from_bytes b = .ok (toGen m) := by
  have := from_bytes_sim b
  rw [h] at this
  exact (Res.Sim.ok_iff this (toGen m)).mpr rfl

theorem fromBytesUnwrap_ok' {site : String} {b : Bytes} {m : Msg} (h : fromBytesUnwrap site b = .ok m) :
    fromBytes b = .ok m := by
  unfold fromBytesUnwrap at h
  cases hf : fromBytes b with
  | ok m' => rw [hf] at h; cases h; rfl
  | err => rw [hf] at h; cases h
  | panic s => rw [hf] at h; cases h

/-- `RtMessage::from_bytes(b).unwrap()` -/
theorem parse_sim (b : Bytes) (site site' : String) :
    Rs.unwrapR (Gen.RtMessage.from_bytes b) site ≃ᵣ (fromBytesUnwrap site' b).map toGen := by
  have h := from_bytes_sim b
  unfold fromBytesUnwrap
  cases hf : fromBytes b <;> cases hg : Gen.RtMessage.from_bytes b <;>
    simp_all [Res.Sim, Res.map, Rs.unwrapR]

theorem readU64_sim (b : Bytes) (site site' : String) :
    Rs.unwrapR (Rs.sliceReadU64 b) site ≃ᵣ readU64 site' b := by
  unfold Rs.sliceReadU64 readU64 rd64
  by_cases h : b.length < 8 <;> simp [h, Rs.unwrapR, Res.Sim]

theorem readU32_sim (b : Bytes) (site site' : String) :
    Rs.unwrapR (Rs.sliceReadU32 b) site ≃ᵣ readU32 site' b := by
  unfold Rs.sliceReadU32 readU32 rd32
  by_cases h : b.length < 4 <;> simp [h, Rs.unwrapR, Res.Sim]

/-! ### `make_request` / `receive_response` helpers -/

theorem unwrapR_add_field (m : Msg) (t : Tag) (v : Bytes) (site : String) :
    Rs.unwrapR ((toGen m).add_field t v) site =
      match m.addField t v with
      | some m' => .ok (toGen m')
      | none => .panic site := by
  rw [add_field_eq]
  cases m.addField t v <;> rfl

theorem map_zero_range (n : Nat) : List.map (fun _ => (0 : UInt8)) (List.range n) = zeros n := by
  simp [zeros, List.map_const']

theorem unwrapR_ok {α} (a : α) (site : String) : Rs.unwrapR (Res.ok a) site = .ok a := rfl

theorem optMapM_none {α β} (f : α → Res β) : Rs.optMapM none f = .ok none := rfl
theorem optMapM_some {α β} (a : α) (f : α → Res β) :
    Rs.optMapM (some a) f = (f a).bind fun b => .ok (some b) := rfl

theorem framing_eq : Gen.REQUEST_FRAMING_BYTES = framing := by decide

theorem readU32_new' (b : Bytes) (h : b.length = 4) :
    (Rs.Cursor.new b).readU32 = .ok (rd32 b, ⟨b, 4⟩) := by
  simp [Rs.Cursor.readU32, Rs.Cursor.readExact, Rs.Cursor.new, Rs.Cursor.remaining, h, rd32]

/-- `verify_framing` on the client's 4096-byte receive buffer -/
theorem verify_framing_eq (S : SigScheme) (H : Bytes → Bytes) (buf : Bytes) (hb : buf.length = 4096) :
    Gen.verify_framing S H buf =
      if buf.take 8 ≠ framing then .err else if rd32 (buf.drop 8) > 4096 - 12 then .err else .ok () := by
  unfold Gen.verify_framing
  have e1 : ∀ site, Rs.slice buf 0 8 site = .ok (buf.take 8) := by
    intro site; unfold Rs.slice; rw [if_pos ⟨by omega, by omega⟩]; simp
  have e2 : ∀ site, Rs.slice buf 8 12 site = .ok ((buf.drop 8).take 4) := by
    intro site; unfold Rs.slice; rw [if_pos ⟨by omega, by omega⟩]
  have e3 : ∀ site, Rs.sub buf.length 12 site = .ok (4096 - 12) := by
    intro site; unfold Rs.sub; rw [hb, if_pos (by omega)]
  simp only [Res.pure_eq, Res.bind_eq, e1, e2, e3, Res.bind_ok, framing_eq]
  rw [readU32_new' _ (by simp; omega)]
  have hr : rd32 ((buf.drop 8).take 4) = rd32 (buf.drop 8) := by simp [rd32, List.take_take]
  simp only [Res.bind_ok, hr]
  by_cases h1 : buf.take 8 ≠ framing
  · rw [if_pos h1, if_pos h1]; rfl
  · rw [if_neg h1, if_neg h1]
    by_cases h2 : rd32 (buf.drop 8) > 4096 - 12
    · rw [if_pos h2, if_pos h2]; rfl
    · rw [if_neg h2, if_neg h2]

/-! ### response-handler helpers -/

theorem cfgOf_eq (H : Bytes → Bytes) (hH : ∀ x, (H x).length = 64) (ver : Version) :
    cfgOf H ver = (match ver with
      | Version.google => ⟨H, 64⟩
      | Version.ietf => ⟨fun x => (H x).take 32, 32⟩ : MerkleCfg) := by
  cases ver with
  | ietf => rfl
  | google =>
    simp only [cfgOf, nodeLen]
    congr 1
    funext x
    exact List.take_of_length_le (by rw [hH]; omega)

theorem field_of_get {site : String} {m : Msg} {t : Tag} {v : Bytes} (h : m.get t = some v) :
    field site m t = .ok v := by
  unfold field; rw [h]; rfl

theorem fromBytesUnwrap_of {site : String} {b : Bytes} {m : Msg} (h : fromBytes b = .ok m) :
    fromBytesUnwrap site b = .ok m := by
  unfold fromBytesUnwrap; rw [h]

theorem mapIdx_of_none {m : Msg} {t : Tag} (h : m.get t = none) (site : String) :
    Rs.mapIdx m.fields t site = .panic site := by
  unfold Msg.get at h
  unfold Rs.mapIdx
  cases hf : m.fields.find? (fun e => e.1 == t) with
  | none => rfl
  | some e => rw [hf] at h; cases h

theorem field_of_none {m : Msg} {t : Tag} (h : m.get t = none) (site : String) :
    ∃ s, field site m t = .panic s := by
  unfold field; rw [h]; exact ⟨_, rfl⟩

/-- the three outcomes of a nested parse, on both sides -/
theorem parse_cases (b : Bytes) (site site' : String) :
    (∃ m, fromBytes b = .ok m) ∨
      ((∃ s, Rs.unwrapR (Gen.RtMessage.from_bytes b) site = .panic s) ∧ ∃ s', fromBytesUnwrap site' b = .panic s') := by
  have h := parse_sim b site site'
  cases hm : fromBytesUnwrap site' b with
  | ok m => exact Or.inl ⟨m, fromBytesUnwrap_ok' hm⟩
  | err =>
    exfalso
    unfold fromBytesUnwrap at hm
    cases hf : fromBytes b <;> rw [hf] at hm <;> cases hm
  | panic s' =>
    refine Or.inr ⟨?_, s', rfl⟩
    rw [hm] at h
    cases hg : Rs.unwrapR (Gen.RtMessage.from_bytes b) site with
    | ok a => rw [hg] at h; exact h.elim
    | err => rw [hg] at h; exact h.elim
    | panic s => exact ⟨s, rfl⟩

end Cl
end Bridge
end Rough

import Rough.Bridge.Message
import Rough.Bridge.Merkle
import Rough.Generated.Src.Online
import Rough.Generated.Src.LongTerm
import Rough.Generated.Src.Responder
import Rough.Model.Keys
import Rough.Model.Server
import Rough.Bridge.KeysLemmas
/-
  Bridge theorems for src/key/online.rs, src/key/longterm.rs and the pure part of src/responder.rs: delegation,
  certificate, signed response (midpoint arithmetic, radius, field order, signing contexts) and response assembly
  generated from the Rust source equal, up to `≃ᵣ`, the hand-written models `makeDele`, `makeCert`, `classicMidp`,
  `makeSrep`, `makeResponse`, `Responder.reset`, `Server.add` that C02, C09, C10, C11 are proved about —
  for every signature scheme `S`, SHA-512 `H`, key material, clock reading and Merkle root.
-/
namespace Rough
namespace Bridge

/-- generated long-term key of a model long-term key -/
def toGenLtk (k : LongTermKey) : Gen.LongTermKey := ⟨k.signer, k.srv⟩

theorem ltk_calc_srv_value_sim (S : SigScheme) (H : Bytes → Bytes) (pk : Bytes) :
    Gen.LongTermKey.calc_srv_value H pk ≃ᵣ calcSrv H pk := by
  have e : ([] ++ Gen.HASH_PREFIX_SRV ++ pk : Bytes) = (0xff : UInt8) :: pk := rfl
  simp only [Gen.LongTermKey.calc_srv_value, calcSrv, Rs.slice, slice, e]
  by_cases h : 0 ≤ 32 ∧ 32 ≤ (H ((0xff : UInt8) :: pk)).length
  · rw [if_pos h, if_pos h]; exact Res.Sim.refl _
  · rw [if_neg h, if_neg h]; trivial

/-- `LongTermKey::new` -/
theorem ltk_new_sim (S : SigScheme) (H : Bytes → Bytes) (seed : Bytes) :
    Gen.LongTermKey.new S H seed ≃ᵣ (LongTermKey.new S H seed).map toGenLtk := by
  simp only [Gen.LongTermKey.new, LongTermKey.new, Res.pure_eq, Res.bind_eq, map_bind']
  refine Res.Sim.bind (Res.Sim.refl _) fun sg => ?_
  refine Res.Sim.bind (ltk_calc_srv_value_sim S H _) fun srv => ?_
  exact Res.Sim.refl _

theorem ltk_public_key_eq (S : SigScheme) (H : Bytes → Bytes) (k : LongTermKey) :
    Gen.LongTermKey.public_key S H (toGenLtk k) = .ok (k.publicKey S) := by
  rfl

theorem ltk_srv_value_eq (S : SigScheme) (H : Bytes → Bytes) (k : LongTermKey) :
    Gen.LongTermKey.srv_value_fn S H (toGenLtk k) = .ok k.srv := by
  rfl

/-- one `msg.add_field(TAG, v).unwrap()` of generated code, for a concrete tag above those already present -/
macro "add_step" : tactic =>
  `(tactic| (rw [add_step_ok _ _ _ _ (by simp [Tag.idx])]; simp only [bind_ok_s, List.nil_append, List.cons_append]))

/-- the delegation message -/
def deleMsg (S : SigScheme) (onlSeed : Bytes) : Msg :=
  ⟨[(Tag.PUBK, S.pk onlSeed), (Tag.MINT, zeros 8), (Tag.MAXT, List.replicate 8 0xff)]⟩

theorem makeDele_ok (S : SigScheme) (onlSeed : Bytes) : makeDele S onlSeed = .ok (deleMsg S onlSeed) :=
  Lemmas.Keys.buildMsg_sorted _ _ (by tags_sorted)

theorem make_dele_ok (S : SigScheme) (g : Gen.OnlineKey) :
    Gen.OnlineKey.make_dele S g = .ok (toGen (deleMsg S g.signer.seed)) := by
  simp only [Gen.OnlineKey.make_dele, Res.pure_eq, Res.bind_eq, with_capacity_eq', Res.bind_ok]
  rw [add_step_ok _ _ _ _ (by simp)]
  simp only [Res.bind_ok, List.nil_append]
  rw [add_step_ok _ _ _ _ (by simp [Tag.idx])]
  simp only [Res.bind_ok, List.cons_append, List.nil_append]
  rw [add_step_ok _ _ _ _ (by simp [Tag.idx])]
  rfl

/-- `OnlineKey::make_dele`: PUBK, MINT = 0, MAXT = 2^64-1 -/
theorem make_dele_sim (S : SigScheme) (g : Gen.OnlineKey) :
    Gen.OnlineKey.make_dele S g ≃ᵣ (makeDele S g.signer.seed).map toGen := by
  rw [make_dele_ok, makeDele_ok]; exact Res.Sim.refl _

/-- `LongTermKey::make_cert`: same certificate message, same signer state afterwards -/
theorem make_cert_sim (S : SigScheme) (H : Bytes → Bytes) (k : LongTermKey) (v : Version) (g : Gen.OnlineKey) :
    Gen.LongTermKey.make_cert S H (toGenLtk k) v g ≃ᵣ
      (makeCert S k v g.signer.seed).map (fun p => (toGen p.1, toGenLtk p.2)) := by
  simp only [Gen.LongTermKey.make_cert, makeCert, Res.pure_eq, Res.bind_eq, make_dele_ok, makeDele_ok, Res.bind_ok,
    encode_eq, unwrapR_ok, with_capacity_eq']
  rw [add_step_ok _ _ _ _ (by simp)]
  simp only [Res.bind_ok, List.nil_append]
  rw [add_step_ok _ _ _ _ (by simp [Tag.idx])]
  rw [Lemmas.Keys.buildMsg_sorted _ _ (by tags_sorted)]
  exact Res.Sim.refl _

/-- `classic_midp` with the clock reading substituted (proved by rewriting, not by `rfl`/`simp only` with
    definitional lemmas: the kernel's unifier is very slow on `Rs.mulU64 _ 1000000 _ =?= Res.ok _`) -/
theorem classic_midp_eq (S : SigScheme) (g : Gen.OnlineKey) (t : Rs.Time) :
    Gen.OnlineKey.classic_midp S g t = (Rs.mulU64 t.secs 1000000 "online.rs:classic_midp:mul#1").bind fun secs =>
      Rs.addU64 secs (t.nanos / 1000) "online.rs:classic_midp:add#1" := by
  unfold Gen.OnlineKey.classic_midp
  rw [durationSinceEpoch_eq, unwrapR_ok, Res.bind_eq, Res.bind_ok]
  rfl

/-- `classic_midp`: microseconds, with the u64 overflow panics of the dev profile -/
theorem classic_midp_sim (S : SigScheme) (g : Gen.OnlineKey) (t : Rs.Time) :
    Gen.OnlineKey.classic_midp S g t ≃ᵣ classicMidp t.secs t.nanos := by
  rw [classic_midp_eq]
  unfold classicMidp Rs.mulU64
  by_cases h1 : t.secs * 1000000 ≥ 2 ^ 64
  · rw [if_pos h1, if_pos h1]; trivial
  · rw [if_neg h1, if_neg h1, Res.bind_ok]
    unfold Rs.addU64
    by_cases h2 : t.secs * 1000000 + t.nanos / 1000 ≥ 2 ^ 64
    · rw [if_pos h2, if_pos h2]; trivial
    · rw [if_neg h2, if_neg h2]; exact Res.Sim.refl _

/-- `rfc_midp`: whole seconds -/
theorem rfc_midp_eq (S : SigScheme) (g : Gen.OnlineKey) (t : Rs.Time) :
    Gen.OnlineKey.rfc_midp S g t = .ok (rfcMidp t.secs) := by
  rfl

/-- `OnlineKey::make_srep` for a key object whose `vers_wire_bytes` is what `OnlineKey::new` stores
    (`Version::supported_versions_wire()`): same {SIG, SREP} message and same signer state afterwards, for every
    version, clock reading and root. -/
theorem make_srep_sim (S : SigScheme) (g : Gen.OnlineKey) (hv : g.vers_wire_bytes = Version.supportedWire)
    (v : Version) (t : Rs.Time) (root : Bytes) :
    Gen.OnlineKey.make_srep S g v t root ≃ᵣ
      (makeSrep S g.signer v t.secs t.nanos root).map (fun p => (toGen p.1, { g with signer := p.2 })) := by
  cases v
  · simp only [Gen.OnlineKey.make_srep, Res.pure_eq, Res.bind_eq, bind_ok_s, sliceWrite_le32, unwrapR_ok, if_true]
    simp only [makeSrep, midpOf, map_bind']
    refine Res.Sim.bind (classic_midp_sim S g t) fun a => ?_
    simp only [sliceWrite_le64, unwrapR_ok, bind_ok_s, with_capacity_eq']
    add_step
    add_step
    add_step
    simp only [encode_eq, unwrapR_ok, bind_ok_s]
    add_step
    add_step
    rw [Lemmas.Keys.buildMsg_sorted _ _ (by tags_sorted)]
    simp only [bind_ok_s]
    rw [Lemmas.Keys.buildMsg_sorted _ _ (by tags_sorted)]
    exact Res.Sim.refl _
  · simp only [Gen.OnlineKey.make_srep, Res.pure_eq, Res.bind_eq, bind_ok_s, sliceWrite_le32, unwrapR_ok, rfc_midp_eq,
      reduceCtorEq, if_false, sliceWrite_le64, with_capacity_eq', hv]
    simp only [makeSrep, midpOf, bind_ok_s]
    add_step
    add_step
    add_step
    add_step
    add_step
    simp only [encode_eq, unwrapR_ok, bind_ok_s]
    add_step
    add_step
    rw [Lemmas.Keys.buildMsg_sorted _ _ (by tags_sorted)]
    simp only [bind_ok_s]
    rw [Lemmas.Keys.buildMsg_sorted _ _ (by tags_sorted)]
    exact Res.Sim.refl _

/-- generated responder of a model responder (`E.S`, `E.H` are the module parameters) -/
def toGenResponder (r : Responder) (g : Gen.GreaseQ := default) : Gen.Responder :=
  ⟨r.ver, ⟨r.onl, Version.supportedWire⟩, r.cert, r.requests, toGenTree r.ver r.tree, g⟩

/-- `Responder::make_response` (INDX is a u32) -/
theorem make_response_sim (S : SigScheme) (H : Bytes → Bytes) (g : Gen.Responder) (srep : Msg) (cert path : Bytes)
    (idx : Nat) (nonce : Bytes) :
    Gen.Responder.make_response S H g (toGen srep) cert path idx nonce ≃ᵣ
      (makeResponse srep cert path idx nonce).map toGen := by
  simp only [Gen.Responder.make_response, makeResponse, Res.pure_eq, Res.bind_eq, bind_ok_s, sliceWrite_le32, unwrapR_ok,
    get_field_eq]
  cases srep.get Tag.SIG with
  | none => trivial
  | some sig =>
    simp only [Rs.unwrapO, Res.unwrap, bind_ok_s]
    cases srep.get Tag.SREP with
    | none => trivial
    | some srepB =>
      simp only [bind_ok_s, with_capacity_eq']
      add_step
      add_step
      add_step
      add_step
      add_step
      add_step
      rw [Lemmas.Keys.buildMsg_sorted _ _ (by tags_sorted)]
      exact Res.Sim.refl _

theorem responder_reset_eq (S : SigScheme) (H : Bytes → Bytes) (r : Responder) :
    Gen.Responder.reset S H (toGenResponder r) = .ok (toGenResponder (Responder.reset r)) := by
  simp only [Gen.Responder.reset, toGenResponder, Res.pure_eq, Res.bind_eq, reset_eq, bind_ok_s]
  rfl

theorem responder_is_empty_eq (S : SigScheme) (H : Bytes → Bytes) (r : Responder) :
    Gen.Responder.is_empty S H (toGenResponder r) = .ok r.requests.isEmpty := by
  rfl

/-- `add_classic_request` (leaf = nonce) -/
theorem add_classic_request_sim (E : Env) (hH : ∀ x, (E.H x).length = 64) (r : Responder)
    (nonce : Bytes) (src : Stats.Addr) :
    Gen.Responder.add_classic_request E.S E.H (toGenResponder r) nonce src ≃ᵣ
      (Responder.add E r nonce nonce src).map toGenResponder := by
  simp only [Gen.Responder.add_classic_request, Responder.add, toGenResponder, Res.pure_eq, Res.bind_eq, map_bind',
    mcfg_eq E hH]
  refine Sim.bind_map (push_leaf_sim E.H hH r.ver r.tree nonce) fun b => ?_
  exact Res.Sim.refl _

/-- `add_ietf_request` (leaf = the whole datagram) -/
theorem add_ietf_request_sim (E : Env) (hH : ∀ x, (E.H x).length = 64) (r : Responder)
    (data nonce : Bytes) (src : Stats.Addr) :
    Gen.Responder.add_ietf_request E.S E.H (toGenResponder r) data nonce src ≃ᵣ
      (Responder.add E r data nonce src).map toGenResponder := by
  simp only [Gen.Responder.add_ietf_request, Responder.add, toGenResponder, Res.pure_eq, Res.bind_eq, map_bind',
    mcfg_eq E hH]
  refine Sim.bind_map (push_leaf_sim E.H hH r.ver r.tree data) fun b => ?_
  exact Res.Sim.refl _

end Bridge
end Rough

import Rough.Bridge.Basic
import Rough.Lemmas.Request
/-
  Helper lemmas for Rough/Bridge/Request.lean: a search loop rule for `Rs.forListR`, transport of `≃ᵣ` through a
  bind whose left value is the image of the right one, and the `Cursor` read of a 4-byte slice.
  (Also brings `Rough.Lemmas.Request` — `no_panic` of the model classifier — into scope of the bridge file.)
-/
namespace Rough
namespace Bridge

/-- a `forListR` whose body returns the constant `r` on the first element satisfying `p` and otherwise goes on
    is `List.any p` -/
theorem forListR_find {α ρ : Type} (p : α → Bool) (r : ρ) (f : α → Unit → Res (Rs.Flow Unit ρ))
    (hf : ∀ c s, f c s = .ok (if p c = true then Rs.Flow.ret r else Rs.Flow.next ())) (l : List α) :
    Rs.forListR l () f = .ok (if l.any p = true then Rs.Flow.ret r else Rs.Flow.next ()) := by
  induction l with
  | nil => rfl
  | cons c l ih =>
    rw [Rs.forListR_cons, hf, List.any_cons]
    cases h : p c
    · simpa using ih
    · simp

/-- bind respects `≃ᵣ` when the left computation yields the `t`-image of the right one -/
theorem Sim.bind_map {α β γ : Type} {r : Res α} {s : Res β} {t : β → α} (h : r ≃ᵣ s.map t)
    {f : α → Res γ} {g : β → Res γ} (hf : ∀ b, f (t b) ≃ᵣ g b) : r.bind f ≃ᵣ s.bind g := by
  cases r <;> cases s <;> simp_all [Res.Sim, Res.map, Res.bind]

/-- `read_u32::<LE>` on a fresh cursor over exactly four bytes -/
theorem readU32_new (b : Bytes) (h : b.length = 4) :
    (Rs.Cursor.new b).readU32 = .ok (rd32 b, ⟨b, 4⟩) := by
  simp [Rs.Cursor.readU32, Rs.Cursor.readExact, Rs.Cursor.new, Rs.Cursor.remaining, h, rd32]

end Bridge
end Rough

import Rough.Gen.Prelude
import Rough.Model.Codec
/-
  Bridge between the code generated from /repo's Rust sources (`Rough.Gen.*`, regenerated on every run by
  checklib/rs2lean) and the hand-written model (`Rough.Model.*`) that the property theorems are about.

  `Res.Sim r s`: same outcome — equal values, both errors, or both panics (panic *site strings* are not compared:
  the generated ones contain line numbers, which move under harmless edits).
-/
namespace Rough

def Res.Sim {α : Type} (r s : Res α) : Prop :=
  match r, s with
  | .ok a, .ok b => a = b
  | .err, .err => True
  | .panic _, .panic _ => True
  | _, _ => False

infix:50 " ≃ᵣ " => Res.Sim

namespace Res
theorem Sim.refl {α} (r : Res α) : r ≃ᵣ r := by cases r <;> simp [Res.Sim]
theorem Sim.of_eq {α} {r s : Res α} (h : r = s) : r ≃ᵣ s := h ▸ Sim.refl r
theorem Sim.symm {α} {r s : Res α} (h : r ≃ᵣ s) : s ≃ᵣ r := by
  cases r <;> cases s <;> simp_all [Res.Sim]
theorem Sim.trans {α} {r s t : Res α} (h₁ : r ≃ᵣ s) (h₂ : s ≃ᵣ t) : r ≃ᵣ t := by
  cases r <;> cases s <;> cases t <;> simp_all [Res.Sim]
theorem Sim.ok_iff {α} {r s : Res α} (h : r ≃ᵣ s) (a : α) : r = .ok a ↔ s = .ok a := by
  cases r <;> cases s <;> simp_all [Res.Sim]
theorem Sim.err_iff {α} {r s : Res α} (h : r ≃ᵣ s) : r = .err ↔ s = .err := by
  cases r <;> cases s <;> simp_all [Res.Sim]
theorem Sim.isPanic_eq {α} {r s : Res α} (h : r ≃ᵣ s) : r.isPanic = s.isPanic := by
  cases r <;> cases s <;> simp_all [Res.Sim, Res.isPanic]
/-- bind respects `≃ᵣ` when the continuations agree on every value -/
theorem Sim.bind {α β} {r s : Res α} {f g : α → Res β} (h : r ≃ᵣ s) (hf : ∀ a, f a ≃ᵣ g a) :
    r.bind f ≃ᵣ s.bind g := by
  cases r <;> cases s <;> simp_all [Res.Sim, Res.bind]

def map {α β} (f : α → β) : Res α → Res β
  | .ok a => .ok (f a)
  | .err => .err
  | .panic s => .panic s
end Res

end Rough

import Rough.Bridge.Basic
import Rough.Generated.Src.Config
import Rough.Model.Config
/-
  Lemmas for Rough/Bridge/Config.lean: a characterisation of the generated `Gen.is_valid_config` (when it returns
  `Ok(true)`, and that it never returns `Err`) by a Boolean over the configuration record and the three file-system facts.

  Proof shape: after inlining the do-notation join points the function is a tree of `if`s whose leaves are the
  "persistence directory + socket address" tail, started with the flag `false` or `true`. The flag-only conditions are
  split one after the other; in the branch where a condition fails every leaf below is the tail with flag `false`, so
  `ite_self` collapses the whole subtree and the tail is analysed once per branch (linear, not exponential).
-/
namespace Rough
namespace Bridge

/-- the persistence-directory condition, on the three file-system facts the Rust code consults -/
def cfgFsOk (fs : Gen.Fs) (c : Config.Cfg) : Bool :=
  if c.clientStats then
    (match c.persistDir with
     | some d => fs.isDir d && fs.pathExists d && !fs.readonly d
     | none => false)
  else true

/-- the six flag-only checks, written with the generated conditions -/
def cfgFlags (c : Config.Cfg) : Bool :=
  decide (c.port ≠ 0) && !c.interface.isEmpty && !c.seed.isEmpty &&
  (if c.kmsPlain then decide (c.seed.length = 32) else decide (¬ c.seed.length ≤ 32)) &&
  decide (¬ (c.batchSize < 1 ∨ c.batchSize > 64)) && decide (¬ c.faultPct > 50) && decide (c.numWorkers ≠ 0)

local macro "cfg_step" h:ident : tactic =>
  `(tactic| simp only [$h:ident, ↓reduceIte, ite_self, ne_eq, not_true_eq_false, not_false_eq_true, decide_true, decide_false,
      Bool.true_and, Bool.false_and, Bool.and_true, Bool.and_false, Bool.not_true, Bool.not_false,
      Bool.false_eq_true, true_and, false_and, and_true, and_false, reduceCtorEq])

/-- the part after the flag-only checks: case analysis on `client_stats`, `persistence_directory`, the three
    file-system facts and the socket-address check -/
local macro "cfg_leaf" fs:ident c:ident : tactic =>
  `(tactic| (
    cases hip : Config.isIpv4 (Config.Cfg.interface $c) <;> cases hcs : Config.Cfg.clientStats $c <;>
    cases hpd : Config.Cfg.persistDir $c <;>
    simp [cfgFsOk, Rs.unwrapO, hip, hcs, hpd] <;>
    (rename_i d
     cases hp : Gen.Fs.pathExists $fs d <;> simp [Rs.unwrapR] <;>
     cases hd : Gen.Fs.isDir $fs d <;> cases hr : Gen.Fs.readonly $fs d <;> simp [*])))

theorem is_valid_config_char (fs : Gen.Fs) (c : Config.Cfg) :
    (Gen.is_valid_config fs c = .ok true ↔ (cfgFlags c && (cfgFsOk fs c && Config.isIpv4 c.interface)) = true) ∧
    Gen.is_valid_config fs c ≠ .err := by
  unfold Gen.is_valid_config cfgFlags
  simp only [Res.pure_eq, Res.bind_eq, Gen.SEED_LENGTH]
  by_cases h1 : c.port = 0
  · cfg_step h1; cfg_leaf fs c
  cfg_step h1
  by_cases h2 : c.interface.isEmpty = true
  · cfg_step h2; cfg_leaf fs c
  cfg_step h2
  by_cases h6 : (c.batchSize < 1 ∨ c.batchSize > 64)
  · cfg_step h6; cfg_leaf fs c
  cfg_step h6
  by_cases h7 : c.faultPct > 50
  · cfg_step h7; cfg_leaf fs c
  cfg_step h7
  by_cases h8 : c.numWorkers = 0
  · cfg_step h8; cfg_leaf fs c
  cfg_step h8
  by_cases h3 : c.seed.isEmpty = true
  · cfg_step h3; cfg_leaf fs c
  cfg_step h3
  by_cases h4 : c.kmsPlain = true
  · cfg_step h4
    by_cases h5 : c.seed.length = 32
    · cfg_step h5; cfg_leaf fs c
    · cfg_step h5; cfg_leaf fs c
  · cfg_step h4
    by_cases h5 : c.seed.length ≤ 32
    · cfg_step h5; cfg_leaf fs c
    · cfg_step h5; cfg_leaf fs c

end Bridge
end Rough

import Rough.Bridge.SendResponses
import Rough.Bridge.Request
import Rough.Generated.Src.Server
import Rough.Model.Server
import Rough.Bridge.ServerLoopLemmas
/-
  Bridge theorems for the datagram path of src/server.rs: `Server::collect_requests` and `Server::service_socket`
  generated from the Rust source, against the model's `Server.collect` / `Server.pass` (about which C07, C08, C09, C17
  are proved) and the 16-batch bound with the backlog flag (C19, C18; `EventLoop.serviceSocket`).
  Environment (Rough/Gen/ServerExt.lean): the socket holds the receive queue `inq`, every send succeeds (`ok = true`,
  loopback — failing sends are `send_responses_sim`), no datagram arrives while the call runs, the clock is the
  socket's `clock`.  Fault-injection decisions are the responders' `grease.pending` lists.
-/
namespace Rough
namespace Bridge
open Rough.Stats

/-- the fields of the generated server that the datagram path (`collect_requests`, `service_socket`) never reads or writes -/
structure GenRest where
  health_listener : Option Unit := none
  poll_duration : Option Rs.Time := none
  poll : Gen.Poll := {}
  thread_name : String := ""
  stats_pub_freq : Rs.Time := ⟨0, 0⟩
  stats_pub_timer : List Rs.Time := []
  stats_queue : List (List Gen.ClientStats) := []
  tcp : Gen.Tcp := {}
  recorder_kind : Option Nat := none

/-- the generated server of a model server with its environment -/
def toGenServer (x : GenRest) (s : Server) (sock : Gen.Sock) (buf : Bytes) (backlog : Bool) (ev : List Event)
    (gI gC : Gen.GreaseQ) : Gen.Server :=
  { batch_size := s.batchSize, socket := sock, health_listener := x.health_listener,
    poll_duration := x.poll_duration, poll := x.poll,
    responder_ietf := toGenResponder s.ietf gI, responder_classic := toGenResponder s.classic gC,
    buf := buf, thread_name := x.thread_name, srv_value := s.srv, socket_backlog := backlog,
    stats_pub_freq := x.stats_pub_freq, stats_pub_timer := x.stats_pub_timer, stats_recorder := ev,
    stats_queue := x.stats_queue, tcp := x.tcp, recorder_kind := x.recorder_kind }

/-- the part of a generated server state that `GenRest` describes -/
def restOf (g : Gen.Server) : GenRest :=
  { health_listener := g.health_listener, poll_duration := g.poll_duration, poll := g.poll,
    thread_name := g.thread_name, stats_pub_freq := g.stats_pub_freq, stats_pub_timer := g.stats_pub_timer,
    stats_queue := g.stats_queue, tcp := g.tcp, recorder_kind := g.recorder_kind }

theorem restOf_toGenServer (x : GenRest) (s : Server) (sock : Gen.Sock) (buf : Bytes) (backlog : Bool) (ev : List Event)
    (gI gC : Gen.GreaseQ) : restOf (toGenServer x s sock buf backlog ev gI gC) = x := rfl

theorem restOf_backlog (g : Gen.Server) (b : Bool) : restOf { g with socket_backlog := b } = restOf g := rfl

/-- what is observable of a generated server state (the receive buffer's stale content is not) -/
def obsServer (g : Gen.Server) :
    Nat × (Version × Gen.OnlineKey × Bytes × List (Bytes × Nat) × Gen.MerkleTree × List Grease) ×
      (Version × Gen.OnlineKey × Bytes × List (Bytes × Nat) × Gen.MerkleTree × List Grease) × Bytes × Bool ×
      List (Option Sent) × Nat × List (Bytes × Addr) × Nat × List Event :=
  (g.batch_size,
   (g.responder_ietf.version, g.responder_ietf.online_key, g.responder_ietf.cert_bytes, g.responder_ietf.requests,
    g.responder_ietf.merkle, g.responder_ietf.grease.pending),
   (g.responder_classic.version, g.responder_classic.online_key, g.responder_classic.cert_bytes,
    g.responder_classic.requests, g.responder_classic.merkle, g.responder_classic.grease.pending),
   g.srv_value, g.socket_backlog, g.socket.out, g.socket.n, g.socket.inq, g.buf.length, g.stats_recorder)

/-- datagrams as the model sees them -/
def toDatagrams (q : List (Bytes × Addr)) : List Datagram := q.map fun p => ⟨p.2, p.1⟩

/-! ### `collect_requests` -/

/-- how `collect_requests` finishes after its loop -/
def collectPost (f : Rs.Flow Gen.Server (Bool × Gen.Server)) : Bool × Gen.Server :=
  match f with
  | .ret v => v
  | .next n => (false, n)
  | .brk n => (false, n)

/-- loop rule for `collect_requests` over an abstract body: an iteration on an empty queue returns `true`, an iteration
    on a non-empty queue is the model's `collectOne` of the oldest datagram -/
theorem collect_loop (E : Env) (x : GenRest) (backlog : Bool) (gI gC : Gen.GreaseQ)
    (body : Nat → Gen.Server → Res (Rs.Flow Gen.Server (Bool × Gen.Server)))
    (hempty : ∀ i s sock buf ev, sock.inq = [] →
      body i (toGenServer x s sock buf backlog ev gI gC) = .ok (.ret (true, toGenServer x s sock buf backlog ev gI gC)))
    (hcons : ∀ i s sock buf ev d a rest, sock.inq = (d, a) :: rest → d.length ≤ buf.length →
      body i (toGenServer x s sock buf backlog ev gI gC) ≃ᵣ
        (Server.collectOne E s ⟨a, d⟩).map (fun y => Rs.Flow.next
          (toGenServer x y.1 { sock with inq := rest } (d ++ buf.drop d.length) backlog (ev ++ [y.2]) gI gC))) :
    ∀ (l : List Nat) (s : Server) (sock : Gen.Sock) (buf : Bytes) (ev : List Event),
      (∀ p ∈ sock.inq, p.1.length ≤ buf.length) →
      (Rs.forListR l (toGenServer x s sock buf backlog ev gI gC) body).map collectPost ≃ᵣ
        (Server.collect E s (toDatagrams (sock.inq.take l.length))).map (fun y =>
          (decide (sock.inq.length < l.length),
            toGenServer x y.1 { sock with inq := sock.inq.drop l.length } (bufAfter buf (sock.inq.take l.length)) backlog
              (ev ++ y.2) gI gC)) := by
  intro l
  induction l with
  | nil =>
    intro s sock buf ev _
    simp [Server.collect, toDatagrams, collectPost, Res.map, Res.Sim]
  | cons i l ih =>
    intro s sock buf ev hfit
    obtain ⟨ok, n, out, inq, clk⟩ := sock
    cases inq with
    | nil =>
      rw [Rs.forListR_cons, hempty i s _ buf ev rfl]
      simp [Server.collect, toDatagrams, collectPost, Res.map, Res.Sim]
    | cons p rest =>
      obtain ⟨d, a⟩ := p
      have hd : d.length ≤ buf.length := hfit (d, a) (List.mem_cons_self ..)
      have hb := hcons i s ⟨ok, n, out, (d, a) :: rest, clk⟩ buf ev d a rest rfl hd
      rw [Rs.forListR_cons]
      simp only [List.length_cons, List.take_succ_cons, toDatagrams, List.map_cons, Server.collect]
      cases h1 : Server.collectOne E s ⟨a, d⟩ with
      | ok y =>
        rw [h1] at hb
        cases h2 : body i (toGenServer x s ⟨ok, n, out, (d, a) :: rest, clk⟩ buf backlog ev gI gC) with
        | ok st =>
          rw [h2] at hb
          have e : st = _ := hb
          subst e
          have hfit' : ∀ p ∈ rest, p.1.length ≤ (d ++ buf.drop d.length).length := by
            intro p hp; rw [recv_length _ _ hd]; exact hfit p (List.mem_cons_of_mem _ hp)
          have := ih y.1 ⟨ok, n, out, rest, clk⟩ (d ++ buf.drop d.length) (ev ++ [y.2]) hfit'
          refine Res.Sim.trans this ?_
          simp only [toDatagrams, bind_ok_s]
          cases Server.collect E y.1 (List.map (fun p => ({ src := p.2, bytes := p.1 } : Datagram)) (List.take l.length rest)) with
          | ok z => simp [Res.bind, Res.map, Res.Sim]
          | err => trivial
          | panic site => trivial
        | err => rw [h2] at hb; exact hb.elim
        | panic site => rw [h2] at hb; exact hb.elim
      | err =>
        rw [h1] at hb
        cases h2 : body i (toGenServer x s ⟨ok, n, out, (d, a) :: rest, clk⟩ buf backlog ev gI gC) with
        | ok st => rw [h2] at hb; exact hb.elim
        | err => trivial
        | panic site => rw [h2] at hb; exact hb.elim
      | panic site0 =>
        rw [h1] at hb
        cases h2 : body i (toGenServer x s ⟨ok, n, out, (d, a) :: rest, clk⟩ buf backlog ev gI gC) with
        | ok st => rw [h2] at hb; exact hb.elim
        | err => rw [h2] at hb; exact hb.elim
        | panic site => trivial

theorem collect_wrap (x : Res (Rs.Flow Gen.Server (Bool × Gen.Server)))
    (f : Rs.Flow Gen.Server (Bool × Gen.Server) → Res (Bool × Gen.Server)) (hf : ∀ x, f x = .ok (collectPost x)) :
    x.bind f = x.map collectPost := by
  cases x <;> simp [Res.bind, Res.map, hf]

/-- exact form of `collect_requests_sim`: the whole server state afterwards -/
theorem collect_requests_exact (E : Env) (hH : ∀ z, (E.H z).length = 64) (LOG : Nat) (x : GenRest) (s : Server) (sock : Gen.Sock)
    (buf : Bytes) (backlog : Bool) (ev : List Event) (gI gC : Gen.GreaseQ)
    (hfit : ∀ p ∈ sock.inq, p.1.length ≤ buf.length) :
    Gen.Server.collect_requests E.S E.H LOG (toGenServer x s sock buf backlog ev gI gC)
      ≃ᵣ (Server.collect E s (toDatagrams (sock.inq.take s.batchSize))).map
        (fun y => (decide (sock.inq.length < s.batchSize),
          toGenServer x y.1 { sock with inq := sock.inq.drop s.batchSize } (bufAfter buf (sock.inq.take s.batchSize))
            backlog (ev ++ y.2) gI gC)) := by
  unfold Gen.Server.collect_requests
  simp only [Res.pure_eq, Res.bind_eq]
  rw [collect_wrap _ _ (fun x => by cases x <;> rfl)]
  refine Res.Sim.trans (collect_loop E x backlog gI gC _ ?hempty ?hcons (List.range s.batchSize) s sock buf ev hfit) ?fin
  case fin =>
    rw [List.length_range]
    exact Res.Sim.refl _
  case hempty =>
    intro i s sock buf ev hq
    simp only [toGenServer, Gen.Sock.recvFrom, hq]
  case hcons =>
    intro i s sock buf ev d a rest hq hd
    have ht : d.take buf.length = d := List.take_of_length_le hd
    simp only [toGenServer, Gen.Sock.recvFrom, hq, ht]
    have hlen : d.length ≤ (d ++ buf.drop d.length).length := by simp
    have hn := nonce_from_request_sim (d ++ buf.drop d.length) d.length s.srv hlen
    rw [recv_take] at hn
    simp only [Server.collectOne]
    cases h1 : nonceFromRequest d s.srv with
    | ok p =>
      obtain ⟨nonce, v⟩ := p
      rw [h1] at hn
      cases h2 : Gen.nonce_from_request (d ++ buf.drop d.length) d.length s.srv with
      | ok q =>
        rw [h2] at hn
        have e : q = (nonce, v) := hn
        subst e
        cases v with
        | ietf =>
          simp only [Rs.sliceTo, hlen, if_true, recv_take, bind_ok_s, map_bind']
          refine Sim.bind_map (add_ietf_request_sim' E hH s.ietf gI d nonce a) fun b => ?_
          exact Res.Sim.refl _
        | google =>
          simp only [map_bind']
          refine Sim.bind_map (add_classic_request_sim' E hH s.classic gC nonce a) fun b => ?_
          exact Res.Sim.refl _
      | err => rw [h2] at hn; exact hn.elim
      | panic site => rw [h2] at hn; exact hn.elim
    | err =>
      rw [h1] at hn
      cases h2 : Gen.nonce_from_request (d ++ buf.drop d.length) d.length s.srv with
      | ok q => rw [h2] at hn; exact hn.elim
      | err => exact Res.Sim.refl _
      | panic site => rw [h2] at hn; exact hn.elim
    | panic site0 =>
      rw [h1] at hn
      cases h2 : Gen.nonce_from_request (d ++ buf.drop d.length) d.length s.srv with
      | ok q => rw [h2] at hn; exact hn.elim
      | err => rw [h2] at hn; exact hn.elim
      | panic site => trivial

/-- `collect_requests`: reads `min(batch_size, |inq|)` datagrams, classifies each with the model's request classifier,
    queues it on the right responder and records the event; returns `true` iff the queue ran dry (WouldBlock) before
    `batch_size` datagrams were read.  Every queued datagram fits in the receive buffer. -/
theorem collect_requests_sim (E : Env) (hH : ∀ z, (E.H z).length = 64) (LOG : Nat) (x : GenRest) (s : Server) (sock : Gen.Sock) (buf : Bytes)
    (backlog : Bool) (ev : List Event) (gI gC : Gen.GreaseQ)
    (hfit : ∀ p ∈ sock.inq, p.1.length ≤ buf.length) :
    (Gen.Server.collect_requests E.S E.H LOG (toGenServer x s sock buf backlog ev gI gC)).map
        (fun x => (x.1, obsServer x.2))
      ≃ᵣ (Server.collect E s (toDatagrams (sock.inq.take s.batchSize))).map
        (fun y => (decide (sock.inq.length < s.batchSize),
          obsServer (toGenServer x y.1 { sock with inq := sock.inq.drop s.batchSize } buf backlog (ev ++ y.2) gI gC))) := by
  have h := Sim.map_congr (collect_requests_exact E hH LOG x s sock buf backlog ev gI gC hfit)
    (fun x => (x.1, obsServer x.2))
  refine Res.Sim.trans h (Res.Sim.of_eq ?_)
  rw [map_map]
  have hl : (bufAfter buf (sock.inq.take s.batchSize)).length = buf.length :=
    bufAfter_length _ _ fun p hp => hfit p (List.mem_of_mem_take hp)
  cases Server.collect E s (toDatagrams (sock.inq.take s.batchSize)) with
  | ok y => simp only [Res.map, Function.comp, obsServer, toGenServer, hl]
  | err => rfl
  | panic site => rfl

/-- one batch of `service_socket` as the model's `Server.pass` on the next chunk, with the clock readings and
    fault-injection decisions taken from the environment; returns the model outputs and the environment afterwards -/
def batchSpec (E : Env) (debug : Bool) (s : Server) (sock : Gen.Sock) (gI gC : List Grease) :
    Res (Server × List Sent × List Event) :=
  let chunk := toDatagrams (sock.inq.take s.batchSize)
  -- the IETF batch is sent first: its clock reading is taken at `sock.n`, the classic one after the IETF sends
  (Server.collect E { s with ietf := s.ietf.reset, classic := s.classic.reset } chunk).bind fun (s1, _) =>
  let nI := s1.ietf.requests.length
  Server.pass E debug s
    { chunk := chunk,
      nowIetf := ((sock.clock sock.n).secs, (sock.clock sock.n).nanos),
      nowClassic := ((sock.clock (sock.n + nI)).secs, (sock.clock (sock.n + nI)).nanos),
      greaseIetf := gI, greaseClassic := gC }

/-- `service_socket` as at most `M` model passes over consecutive chunks of the receive queue; stops after the first
    chunk shorter than `batch_size` (backlog flag cleared), or after `M` full chunks (flag set) -/
def serviceSpec (E : Env) (debug : Bool) : Nat → Server → Gen.Sock → List Grease → List Grease →
    Res (Server × Bool × List Sent × List Event × List (Bytes × Addr) × List Grease × List Grease)
  | 0, s, sock, gI, gC => .ok (s, true, [], [], sock.inq, gI, gC)
  | M + 1, s, sock, gI, gC =>
    (batchSpec E debug s sock gI gC).bind fun (s', sent, ev) =>
    let nI := s'.ietf.requests.length
    let nC := s'.classic.requests.length
    let sock' : Gen.Sock := { sock with inq := sock.inq.drop s.batchSize, n := sock.n + sent.length,
                                        out := sock.out ++ sent.map some }
    if sock.inq.length < s.batchSize then .ok (s', false, sent, ev, sock'.inq, gI.drop nI, gC.drop nC)
    else (serviceSpec E debug M s' sock' (gI.drop nI) (gC.drop nC)).bind fun (s'', bl, sent', ev', q, gI', gC') =>
      .ok (s'', bl, sent ++ sent', ev ++ ev', q, gI', gC')

/-! ### `service_socket` -/

/-- how `service_socket` finishes after its loop -/
def servicePost (f : Rs.Flow Gen.Server Gen.Server) : Gen.Server :=
  match f with
  | .ret v => v
  | .next n => { n with socket_backlog := true }
  | .brk n => { n with socket_backlog := true }

/-- the observables of `service_socket_sim` -/
def obsSvc (g : Gen.Server) :=
  (g.socket_backlog, g.socket.out, g.socket.inq, g.stats_recorder, g.responder_ietf.requests,
    g.responder_classic.requests, g.responder_ietf.merkle, g.responder_classic.merkle,
    g.responder_ietf.online_key, g.responder_classic.online_key,
    g.responder_ietf.grease.pending, g.responder_classic.grease.pending)

def specObs (sock : Gen.Sock) (ev : List Event)
    (y : Server × Bool × List Sent × List Event × List (Bytes × Addr) × List Grease × List Grease) :=
  (y.2.1, sock.out ++ y.2.2.1.map some, y.2.2.2.2.1, ev ++ y.2.2.2.1, y.1.ietf.requests, y.1.classic.requests,
    toGenTree y.1.ietf.ver y.1.ietf.tree, toGenTree y.1.classic.ver y.1.classic.tree,
    (⟨y.1.ietf.onl, Version.supportedWire⟩ : Gen.OnlineKey), (⟨y.1.classic.onl, Version.supportedWire⟩ : Gen.OnlineKey),
    y.2.2.2.2.2.1, y.2.2.2.2.2.2)

/-- the socket after a batch that put `sent` on the wire -/
def sockAfter (s : Server) (sock : Gen.Sock) (sent : List Sent) : Gen.Sock :=
  { sock with inq := sock.inq.drop s.batchSize, n := sock.n + sent.length, out := sock.out ++ sent.map some }

/-- the generated server after one batch whose model outputs are `y` -/
def afterBatch (x : GenRest) (s : Server) (sock : Gen.Sock) (buf : Bytes) (backlog : Bool) (ev : List Event)
    (gI gC : List Grease) (cI cC : Grease) (y : Server × List Sent × List Event) : Gen.Server :=
  toGenServer x y.1 (sockAfter s sock y.2.1) (bufAfter buf (sock.inq.take s.batchSize)) backlog (ev ++ y.2.2)
    ⟨gI.drop y.1.ietf.requests.length, curAfter gI cI y.1.ietf.requests.length⟩
    ⟨gC.drop y.1.classic.requests.length, curAfter gC cC y.1.classic.requests.length⟩

/-- `batchSpec` as one chain: collect, IETF batch, classic batch -/
def batchChain (E : Env) (debug : Bool) (s : Server) (sock : Gen.Sock) (gI gC : List Grease) :
    Res (Server × List Sent × List Event) :=
  (Server.collect E { s with ietf := s.ietf.reset, classic := s.classic.reset }
      (toDatagrams (sock.inq.take s.batchSize))).bind fun y1 =>
  (y1.1.ietf.sendResponses E debug ((sock.clock sock.n).secs, (sock.clock sock.n).nanos) gI).bind fun yI =>
  (y1.1.classic.sendResponses E debug
      ((sock.clock (sock.n + y1.1.ietf.requests.length)).secs, (sock.clock (sock.n + y1.1.ietf.requests.length)).nanos)
      gC).bind fun yC =>
  .ok ({ y1.1 with ietf := yI.1, classic := yC.1 }, yI.2.1 ++ yC.2.1, y1.2 ++ yI.2.2 ++ yC.2.2)

theorem batchSpec_eq (E : Env) (debug : Bool) (s : Server) (sock : Gen.Sock) (gI gC : List Grease) :
    batchSpec E debug s sock gI gC = batchChain E debug s sock gI gC := by
  unfold batchSpec batchChain Server.pass
  have ht : (toDatagrams (sock.inq.take s.batchSize)).take s.batchSize = toDatagrams (sock.inq.take s.batchSize) := by
    apply List.take_of_length_le
    simp only [toDatagrams, List.length_map, List.length_take]
    exact Nat.min_le_left _ _
  simp only [ht]
  cases Server.collect E { s with ietf := s.ietf.reset, classic := s.classic.reset }
      (toDatagrams (sock.inq.take s.batchSize)) with
  | ok y1 => simp only [Res.bind_ok]
  | err => rfl
  | panic site => rfl

/-- bind respects `≃ᵣ` when the left computation is the image of the right one under `q`; the continuations need
    agree only on the value the right one actually returns -/
theorem Sim.bind_map_eq {α β δ : Type} {r : Res α} {s : Res β} {q : β → α} (h : r ≃ᵣ s.map q)
    {f : α → Res δ} {g : β → Res δ} (hf : ∀ b, s = .ok b → f (q b) ≃ᵣ g b) : r.bind f ≃ᵣ s.bind g := by
  cases r <;> cases s <;> simp_all [Res.Sim, Res.map, Res.bind]

theorem svc_wrap {α : Type} (x : Res (Rs.Flow Gen.Server Gen.Server)) (obs : Gen.Server → α)
    (k : Rs.Flow Gen.Server Gen.Server → Res α) (hk : ∀ f, k f = .ok (obs (servicePost f))) :
    x.bind k = x.map (fun f => obs (servicePost f)) := by
  cases x <;> simp [Res.bind, Res.map, hk]

/-- loop rule for `service_socket` over an abstract body: one iteration is one `batchSpec` -/
theorem service_loop (E : Env) (debug : Bool) (x : GenRest)
    (body : Nat → Gen.Server → Res (Rs.Flow Gen.Server Gen.Server))
    (hbody : ∀ i s sock buf backlog ev gI gC cI cC, (∀ a k, sock.ok a k = true) →
      (∀ p ∈ sock.inq, p.1.length ≤ buf.length) →
      body i (toGenServer x s sock buf backlog ev ⟨gI, cI⟩ ⟨gC, cC⟩) ≃ᵣ
        (batchSpec E debug s sock gI gC).map fun y =>
          if sock.inq.length < s.batchSize then Rs.Flow.ret (afterBatch x s sock buf false ev gI gC cI cC y)
          else Rs.Flow.next (afterBatch x s sock buf backlog ev gI gC cI cC y)) :
    ∀ (l : List Nat) (s : Server) (sock : Gen.Sock) (buf : Bytes) (backlog : Bool) (ev : List Event)
      (gI gC : List Grease) (cI cC : Grease), (∀ a k, sock.ok a k = true) →
      (∀ p ∈ sock.inq, p.1.length ≤ buf.length) →
      (Rs.forListR l (toGenServer x s sock buf backlog ev ⟨gI, cI⟩ ⟨gC, cC⟩) body).map
          (fun f => (obsSvc (servicePost f), restOf (servicePost f)))
        ≃ᵣ (serviceSpec E debug l.length s sock gI gC).map (fun y => (specObs sock ev y, x)) := by
  intro l
  induction l with
  | nil =>
    intro s sock buf backlog ev gI gC cI cC _ _
    simp [serviceSpec, servicePost, obsSvc, specObs, restOf_backlog, restOf_toGenServer, Res.map, Res.Sim]
    simp [toGenServer, toGenResponder]
  | cons i l ih =>
    intro s sock buf backlog ev gI gC cI cC hok hfit
    have hb := hbody i s sock buf backlog ev gI gC cI cC hok hfit
    rw [Rs.forListR_cons]
    simp only [List.length_cons, serviceSpec]
    cases h1 : batchSpec E debug s sock gI gC with
    | ok y =>
      rw [h1] at hb
      cases h2 : body i (toGenServer x s sock buf backlog ev ⟨gI, cI⟩ ⟨gC, cC⟩) with
      | ok st =>
        rw [h2] at hb
        have e : st = _ := hb
        subst e
        obtain ⟨s', sent, ev'⟩ := y
        by_cases hshort : sock.inq.length < s.batchSize
        · simp [hshort, Res.bind, Res.map, Res.Sim, servicePost, obsSvc, specObs, afterBatch, sockAfter,
              restOf_toGenServer]
          simp [toGenServer, toGenResponder]
        · simp only [hshort, if_false, bind_ok_s]
          have hfit' : ∀ p ∈ (sockAfter s sock sent).inq,
              p.1.length ≤ (bufAfter buf (sock.inq.take s.batchSize)).length := by
            intro p hp
            rw [bufAfter_length _ _ fun p hp => hfit p (List.mem_of_mem_take hp)]
            exact hfit p (List.mem_of_mem_drop hp)
          have := ih s' (sockAfter s sock sent) (bufAfter buf (sock.inq.take s.batchSize)) backlog (ev ++ ev')
            (gI.drop s'.ietf.requests.length) (gC.drop s'.classic.requests.length)
            (curAfter gI cI s'.ietf.requests.length) (curAfter gC cC s'.classic.requests.length) hok hfit'
          refine Res.Sim.trans this ?_
          simp only [sockAfter]
          cases serviceSpec E debug l.length s'
              { sock with inq := sock.inq.drop s.batchSize, n := sock.n + sent.length, out := sock.out ++ sent.map some }
              (gI.drop s'.ietf.requests.length) (gC.drop s'.classic.requests.length) with
          | ok z => simp [Res.bind, Res.map, Res.Sim, specObs]
          | err => trivial
          | panic site => trivial
      | err => rw [h2] at hb; exact hb.elim
      | panic site => rw [h2] at hb; exact hb.elim
    | err =>
      rw [h1] at hb
      cases h2 : body i (toGenServer x s sock buf backlog ev ⟨gI, cI⟩ ⟨gC, cC⟩) with
      | ok st => rw [h2] at hb; exact hb.elim
      | err => trivial
      | panic site => rw [h2] at hb; exact hb.elim
    | panic site0 =>
      rw [h1] at hb
      cases h2 : body i (toGenServer x s sock buf backlog ev ⟨gI, cI⟩ ⟨gC, cC⟩) with
      | ok st => rw [h2] at hb; exact hb.elim
      | err => rw [h2] at hb; exact hb.elim
      | panic site => trivial

/-- `service_socket` = `serviceSpec 16`, with everything else of the server state (`restOf`) untouched -/
theorem service_socket_full (E : Env) (hH : ∀ z, (E.H z).length = 64) (LOG : Nat) (x : GenRest) (s : Server) (sock : Gen.Sock) (buf : Bytes)
    (backlog : Bool) (ev : List Event) (gI gC : List Grease) (cI cC : Grease)
    (hok : ∀ a k, sock.ok a k = true) (hfit : ∀ p ∈ sock.inq, p.1.length ≤ buf.length) :
    (Gen.Server.service_socket E.S E.H LOG (toGenServer x s sock buf backlog ev ⟨gI, cI⟩ ⟨gC, cC⟩)).map
        (fun g => (obsSvc g, restOf g))
      ≃ᵣ (serviceSpec E (decide (LOG ≥ 4)) 16 s sock gI gC).map (fun y => (specObs sock ev y, x)) := by
  unfold Gen.Server.service_socket
  simp only [Res.pure_eq, Res.bind_eq]
  rw [map_bind', svc_wrap _ (fun g => (obsSvc g, restOf g)) _ (fun f => by cases f <;> rfl)]
  · refine Res.Sim.trans (service_loop E (decide (LOG ≥ 4)) x _ ?hbody (List.range 16) s sock buf backlog ev gI gC cI cC hok hfit) ?fin
    case fin => rw [List.length_range]; exact Res.Sim.refl _
    case hbody =>
      intro i s sock buf backlog ev gI gC cI cC hok hfit
      simp only [toGenServer, responder_reset_eq', bind_ok_s]
      rw [batchSpec_eq]
      unfold batchChain
      simp only [map_bind']
      have hc := collect_requests_exact E hH LOG x { s with ietf := s.ietf.reset, classic := s.classic.reset } sock buf
        backlog ev ⟨gI, cI⟩ ⟨gC, cC⟩ hfit
      refine Sim.bind_map hc fun y1 => ?_
      dsimp only [toGenServer]
      have hI := send_responses_exact E hH y1.1.ietf gI cI
        ⟨sock.ok, sock.n, sock.out, sock.inq.drop s.batchSize, sock.clock⟩ LOG (ev ++ y1.2)
      dsimp only at hI
      rw [sendResponsesF_all_ok _ (fun a k => hok a _), map_map] at hI
      refine Sim.bind_map_eq hI fun yI hyI => ?_
      have hsI := sendResponses_shape E _ _ _ _ _ hyI
      dsimp only [Function.comp]
      have hC := send_responses_exact E hH y1.1.classic gC cC
        ⟨sock.ok, sock.n + y1.1.ietf.requests.length, sock.out ++ yI.2.1.map some, sock.inq.drop s.batchSize, sock.clock⟩
        LOG (ev ++ y1.2 ++ yI.2.2)
      dsimp only at hC
      rw [sendResponsesF_all_ok _ (fun a k => hok a _), map_map] at hC
      refine Sim.bind_map_eq hC fun yC hyC => ?_
      have hsC := sendResponses_shape E _ _ _ _ _ hyC
      dsimp only [Function.comp]
      by_cases hshort : sock.inq.length < s.batchSize <;>
        simp [hshort, Res.map, Res.Sim, afterBatch, sockAfter, toGenServer, hsI.1, hsI.2, hsC.1, hsC.2, Nat.add_assoc]

/-- `service_socket` = `serviceSpec 16`: same responders afterwards, same backlog flag, same datagrams on the wire in
    the same order, same statistics events, same remaining queue — for every server state, queue content, clock,
    fault-injection decisions and log level (all sends succeed, every queued datagram fits in the buffer). -/
theorem service_socket_sim (E : Env) (hH : ∀ z, (E.H z).length = 64) (LOG : Nat) (x : GenRest) (s : Server) (sock : Gen.Sock) (buf : Bytes)
    (backlog : Bool) (ev : List Event) (gI gC : List Grease) (cI cC : Grease)
    (hok : ∀ a k, sock.ok a k = true) (hfit : ∀ p ∈ sock.inq, p.1.length ≤ buf.length) :
    (Gen.Server.service_socket E.S E.H LOG (toGenServer x s sock buf backlog ev ⟨gI, cI⟩ ⟨gC, cC⟩)).map
        (fun g => (g.socket_backlog, g.socket.out, g.socket.inq, g.stats_recorder, g.responder_ietf.requests,
                   g.responder_classic.requests, g.responder_ietf.merkle, g.responder_classic.merkle,
                   g.responder_ietf.online_key, g.responder_classic.online_key,
                   g.responder_ietf.grease.pending, g.responder_classic.grease.pending))
      ≃ᵣ (serviceSpec E (decide (LOG ≥ 4)) 16 s sock gI gC).map
        (fun y => (y.2.1, sock.out ++ y.2.2.1.map some, y.2.2.2.2.1, ev ++ y.2.2.2.1, y.1.ietf.requests, y.1.classic.requests,
                   toGenTree y.1.ietf.ver y.1.ietf.tree, toGenTree y.1.classic.ver y.1.classic.tree,
                   (⟨y.1.ietf.onl, Version.supportedWire⟩ : Gen.OnlineKey), (⟨y.1.classic.onl, Version.supportedWire⟩ : Gen.OnlineKey),
                   y.2.2.2.2.2.1, y.2.2.2.2.2.2)) := by
  have h := Sim.map_congr (service_socket_full E hH LOG x s sock buf backlog ev gI gC cI cC hok hfit) Prod.fst
  rw [map_map, map_map] at h
  exact h

end Bridge
end Rough

import Rough.Bridge.Message
import Rough.Bridge.GreaseLemmas
import Rough.Generated.Src.Grease
import Rough.Model.Server
/-
  Bridge theorems for src/grease.rs: the fault injector generated from the Rust source, run on a tape that encodes a
  fault-injection decision, does what the model's `applyGrease` does with that decision (about which C02's "verifies or
  fails outright", C08's `GreaseOK` safety and the `ExtraGrease` dichotomies are proved).  The other generated modules
  use the injector through the environment `Gen.GreaseQ` (decision list); these theorems justify that environment.
-/
namespace Rough
namespace Bridge

/-- the draws the Rust code makes for one response, given the decision: the Bernoulli coin, and when it says "corrupt":
    the choice among `ALL_PATHOLOGIES = [RandomlyOrderTags, CorruptResponseSignature]` and that pathology's own draw -/
def encDecision : Grease → List Gen.Draw
  | .none => [.coin false]
  | .reorder perm => [.coin true, .pick 0, .perm perm]
  | .corruptSig rho => [.coin true, .pick 1, .bytes rho]

/-- `add_errors` in general (no assumption on `r`): the message is the model's; the injector keeps `enabled`/`dist`
    and its tape is `tapeAfter g r rest` — `rest`, except that a `corruptSig` decision on a message WITHOUT SIG leaves
    its `.bytes rho` draw unconsumed (the Rust code returns before `fill_bytes`) -/
theorem add_errors_sim_gen (en : Bool) (p : Nat) (g : Grease) (hg : g ≠ Grease.none)
    (hrho : ∀ rho, g = Grease.corruptSig rho → rho.length = 64) (rest : Gen.Tape) (r : Msg) :
    Gen.Grease.add_errors ⟨en, p, (encDecision g).tail ++ rest⟩ (toGen r) ≃ᵣ
      (applyGrease g r).map (fun m => (toGen m, (⟨en, p, tapeAfter g r rest⟩ : Gen.Grease))) := by
  cases g with
  | none => exact absurd rfl hg
  | reorder perm =>
    simp only [encDecision, List.tail_cons, List.cons_append, List.nil_append, tapeAfter]
    rw [add_errors_reorder]
    have h := randomly_order_tags_sim en p perm rest r
    have h2 := Res.Sim.bind (f := fun t => Res.ok (t.1, t.2)) (g := fun t => Res.ok (t.1, t.2)) h
      (fun a => Res.Sim.refl _)
    refine Res.Sim.trans h2 (Res.Sim.of_eq ?_)
    cases applyGrease (Grease.reorder perm) r <;> rfl
  | corruptSig rho =>
    simp only [encDecision, List.tail_cons, List.cons_append, List.nil_append, tapeAfter]
    rw [add_errors_corrupt]
    cases hs : (r.get Tag.SIG).isNone with
    | true =>
      rw [corrupt_nosig_eq _ r hs]
      simp [applyGrease, hs, Res.map, Res.Sim]
    | false =>
      have h := corrupt_sig_sim en p rho (hrho rho rfl) rest r hs
      have h2 := Res.Sim.bind (f := fun t => Res.ok (t.1, t.2)) (g := fun t => Res.ok (t.1, t.2)) h
        (fun a => Res.Sim.refl _)
      refine Res.Sim.trans h2 (Res.Sim.of_eq ?_)
      simp only [Bool.false_eq_true, if_false]
      cases applyGrease (Grease.corruptSig rho) r <;> rfl

/-- `Grease::new`: enabled iff the percentage is positive -/
theorem grease_new_eq (p : Nat) (tape : Gen.Tape) :
    Gen.Grease.new p tape = .ok ⟨decide (p > 0), p, tape⟩ := by
  rfl

/-- a disabled injector never corrupts and draws nothing -/
theorem should_add_error_disabled (p : Nat) (tape : Gen.Tape) :
    Gen.Grease.should_add_error ⟨false, p, tape⟩ = .ok (false, ⟨false, p, tape⟩) := by
  rfl

/-- an enabled injector takes the coin of the decision -/
theorem should_add_error_enabled (p : Nat) (g : Grease) (rest : Gen.Tape) :
    Gen.Grease.should_add_error ⟨true, p, encDecision g ++ rest⟩ =
      .ok (decide (g ≠ Grease.none), ⟨true, p, (encDecision g).tail ++ rest⟩) := by
  cases g <;> rfl

/-- the statement of `add_errors_sim` WITHOUT the hypothesis `hsig` below is false: a `corruptSig` decision applied to
    a message without SIG returns before `fill_bytes`, so the `.bytes rho` draw of `encDecision` stays on the tape
    (left side: tape `[.bytes rho]`; right side: tape `[]`) -/
theorem add_errors_sim_needs_sig :
    ¬ (Gen.Grease.add_errors ⟨true, 50, (encDecision (.corruptSig (List.replicate 64 7))).tail ++ []⟩
          (toGen ⟨[(Tag.NONC, [1, 2, 3, 4])]⟩) ≃ᵣ
        (applyGrease (.corruptSig (List.replicate 64 7)) ⟨[(Tag.NONC, [1, 2, 3, 4])]⟩).map
          (fun m => (toGen m, (⟨true, 50, []⟩ : Gen.Grease)))) := by
  intro h
  have h2 := add_errors_sim_gen true 50 (.corruptSig (List.replicate 64 7)) (by simp)
    (by intro rho e; cases e; simp) [] ⟨[(Tag.NONC, [1, 2, 3, 4])]⟩
  have h3 := Res.Sim.trans (Res.Sim.symm h) h2
  simp [applyGrease, Msg.get, Res.map, Res.Sim, tapeAfter] at h3

/-- `add_errors` after a coin that said "corrupt" applies the decision exactly as the model does (64 random bytes for a
    signature corruption), consuming exactly this decision's draws.
    CORRECTED statement: hypothesis `hsig` added (a signature corruption is only claimed for a message that has a SIG
    field — every response of `make_response` has one); without it the statement is false, see
    `add_errors_sim_needs_sig`; the general fact is `add_errors_sim_gen`. -/
theorem add_errors_sim (en : Bool) (p : Nat) (g : Grease) (hg : g ≠ Grease.none)
    (hrho : ∀ rho, g = Grease.corruptSig rho → rho.length = 64) (rest : Gen.Tape) (r : Msg)
    (hsig : ∀ rho, g = Grease.corruptSig rho → (r.get Tag.SIG).isSome) :
    Gen.Grease.add_errors ⟨en, p, (encDecision g).tail ++ rest⟩ (toGen r) ≃ᵣ
      (applyGrease g r).map (fun m => (toGen m, (⟨en, p, rest⟩ : Gen.Grease))) := by
  have h := add_errors_sim_gen en p g hg hrho rest r
  rwa [tapeAfter_of_sig g r rest hsig] at h

/-- the environment `Gen.GreaseQ` used by the generated `send_responses` is this injector: drawing a decision and
    applying it = `should_add_error` followed (when true) by `add_errors` on the encoded tape -/
theorem greaseq_is_grease (p : Nat) (g : Grease) (hrho : ∀ rho, g = Grease.corruptSig rho → rho.length = 64)
    (gs : List Grease) (cur : Grease) (rest : Gen.Tape) (r : Msg) :
    (match Gen.Grease.should_add_error ⟨true, p, encDecision g ++ rest⟩ with
     | .ok (true, s) => (Gen.Grease.add_errors s (toGen r)).bind fun x => .ok x.1
     | .ok (false, _) => .ok (toGen r)
     | .err => .err
     | .panic q => .panic q)
      ≃ᵣ (if (Gen.GreaseQ.draw ⟨g :: gs, cur⟩).1 then Gen.GreaseQ.addErrors (Gen.GreaseQ.draw ⟨g :: gs, cur⟩).2 (toGen r)
          else .ok (toGen r)) := by
  rw [should_add_error_enabled]
  have hadd : Gen.GreaseQ.addErrors ⟨gs, g⟩ (toGen r) = (applyGrease g r).map toGen := by
    have : (⟨(toGen r).tags.zip (toGen r).values⟩ : Msg) = r := ofGen_toGen r
    simp only [Gen.GreaseQ.addErrors, this]
    cases applyGrease g r <;> rfl
  by_cases hg : g = Grease.none
  · subst hg
    simp [Gen.GreaseQ.draw, Res.Sim]
  · have hd : Gen.GreaseQ.draw ⟨g :: gs, cur⟩ = (true, ⟨gs, g⟩) := by
      cases g with
      | none => exact absurd rfl hg
      | reorder perm => rfl
      | corruptSig rho => rfl
    have hdec : decide (g ≠ Grease.none) = true := by simpa using hg
    rw [hd, hdec]
    simp only [if_true, hadd]
    have h := add_errors_sim_gen true p g hg hrho rest r
    have h2 := Res.Sim.bind (f := fun x => Res.ok x.1) (g := fun x => Res.ok x.1) h (fun a => Res.Sim.refl _)
    refine Res.Sim.trans h2 (Res.Sim.of_eq ?_)
    cases applyGrease g r <;> rfl

end Bridge
end Rough

import Rough.Driver.Server
/- Driver ops: `req` (function-level request classification, C07/C12) and `grease` (C02). -/
namespace Rough.Driver
open Rough.Spec Rough.Spec.RT

/-- `req <srv> <datagram>`  impl: `ok G|I <nonce>` | `err` | `panic` -/
def opReq (args : List String) (impl : String) : Verdict :=
  match args with
  | [sh, dh] =>
    match unhex sh, unhex dh with
    | some srv, some d =>
      let p := protoOf d
      let cls := classifyRequest p srv d
      let model : String := match nonceFromRequest d srv with
        | .ok (n, v) => "ok " ++ v.name ++ " " ++ hexOrDash n
        | .err => "err"
        | .panic _ => "panic"
      let clsS := match cls with | .must _ => "must" | .may _ => "may" | .no => "no"
      let label := "req:" ++ (if p == .draft13 then "I" else "G") ++ ":" ++ clsS ++ ":" ++
        (if d.length < 1024 then "short" else if d.length > 1500 then "long" else "inrange")
      let want (n : Bytes) := "ok " ++ (if p == .draft13 then "I" else "G") ++ " " ++ hexOrDash n
      let l1v : Option String :=
        if impl = "panic" then some "C07,C08: nonce_from_request panicked"
        else match cls with
          | .must n => if impl ≠ want n then some ("C07,C12: a well-formed request is not accepted with its own nonce and protocol (got " ++ impl.take 40 ++ ")") else none
          | .may n => if impl ≠ "err" ∧ impl ≠ want n then some "C12: request accepted with a wrong nonce/protocol" else none
          | .no => if impl ≠ "err" then some ("C07,C12: a datagram that is not a well-formed request for this server is accepted (" ++
              (if d.length < 1024 ∨ d.length > 1500 then "length " ++ toString d.length else "malformed / wrong version / wrong SRV") ++ ")") else none
      match l1v with
      | some e => l1 label (e ++ (if impl = model then "" else " ||L2: model=" ++ model.take 60))
      | none => if impl = model then ok label else l2 label ("model=" ++ model.take 80)
    | _, _ => bad "req: hex"
  | _ => bad "req: arity"

/-- `grease <orig-encoding>`  impl: hex of the greased message's encoding | `err` | `panic` -/
def opGrease (args : List String) (impl : String) : Verdict :=
  match args with
  | [oh] =>
    match unhex oh with
    | some orig =>
      if impl = "panic" ∨ impl = "err" then l1 "grease:fail" "C02,C08: Grease::add_errors panicked or produced an unencodable message" else
      match unhex impl, fromBytes orig with
      | some g, .ok m =>
        -- explain the greased bytes as one of the model's two pathologies
        let gf := lenientFields g
        let origF := m.fields.map fun f => (f.1.wire, f.2)
        let label0 := "grease:"
        match gf with
        | none => l2 (label0 ++ "unparsable") "greased message is not even a tag-value container"
        | some gfl =>
          let isPerm := gfl.length = origF.length ∧ gfl.all (fun x => origF.contains x) ∧ origF.all (fun x => gfl.contains x)
          let sigOnly := gfl.map (·.1) = [Tag.SIG.wire, Tag.PATH.wire, Tag.SREP.wire, Tag.CERT.wire, Tag.INDX.wire] ∧
            (gfl.drop 1) = (origF.filter fun x => x.1 ≠ Tag.SIG.wire ∧ x.1 ≠ Tag.NONC.wire) ∧ ((gfl.headD ([], [])).2.length = 64)
          let label := label0 ++ (if isPerm then (if g = orig then "reorder-identity" else "reorder") else if sigOnly then "corrupt-sig" else "other")
          -- L1: identical to the original, or rejected by the reference decoder, or (signature corruption) a
          -- well-formed message whose SIG differs from the original (so it fails signature verification unless forged)
          let decodes := (decode g).isSome
          if g = orig then ok label
          else if ¬ decodes then (if isPerm then ok label else l2 label "greased message is rejected but is not a reordering the model can produce")
          else if sigOnly then
            (if (gfl.headD ([], [])).2 = (m.get Tag.SIG).getD [] then l1 label "C02: 'corrupted' signature equals the original one" else ok label)
          else l1 label "C02: greased message differs from the original, still decodes, and is not a signature corruption: a third state"
      | _, _ => bad "grease: parse"
    | none => bad "grease: hex"
  | _ => bad "grease: arity"

end Rough.Driver

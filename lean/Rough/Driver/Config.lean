import Rough.Driver.Server
import Rough.Model.Config
/- Driver op for C16: `cfg <entries> <ncpu>`  impl: `file=<getters|refused> env=<getters|refused>` -/
namespace Rough.Driver
open Rough.Config

def cfgStr (c : Cfg) : String :=
  "port=" ++ toString c.port ++ ",interface=" ++ c.interface ++ ",seed=" ++ hexOrDash c.seed ++
  ",batch_size=" ++ toString c.batchSize ++ ",status_interval=" ++ toString c.statusInterval ++ ",kms=" ++ c.kms ++
  ",health_check_port=" ++ (match c.hcPort with | some p => toString p | none => "none") ++
  ",client_stats=" ++ (if c.clientStats then "true" else "false") ++
  ",persistence_directory=" ++ (c.persistDir.getD "none") ++
  ",fault_percentage=" ++ toString c.faultPct ++ ",num_workers=" ++ toString c.numWorkers

/-- documented range of the integer keys (property text) -/
def documented (key : String) (v : Int) : Option Bool :=
  match key with
  | "port" => some (1 ≤ v ∧ v ≤ 65535)
  | "batch_size" => some (1 ≤ v ∧ v ≤ 64)
  | "fault_percentage" => some (0 ≤ v ∧ v ≤ 50)
  | "num_workers" => some (1 ≤ v)
  | _ => none

def getter (s : String) (key : String) : Option String :=
  ((s.splitOn ",").find? fun kv => kv.startsWith (key ++ "=")).map fun kv => (kv.drop (key.length + 1)).toString

def opCfg (args : List String) (impl : String) : Verdict :=
  match args with
  | [entriesS, ncpuS] =>
    let entries : List (String × String) := if entriesS = "-" then [] else
      (entriesS.splitOn ";").map fun kv =>
        match kv.splitOn "=" with
        | k :: rest => (k, "=".intercalate rest)
        | _ => ("", "")
    let imp := parseKvs impl " "
    let fOut := kvLookup imp "file"
    let eOut := kvLookup imp "env"
    let defaults : Cfg := { numWorkers := ncpuS.toNat! }
    -- the only directories the harness names: one that exists and is writable (contains "persist-"), one that does not
    let fs : FsFacts := ⟨fun d => (d.splitOn "persist-").length > 1⟩
    let show_ (o : Option Cfg) : String := match o with | some c => cfgStr c | none => "refused"
    let mF := show_ (start fs defaults .file entries)
    let mE := show_ (start fs defaults .env entries)
    -- which key differs from the three-line base
    let varied := (entries.filter fun kv => kv.1 ∉ ["port", "interface", "seed"] ∨ (kv.1 = "port" ∧ kv.2 ≠ "8686") ∨
      (kv.1 = "interface" ∧ kv.2 ≠ "127.0.0.1") ∨ (kv.1 = "seed" ∧ kv.2.length ≠ 64)).map (·.1)
    let label := "cfg:" ++ (if varied.length = 0 then "base" else if varied.length = 1 then varied.headD "" else "combo") ++ ":" ++
      (if fOut = "refused" then "refused" else "started")
    -- L1: the property, judged on the implementation's outputs only
    let intKeys := ["port", "batch_size", "fault_percentage", "num_workers", "status_interval", "health_check_port"]
    let l1v : Option String := entries.findSome? fun kv =>
      if kv.1 ∉ intKeys then none else
      match yamlInt kv.2 with
      | none => none
      | some v =>
        match documented kv.1 v with
        | some true =>
          -- in range: if the server starts, the effective value is the written one, for both sources
          let bad (out : String) := out ≠ "refused" ∧ getter out kv.1 ≠ some (toString v)
          if bad fOut then some ("C16: file source: effective " ++ kv.1 ++ " is " ++ (getter fOut kv.1).getD "?" ++ ", written " ++ toString v)
          else if bad eOut then some ("C16: env source: effective " ++ kv.1 ++ " is " ++ (getter eOut kv.1).getD "?" ++ ", written " ++ toString v)
          else none
        | some false =>
          if fOut ≠ "refused" then some ("C16: file source starts with out-of-range " ++ kv.1 ++ "=" ++ toString v ++ " (effective " ++ (getter fOut kv.1).getD "?" ++ ")")
          else if eOut ≠ "refused" then some ("C16: env source starts with out-of-range " ++ kv.1 ++ "=" ++ toString v ++ " (effective " ++ (getter eOut kv.1).getD "?" ++ ")")
          else none
        | none =>
          -- status_interval 1..=65535 and health_check_port 1..=65535: in-range values must come out as written
          if 1 ≤ v ∧ v ≤ 65535 then
            let bad (out : String) := out ≠ "refused" ∧ getter out kv.1 ≠ some (toString v)
            if bad fOut ∨ bad eOut then some ("C16: effective " ++ kv.1 ++ " differs from the written value " ++ toString v) else none
          else none
    let allDocumented : Bool := entries.all fun kv =>
      -- (a YAML null — `~`, `null`, a blank — is file syntax, not a value both sources can be given)
      if kv.1 ∉ intKeys then !(kv.2 == "~" || kv.2 == "null" || kv.2 == "") else
      match yamlInt kv.2 with
      | some v => (match documented kv.1 v with | some b => b | none => decide (1 ≤ v ∧ v ≤ 65535))
      | none => false
    let knownKeys := ["port", "interface", "seed", "batch_size", "status_interval", "kms_protection", "health_check_port", "client_stats", "fault_percentage", "num_workers", "persistence_directory"]
    let allKnown : Bool := entries.all fun kv => kv.1 ∈ knownKeys
    let l1v := match l1v with
      | some e => some e
      | none =>
        -- same value, both sources: same result (for documented decimal values and plain strings)
        if allDocumented ∧ allKnown ∧ fOut ≠ eOut then some "C16: file and environment sources give different results for the same documented values"
        else if (entries.any fun kv => kv.1 ∉ ["port", "interface", "seed", "batch_size", "status_interval", "kms_protection", "health_check_port", "client_stats", "fault_percentage", "num_workers", "persistence_directory"]) ∧ fOut ≠ "refused" then
          some "C16: unknown key in the file is accepted"
        else if (["port", "interface", "seed"].any fun k => ¬ entries.any (·.1 = k)) ∧ (fOut ≠ "refused" ∨ eOut ≠ "refused") then
          some "C16: start-up succeeds although a required setting is missing"
        else none
    -- the server binary itself (`main`): what must be refused must make its start-up fail
    let mainF := ((kvLookup imp "mainfile").splitOn "~").headD ""
    let mainE := ((kvLookup imp "mainenv").splitOn "~").headD ""
    -- how the probe's refusal came about: an `Err` / a `false` of the validator end `main` with status 1, a panic with 101
    let expectMain (field : String) : String := if ((kvLookup imp field).splitOn "~").getD 1 "" = "panic" then "exit:101" else "exit:1"
    let mustFail : Bool :=
      (entries.any fun kv => decide (kv.1 ∈ intKeys) && (match yamlInt kv.2 with | some v => documented kv.1 v == some false | none => false)) ||
      (entries.any fun kv => decide (kv.1 ∉ knownKeys)) || (["port", "interface", "seed"].any fun k => !(entries.any fun kv => kv.1 == k))
    let l1v := match l1v with
      | some e => some e
      | none =>
        if mustFail ∧ (mainF = "running" ∨ mainE = "running") then
          some ("C16: the server binary keeps running although these settings must make start-up fail (file: " ++ mainF ++ ", env: " ++ mainE ++ ")")
        else none
    match l1v with
    | some e => l1 label e
    | none =>
      -- model of main's wiring: a refused configuration ends the process with status 1
      let mainBad (m : String) (field : String) := m ≠ "" ∧ m ≠ "skip" ∧ m ≠ expectMain field
      if fOut = "refused" ∧ mainBad mainF "mainfile" then l2 label ("file: the loader/validator refuse, the server binary: " ++ mainF ++ " (model of main: " ++ expectMain "mainfile" ++ ")")
      else if eOut = "refused" ∧ mainBad mainE "mainenv" then l2 label ("env: the loader/validator refuse, the server binary: " ++ mainE ++ " (model of main: " ++ expectMain "mainenv" ++ ")")
      else
      if fOut ≠ mF then l2 label ("file: model=" ++ mF.take 200 ++ " impl=" ++ fOut.take 200)
      else if eOut ≠ mE then l2 label ("env: model=" ++ mE.take 200 ++ " impl=" ++ eOut.take 200)
      else ok label
  | _ => bad "cfg: arity"

end Rough.Driver

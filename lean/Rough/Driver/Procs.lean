import Rough.Driver.Server
import Rough.Driver.Client
import Rough.Model.Startup
import Rough.Model.Shutdown
/-
  Driver ops for the process-level rigs: `startup` (C15), `mw` (C18), `sd` (C19),
  `clientreal` (C03), `procleak` (C20).
-/
namespace Rough.Driver
open Rough.Spec Rough.Spec.RT

def fracOk (s : String) : Bool :=
  match s.splitOn "/" with
  | [a, b] => a == b
  | _ => false

/-- `startup <cfgdesc>`  impl: started=… n=… live0= live1= keys= answered=a/b hc_seq=a/b hc_par=a/b udp_after= alive= panics= exit= leak= -/
def opStartup (args : List String) (impl : String) : Verdict :=
  match args with
  | [desc] =>
    let cfg := parseKvs desc ","
    let imp := parseKvs impl " "
    let hc := kvLookup cfg "hc" == "1" || kvLookup cfg "example" == "1"
    let label := "startup:w=" ++ kvLookup cfg "workers" ++ ":hc=" ++ (if hc then "1" else "0") ++ ":stats=" ++ kvLookup cfg "stats" ++
      ":src=" ++ kvLookup cfg "src" ++ (if kvLookup cfg "example" == "1" then ":example.cfg" else "")
    if kvLookup imp "started" ≠ "1" then l1 label ("C15: server did not start with a documented in-range configuration: " ++ kvLookup imp "err") else
    let n := (kvLookup imp "n").toNat!
    let live0 := (kvLookup imp "live0").toNat!
    let live1 := (kvLookup imp "live1").toNat!
    let keys := (kvLookup imp "keys").toNat!
    -- model: every worker starts, whatever the order (here: the identity order)
    let st := Startup.startAll hc true (List.range n)
    if kvLookup imp "panics" ≠ "0" then l1 label ("C15: panic output during start-up/serving (" ++ kvLookup imp "panics" ++ " panics); live workers " ++ toString live1 ++ " of " ++ toString n)
    else if live0 ≠ n ∨ live1 ≠ n then l1 label ("C15: " ++ toString live1 ++ " of " ++ toString n ++ " worker threads are alive")
    else if kvLookup imp "alive" ≠ "1" then l1 label "C15: server process died"
    else if keys ≠ n then l1 label ("C15: only " ++ toString keys ++ " of " ++ toString n ++ " workers answered on the UDP port (distinct certificates seen)")
    else if hc ∧ ¬ fracOk (kvLookup imp "hc_seq") then l1 label ("C15: health check answered " ++ kvLookup imp "hc_seq" ++ " sequential connections")
    else if hc ∧ ¬ fracOk (kvLookup imp "hc_par") then l1 label ("C15: health check answered " ++ kvLookup imp "hc_par" ++ " parallel connections")
    else if hc ∧ ¬ fracOk (kvLookup imp "hc_burst") then l1 label ("C15: health check answered " ++ kvLookup imp "hc_burst" ++ " connections that were pending at once")
    else if hc ∧ kvLookup imp "hc_odd" ≠ "" ∧ ¬ fracOk (kvLookup imp "hc_odd") then l1 label ("C15: half-closing health-check probers answered / time service during silent connections: " ++ kvLookup imp "hc_odd")
    else if kvLookup imp "udp_after" ≠ "1" then l1 label "C15: time service stopped while health checks were served"
    else if ¬ fracOk (kvLookup imp "steady") then l1 label ("C15: steady traffic over several statistics periods: " ++ kvLookup imp "steady" ++ " requests answered")
    else if kvLookup imp "exit" ≠ "0" then l1 label ("C15,C19: exit status " ++ kvLookup imp "exit" ++ " after SIGTERM")
    else if kvLookup imp "leak" ≠ "0" then l1 label ("C20: secret material in the server's output: " ++ kvLookup imp "leak")
    else if st.running.length ≠ live1 ∨ st.panicked.length ≠ 0 then l2 label "start-up model predicts a different number of running workers"
    else ok label
  | _ => bad "startup: arity"

/-- `req>reply;req>reply` -/
def parsePairs (s : String) : Option (List (Bytes × Option Bytes)) :=
  if s = "-" ∨ s = "" then some [] else
  (s.splitOn ";").mapM fun x =>
    match x.splitOn ">" with
    | [q, a] => do
      let qb ← unhex q
      if a = "-" then pure (qb, none) else do
        let ab ← unhex a
        pure (qb, some ab)
    | _ => none

/-- verify every (request, reply) pair under the long-term key of `seed`; returns (lost, invalid, first reason) -/
def judgePairs (seed : Bytes) (pairs : List (Bytes × Option Bytes)) : Nat × Nat × String :=
  let ltpk := Ed25519.publicKey seed
  let srv := (Sha512.hash ((0xff : UInt8) :: ltpk)).take 32
  let triples := (pairs.flatMap fun x => match x.2 with
    | some r => triplesOf (if isIetfDgram r then .draft13 else .classic) ltpk r
    | none => []).eraseDups
  let table := triples.map fun t => (t, realScheme.verify t.1 t.2.1 t.2.2)
  let S := memoScheme table
  pairs.foldl (fun (acc : Nat × Nat × String) x =>
    let p := protoOf x.1
    match classifyRequest p srv x.1, x.2 with
    | .must n, some r =>
      (match verifyResponse S Sha512.hash p ltpk x.1 n r with
       | .ok _ => if r.length ≤ x.1.length then acc else (acc.1, acc.2.1 + 1, "reply longer than request")
       | .error e => (acc.1, acc.2.1 + 1, e))
    | .must _, none => (acc.1 + 1, acc.2.1, acc.2.2)
    | _, some _ => (acc.1, acc.2.1 + 1, "reply to a datagram that is not a valid request")
    | _, none => acc) (0, 0, "")

/-- `mw <desc> <pairs>`  impl: started= live= alive= extras= panics= exit= -/
def opMw (args : List String) (impl : String) : Verdict :=
  match args with
  | [desc, pairsS] =>
    let cfg := parseKvs desc ","
    let imp := parseKvs impl " "
    let label := "mw:w=" ++ kvLookup cfg "workers" ++ ":clients=" ++ (let c := (kvLookup cfg "clients").toNat!; if c ≤ 4 then "few" else if c < 32 then "some" else "many")
    if kvLookup imp "started" ≠ "1" then l1 label "C18,C15: server did not start" else
    match unhex (kvLookup cfg "seed"), parsePairs pairsS with
    | some seed, some pairs =>
      let (lost, invalid, why) := judgePairs seed pairs
      if kvLookup imp "panics" ≠ "0" ∨ kvLookup imp "alive" ≠ "1" then l1 label "C18: a worker panicked or the server died under concurrent load"
      else if kvLookup imp "live" ≠ kvLookup cfg "workers" then l1 label ("C18: " ++ kvLookup imp "live" ++ " of " ++ kvLookup cfg "workers" ++ " workers alive after the round")
      else if lost ≠ 0 then l1 label ("C18: " ++ toString lost ++ " of " ++ toString pairs.length ++ " valid requests got no response")
      else if invalid ≠ 0 then l1 label ("C18: " ++ toString invalid ++ " responses do not verify for their request under the server's long-term key (" ++ why ++ ")")
      else if kvLookup imp "extras" ≠ "0" then l1 label ("C18: " ++ kvLookup imp "extras" ++ " extra (duplicate or misdirected) responses")
      else if kvLookup imp "exit" ≠ "0" then l1 label ("C18,C19: exit status " ++ kvLookup imp "exit")
      else ok label ("pairs=" ++ toString pairs.length)
    | _, _ => bad "mw: parse"
  | _ => bad "mw: arity"

/-- `sd <desc> <pairs>`  impl: started= live= exit= ms= panics= done= [late_exit=] -/
def opSd (args : List String) (impl : String) : Verdict :=
  match args with
  | [desc, pairsS] =>
    let cfg := parseKvs desc ","
    let imp := parseKvs impl " "
    let label := "sd:w=" ++ kvLookup cfg "workers" ++ ":stats=" ++ kvLookup cfg "stats" ++ ":" ++ kvLookup cfg "sig" ++ ":" ++ kvLookup cfg "regime"
    if kvLookup imp "started" ≠ "1" then l1 label "C19,C15: server did not start" else
    if kvLookup imp "exit" = "timeout" then
      l1 label ("C19: no exit within 8 s of the signal (regime " ++ kvLookup cfg "regime" ++ "; after the load stopped: " ++ kvLookup imp "late_exit" ++ ")")
    else
    match unhex (kvLookup cfg "seed"), parsePairs pairsS with
    | some seed, some pairs =>
      let ms := (kvLookup imp "ms").toNat!
      let (_, invalid, why) := judgePairs seed pairs
      -- model bound: one bounded call (≤ 16 batches) + one 100 ms poll per worker, + one 1 s reporter sleep
      let stats := kvLookup cfg "stats" == "1"
      let modelBound := 100 + (if stats then 1000 else 0) + 1500
      if kvLookup imp "exit" ≠ "0" then l1 label ("C19: exit status " ++ kvLookup imp "exit")
      else if kvLookup imp "panics" ≠ "0" then l1 label "C19: panic output on shutdown"
      else if ms > 5000 then l1 label ("C19: exit took " ++ toString ms ++ " ms")
      else if invalid ≠ 0 then l1 label ("C19: " ++ toString invalid ++ " of the last responses before exit are not complete valid responses (" ++ why ++ ")")
      else if ms > modelBound then l2 label ("exit took " ++ toString ms ++ " ms, the polling-loop model bounds it by " ++ toString modelBound)
      else ok label ("ms=" ++ toString ms)
    | _, _ => bad "sd: parse"
  | _ => bad "sd: arity"

/-- `clientreal <ver> <keyopt> <nreq>`  impl: exit= out= ver= idx= t0= t1= -/
def opClientReal (args : List String) (impl : String) : Verdict :=
  match args with
  | [v, keyopt, nreqS] =>
    let imp := parseKvs impl " "
    let nreq := ((nreqS.splitOn "+").headD "0").toNat!
    let outs := let s := kvLookup imp "out"; if s = "-" ∨ s = "" then [] else s.splitOn "|"
    let vers := let s := kvLookup imp "ver"; if s = "-" ∨ s = "" then [] else s.splitOn "|"
    let t0 := parseTime (kvLookup imp "t0")
    let t1 := parseTime (kvLookup imp "t1")
    let unitNs : Nat := if v = "I" then 1000000000 else 1000
    let label := "clientreal:" ++ v ++ ":" ++ (keyopt.splitOn ":").headD "none" ++ ":n=" ++ nreqS
    let want := if keyopt = "none" then "No" else "Yes"
    if kvLookup imp "exit" ≠ "0" then l1 label "C03: the project's client rejected the project's own server (non-zero exit)"
    else if outs.length ≠ nreq then l1 label ("C03: " ++ toString outs.length ++ " time lines for " ++ toString nreq ++ " requests")
    else if vers.any (· ≠ want) then l1 label "C03: verified flag is not 'key supplied'"
    else if outs.any (fun o => let t := parseTime o; ¬ (t0 < t + unitNs ∧ t ≤ t1)) then
      l1 label "C03,C11: printed time is not the server's clock reading (outside the harness clock bracket)"
    else ok label
  | _ => bad "clientreal: arity"

/-- `procleak <scenario> <seed>`  impl: leak= bytes= lines= -/
def opProcLeak (args : List String) (impl : String) : Verdict :=
  match args with
  | [scenario, _] =>
    let imp := parseKvs impl " "
    let label := "procleak:" ++ scenario
    if kvLookup imp "leak" ≠ "0" then l1 label ("C20: secret material in the server's stdout/stderr: " ++ kvLookup imp "leak")
    else if (kvLookup imp "bytes").toNat! = 0 then l2 label "no output captured from the server process"
    else ok label
  | _ => bad "procleak: arity"

/-- `cfgleak <scenario> <seed>`  impl: leak= bytes= records= — what the configuration loaders log or report -/
def opCfgLeak (args : List String) (impl : String) : Verdict :=
  match args with
  | [scenario, _] =>
    let imp := parseKvs impl " "
    let label := "cfgleak:" ++ scenario
    let leak := kvLookup imp "leak"
    if leak = "?" ∨ leak = "" then bad "cfgleak: probe gave no verdict"
    else if leak ≠ "0" then l1 label ("C20: secret material in a log record / error text of the configuration loader: " ++ leak)
    else ok label ("records=" ++ kvLookup imp "records")
  | _ => bad "cfgleak: arity"

end Rough.Driver

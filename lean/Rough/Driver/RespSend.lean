import Rough.Driver.Server
import Rough.Model.SendFail
/- Driver op `respsend`: `Responder::send_responses` with failing sends (C17). -/
namespace Rough.Driver
open Rough.Stats

private def parseRecv (s : String) : List (Nat × Nat) :=
  if s = "-" ∨ s = "" then [] else (s.splitOn ",").filterMap fun x =>
    match x.splitOn ":" with
    | [a, n] => some (a.toNat!, n.toNat!)
    | _ => none

/-- per-address `rfc,classic,bytes,failed` -/
private def parsePer (s : String) : List (Nat × List Nat) :=
  if s = "-" ∨ s = "" then [] else (s.splitOn "|").filterMap fun x =>
    match x.splitOn ":" with
    | [a, v] => some (a.toNat!, (v.splitOn ",").map (·.toNat!))
    | _ => none

private def insertSorted (x : Nat × List Nat) : List (Nat × List Nat) → List (Nat × List Nat)
  | [] => [x]
  | y :: ys => if x.1 ≤ y.1 then x :: y :: ys else y :: insertSorted x ys

/-- `respsend <ver> <pc|agg> <seed> <entries>`  entries: `addr:nonce:request|-` separated by `;`
    impl: `panic=0 tot=resp,rfc,classic,bytes,failed per=addr:rfc,classic,bytes,failed|.. recv=addr:len,..` -/
def opRespSend (args0 : List String) (impl : String) : Verdict :=
  -- (4 arguments: a single batch; 5: a PRELUDE batch answered by the same responder before the measured one)
  let args := if args0.length = 4 then args0 ++ ["~"] else args0
  match args with
  | [v, kind, seedH, entriesS, preS] =>
    let ver : Version := if v = "I" then .ietf else .google
    let parseEntries (es : String) : List (Nat × Bytes × Bytes) := (if es = "~" ∨ es = "" then [] else es.splitOn ";").filterMap fun e =>
      match e.splitOn ":" with
      | [a, n, q] => match unhex n, (if q = "-" then some [] else unhex q) with
        | some nb, some qb => some (a.toNat!, nb, qb)
        | _, _ => none
      | _ => none
    let entries := parseEntries entriesS
    let prelude := parseEntries preS
    match unhex seedH with
    | none => bad "respsend: hex"
    | some seed =>
    let imp := parseKvs impl " "
    let norm (a : Nat) : Nat := if 50 < a ∧ a < 100 then a - 50 else a
    let n := entries.length
    let nUnreach := (entries.filter fun e => e.1 ≥ 50).length
    let label := "respsend:" ++ v ++ ":" ++ kind ++ ":n=" ++ (if n ≤ 3 then toString n else "many") ++ ":unreachable=" ++
      (if nUnreach = 0 then "0" else if nUnreach = n then "all" else "some") ++
      (if prelude.isEmpty then "" else ":after-batch-of=" ++ (if prelude.length ≤ 3 then toString prelude.length else "many") ++
        (if prelude.all (·.1 < 50) then "" else "-with-failed-sends"))
    if kvLookup imp "panic" ≠ "0" then l1 label "C08,C17: send_responses panicked" else
    let tot := (kvLookup imp "tot").splitOn "," |>.map (·.toNat!)
    let t (i : Nat) := tot.getD i 0
    let recv := parseRecv (kvLookup imp "recv")
    let per := parsePer (kvLookup imp "per")
    let recvN := recv.length
    let recvBytes := (recv.map (·.2)).foldl (· + ·) 0
    -- L1 (C17): what was recorded is what actually left / failed
    let perFail : Option String := if kind ≠ "pc" then none else
      per.findSome? fun (a, c) =>
        let got := recv.filter (·.1 = a)
        let gotBytes := (got.map (·.2)).foldl (· + ·) 0
        let queued := (entries.filter (fun e => norm e.1 = a)).length
        if c.getD 0 0 + c.getD 1 0 ≠ got.length then some ("C17: address " ++ toString a ++ ": " ++ toString (c.getD 0 0 + c.getD 1 0) ++ " responses recorded, " ++ toString got.length ++ " datagrams actually received")
        else if c.getD 2 0 ≠ gotBytes then some ("C17: address " ++ toString a ++ ": " ++ toString (c.getD 2 0) ++ " bytes recorded, " ++ toString gotBytes ++ " actually received")
        else if c.getD 3 0 ≠ queued - got.length then some ("C17: address " ++ toString a ++ ": " ++ toString (c.getD 3 0) ++ " failed sends recorded, " ++ toString (queued - got.length) ++ " replies actually missing")
        else none
    -- L1 (C02, C09): every datagram that arrived at an address is a complete valid response for a request queued
    -- for that address, each request answered at most once (signatures verified once per distinct triple)
    let p : Spec.RT.Proto := match ver with | .ietf => .draft13 | .google => .classic
    let ltpk := Ed25519.publicKey seed
    let dgs : List (Nat × Bytes) := (if kvLookup imp "dg" = "-" ∨ kvLookup imp "dg" = "" then [] else (kvLookup imp "dg").splitOn ",").filterMap fun x =>
      match x.splitOn ":" with
      | [a, h] => (unhex h).map fun b => (a.toNat!, b)
      | _ => none
    let triples := (dgs.flatMap fun d => triplesOf p ltpk d.2).eraseDups
    let table := triples.map fun tr => (tr, realScheme.verify tr.1 tr.2.1 tr.2.2)
    let S := memoScheme table
    let contentFail : Option String :=
      (fun (r : Option String × List (Nat × Bytes × Bytes)) =>
        match r.1 with
        | some e => some e
        | none =>
          -- every request whose return address CAN be sent to must have got its reply, whatever happened to the
          -- sends before it in the batch
          match r.2.find? (fun e => e.1 < 50) with
          | some e => some ("C09,C02,C17: the request queued for reachable address " ++ toString e.1 ++
              " got no reply (another send of the batch failed; this one cannot)")
          | none => none)
      (dgs.foldl (fun (acc : Option String × List (Nat × Bytes × Bytes)) d =>
        match acc.1 with
        | some e => (some e, acc.2)
        | none =>
          match acc.2.find? (fun e => norm e.1 = d.1 ∧ (Spec.RT.verifyResponse S Sha512.hash p ltpk e.2.2 e.2.1 d.2).isOk) with
          | some e => (none, acc.2.erase e)
          | none =>
            -- why: the verifier's reason for the first request outstanding for that address (attributes the failure:
            -- a certificate that does not verify under the seed's long-term key is C10's)
            let why : String := match acc.2.find? (fun e => norm e.1 = d.1) with
              | some e => (match Spec.RT.verifyResponse S Sha512.hash p ltpk e.2.2 e.2.1 d.2 with | .error w => w | .ok _ => "")
              | none => "nothing outstanding"
            let certPart := ["CERT", "DELE", "delegation", "missing certificate", "missing delegation"].any fun k => (why.splitOn k).length > 1
            (some ((if certPart then "C10,C02,C09: " else "C02,C09,C17: ") ++ "a datagram received at address " ++ toString d.1 ++ " (" ++ toString d.2.length ++
              " bytes) is not a valid response for any request still outstanding for that address (" ++ why ++ ")"), acc.2))
        (none, entries))
    let l1v : Option String :=
      if contentFail.isSome then contentFail
      else if t 0 ≠ recvN then some ("C17: " ++ toString (t 0) ++ " responses recorded but " ++ toString recvN ++ " datagrams actually sent (received by the harness)")
      else if t 3 ≠ recvBytes then some ("C17: " ++ toString (t 3) ++ " bytes recorded but " ++ toString recvBytes ++ " bytes actually sent")
      else if t 4 ≠ n - recvN then some ("C17: " ++ toString (t 4) ++ " failed sends recorded but " ++ toString (n - recvN) ++ " of " ++ toString n ++ " replies were not sent")
      else if (if ver = .ietf then t 1 ≠ recvN ∨ t 2 ≠ 0 else t 2 ≠ recvN ∨ t 1 ≠ 0) then some "C17: per-protocol response counters differ from the datagrams sent"
      else perFail
    match l1v with
    | some e => l1 label e
    | none =>
      -- L2: the model's send_responses with the same outcomes (sends to addresses >= 100 fail)
      let dummyI := zeros 32
      let dummyC := List.replicate 32 (1 : UInt8)
      match Server.new realEnv seed dummyI dummyC 64 with
      | .ok s0 =>
        let r00 := match ver with | .ietf => s0.ietf | .google => s0.classic
        -- the prelude batch through the same (model) responder
        let rPre : Res Responder := if prelude.isEmpty then .ok r00 else
          (prelude.foldl (fun (acc : Res Responder) e => acc.bind fun r =>
            Responder.add realEnv r (match ver with | .ietf => e.2.2 | .google => e.2.1) e.2.1 e.1) (Res.ok r00)).bind fun r =>
            (Responder.sendResponsesF (fun a _ => decide (a < 50)) realEnv r false (1700000000, 0) []).bind fun x => Res.ok (Responder.reset x.1)
        match rPre with
        | .err => l2 label "model send_responses (prelude batch) returned err"
        | .panic site => l2 label ("model predicts a panic in the prelude batch at " ++ site)
        | .ok r0 =>
        let added : Res Responder := entries.foldl (fun acc e => acc.bind fun r =>
          Responder.add realEnv r (match ver with | .ietf => e.2.2 | .google => e.2.1) e.2.1 e.1) (.ok r0)
        match added.bind fun r => Responder.sendResponsesF (fun a _ => decide (a < 50)) realEnv r false (1700000000, 0) [] with
        | .ok (_, os, es) =>
          let sentM := ((os.filterMap id).map fun s => (s.dst, s.bytes.length))
          let sortPairs (l : List (Nat × Nat)) := l.foldl (fun acc x =>
            let rec ins : List (Nat × Nat) → List (Nat × Nat)
              | [] => [x]
              | y :: ys => if x.1 < y.1 ∨ (x.1 = y.1 ∧ x.2 ≤ y.2) then x :: y :: ys else y :: ins ys
            ins acc) []
          let c := es.foldl (fun c e => Stats.Counters.bump c e) ({} : Stats.Counters)
          let modelTot := [c.rfcResponses + c.classicResponses, c.rfcResponses, c.classicResponses, c.bytesSent, c.failedSends]
          if sortPairs sentM ≠ sortPairs recv then l2 label ("model sends " ++ toString (sortPairs sentM) ++ ", implementation " ++ toString (sortPairs recv))
          else if modelTot ≠ tot then l2 label ("model totals " ++ toString modelTot ++ ", implementation " ++ toString tot)
          else if kind = "pc" then
            let addrs := (es.map (fun e => norm e.addr)).eraseDups
            let modelPer := addrs.foldl (fun acc a =>
              let ca := (es.filter (fun e => norm e.addr = a)).foldl (fun c e => Stats.Counters.bump c e) ({} : Stats.Counters)
              insertSorted (a, [ca.rfcResponses, ca.classicResponses, ca.bytesSent, ca.failedSends]) acc) []
            let implPer := per.foldl (fun acc x => insertSorted x acc) []
            if modelPer ≠ implPer then l2 label ("model per-address " ++ toString modelPer ++ ", implementation " ++ toString implPer)
            else ok label
          else ok label
        | .err => l2 label "model send_responses returned err"
        | .panic site => l2 label ("model predicts a panic at " ++ site)
      | _ => l2 label "model Server.new failed"
  | _ => bad "respsend: arity"

end Rough.Driver

import Rough.Basic.Bytes
import Rough.Model.Codec
/-
  Line protocol helpers shared by all driver sub-languages.
  Input  : op \t arg ... \t implOut          (one case per line)
  Output : verdict \t label \t detail          verdict ∈ ok | L1 | L2 | bad
    L1  = the property oracle fails on the implementation's own output (genuine failing input)
    L2  = implementation output differs from the model's (correspondence broken)
    bad = malformed line (harness error)
-/
namespace Rough.Driver

structure Verdict where
  verdict : String
  label : String
  detail : String

def ok (label : String) (detail : String := "") : Verdict := ⟨"ok", label, detail⟩
def l1 (label detail : String) : Verdict := ⟨"L1", label, detail⟩
def l2 (label detail : String) : Verdict := ⟨"L2", label, detail⟩
def bad (detail : String) : Verdict := ⟨"bad", "bad", detail⟩

def Verdict.render (v : Verdict) : String := v.verdict ++ "\t" ++ v.label ++ "\t" ++ v.detail

def fieldsStr (m : Msg) : String :=
  if m.fields.isEmpty then "-" else
  ",".intercalate (m.fields.map fun f => f.1.name ++ "=" ++ hexOrDash f.2)

def parseFields (s : String) : Option (List (Tag × Bytes)) :=
  if s = "-" then some [] else
  (s.splitOn ",").mapM fun kv =>
    match kv.splitOn "=" with
    | [k, v] => do
      let t ← Tag.ofName k
      let b ← unhex v
      pure (t, b)
    | _ => none

def resStr {α} (f : α → String) : Res α → String
  | .ok a => "ok " ++ f a
  | .err => "err"
  | .panic _ => "panic"

def panicSite {α} : Res α → String
  | .panic s => s
  | _ => ""

end Rough.Driver

import Rough.Driver.Server
/-
  Driver ops for C13 (`sign`, `vrf`), C10 (`ltk`), C11 (`srep`).
-/
namespace Rough.Driver
open Rough.Spec

def parseSignerOps (s : String) : Option (List SignerOp) :=
  if s = "" then some [] else
  (s.splitOn ";").mapM fun o =>
    if o = "s" then some SignerOp.sign
    else match o.splitOn " " with
      | ["u", h] => (unhex h).map SignerOp.update
      | _ => none

/-- messages signed by a history (spec side: one-shot RFC 8032 on each concatenation) -/
def segmentsOf (ops : List SignerOp) : List Bytes :=
  let rec go (cur : Bytes) : List SignerOp → List Bytes
    | [] => []
    | .update d :: ops => go (cur ++ d) ops
    | .sign :: ops => cur :: go [] ops
  go [] ops

def hexList (l : List Bytes) : String := if l.isEmpty then "-" else ",".intercalate (l.map hexOf)

/-- `sign <seed> <ops>`  impl: `impl=<sigs> pk=<hex> dalek=<sigs>` -/
def opSign (args : List String) (impl : String) : Verdict :=
  match args with
  | [sh, opsS] =>
    match unhex sh, parseSignerOps opsS with
    | some seed, some ops =>
      let imp := parseKvs impl " "
      let segs := segmentsOf ops
      let want := hexList (segs.map (Ed25519.sign seed))
      let model := hexList (runSigner realScheme ⟨seed, []⟩ ops)
      let nmsg := segs.length
      let label := "sign:msgs=" ++ (if nmsg ≤ 1 then toString nmsg else if nmsg < 10 then "few" else "many") ++
        (if segs.any (·.isEmpty) then ":empty" else "") ++ (if segs.any (fun s => s.length > 1000) then ":long" else "")
      let i := kvLookup imp "impl"
      let d := kvLookup imp "dalek"
      if i ≠ d then l1 label "C13: MsgSigner output differs from ed25519-dalek called one-shot on the concatenated chunks"
      else if i ≠ want then l1 label "C13: signature is not the RFC 8032 signature of the concatenated chunks of that message alone"
      else if kvLookup imp "pk" ≠ hexOf (Ed25519.publicKey seed) then l1 label "C13,C10: public key is not the RFC 8032 public key of the seed"
      else if i ≠ model then l2 label ("model=" ++ model.take 200)
      else ok label
    | _, _ => bad "sign: args"
  | _ => bad "sign: arity"

/-- `vrf <pk> <chunks> <sig>`  impl: `impl=1|0|panic dalek=1|0|err` -/
def opVrf (args : List String) (impl : String) : Verdict :=
  match args with
  | [pkh, chS, sgh] =>
    let chunks? : Option (List Bytes) := if chS = "-" then some [] else (chS.splitOn ",").mapM unhex
    match unhex pkh, chunks?, unhex sgh with
    | some pk, some chunks, some sig =>
      let imp := parseKvs impl " "
      let i := kvLookup imp "impl"
      let d := kvLookup imp "dalek"
      let msg := chunks.flatten
      let lean := Ed25519.verify pk msg sig
      let model : String := match (Verifier.new realScheme pk).bind (fun v => (chunks.foldl Verifier.update v).verify realScheme sig) with
        | .ok true => "1" | .ok false => "0" | _ => "panic"
      let implAcc := i == "1"
      let dalekAcc := d == "1"
      let label := "vrf:" ++ (if lean then "accept" else "reject") ++ (if pk.length ≠ 32 ∨ sig.length ≠ 64 then ":badlen" else "")
      if implAcc ≠ dalekAcc then l1 label "C13: MsgVerifier and direct ed25519-dalek verification disagree"
      else if implAcc ≠ lean then l1 label "C13: acceptance differs from the RFC 8032 reference verification"
      else if i ≠ model then l2 label ("model=" ++ model)
      else ok label
    | _, _, _ => bad "vrf: args"
  | _ => bad "vrf: arity"

/-- expected certificate for an online public key: fully determined because Ed25519 is deterministic -/
def expectedCert (seed : Bytes) (p : RT.Proto) (pubk : Bytes) : Bytes :=
  let dele := encode ⟨[(Tag.PUBK, pubk), (Tag.MINT, le64 0), (Tag.MAXT, le64 (2 ^ 64 - 1))]⟩
  encode ⟨[(Tag.SIG, Ed25519.sign seed (RT.deleCtx p ++ dele)), (Tag.DELE, dele)]⟩

/-- checks on one certificate: spec-level (L1) then exact bytes (L2) -/
def checkCert (seed ltpk : Bytes) (p : RT.Proto) (certB : Bytes) : Option String × Option String :=
  match decode certB with
  | none => (some "C10: certificate does not decode", none)
  | some cert =>
    match cert.get Tag.SIG, cert.get Tag.DELE with
    | some sig, some deleB =>
      match decode deleB with
      | none => (some "C10: DELE does not decode", none)
      | some dele =>
        match dele.get Tag.PUBK, dele.get Tag.MINT, dele.get Tag.MAXT with
        | some pubk, some mint, some maxt =>
          let other : RT.Proto := match p with | .classic => .draft13 | .draft13 => .classic
          if ¬ Ed25519.verify ltpk (RT.deleCtx p ++ deleB) sig then (some "C10: certificate does not verify under the long-term key with the protocol's delegation context", none)
          else if Ed25519.verify ltpk (RT.deleCtx other ++ deleB) sig then (some "C10: certificate verifies under the OTHER protocol's delegation context", none)
          else if pubk.length ≠ 32 ∨ mint.length ≠ 8 ∨ maxt.length ≠ 8 then (some "C10: delegation field lengths", none)
          else if ¬ (RT.u64le mint ≤ RT.u64le maxt) then (some "C10: delegation window is empty", none)
          else if ¬ (RT.u64le mint = 0 ∧ RT.u64le maxt = 2 ^ 64 - 1) then (none, some "delegation window differs from the model's [0, 2^64-1] (whether it contains every response midpoint is judged on real responses)")
          else if certB ≠ expectedCert seed p pubk then (none, some "certificate bytes differ from the model's make_cert")
          else (none, none)
        | _, _, _ => (some "C10: DELE lacks PUBK/MINT/MAXT", none)
    | _, _ => (some "C10: CERT lacks SIG/DELE", none)

/-- `ltk <seed>` impl: `pk= srv= cert13= cert0= cert13b= pubs=a,b,c display=` -/
def opLtk (args : List String) (impl : String) : Verdict :=
  match args with
  | [sh] =>
    match unhex sh with
    | some seed =>
      if impl = "panic" then l1 "ltk" "C10: LongTermKey / Server::new panicked on a 32-byte seed" else
      let imp := parseKvs impl " "
      let ltpk := Ed25519.publicKey seed
      let srv := (Sha512.hash ((0xff : UInt8) :: ltpk)).take 32
      let label := "ltk"
      if kvLookup imp "fmtleak" ≠ "none" ∧ kvLookup imp "fmtleak" ≠ "" then
        l1 label ("C20: Display/Debug of MsgSigner / LongTermKey / OnlineKey contains the seed or the secret scalar: " ++ kvLookup imp "fmtleak")
      else if kvLookup imp "pk" ≠ hexOf ltpk then l1 label "C10: public key is not the RFC 8032 public key of the seed"
      else if kvLookup imp "srv" ≠ hexOf srv then l1 label "C10: SRV is not SHA-512(0xff || pk)[0..32]"
      else if (kvLookup imp "pubs").splitOn "," ≠ [hexOf ltpk, hexOf ltpk, hexOf ltpk] then l1 label "C10: Server::get_public_key differs between instances of the same seed"
      else if kvLookup imp "srvprobe" ≠ "101010" then
        l1 label ("C10: a Server instance does not treat SHA-512(0xff || pk)[0..32] as its own SRV value when matching requests (answered own/other per instance: " ++ kvLookup imp "srvprobe" ++ ")")
      else if kvLookup imp "display" ≠ hexOf ltpk then l1 label "C10: Display of the long-term key is not its public key"
      else
        let certs := [(RT.Proto.draft13, kvLookup imp "cert13"), (RT.Proto.classic, kvLookup imp "cert0"), (RT.Proto.draft13, kvLookup imp "cert13b")]
        let res := certs.map fun (p, h) => checkCert seed ltpk p ((unhex h).getD [])
        match res.findSome? (·.1), res.findSome? (·.2) with
        | some e, _ => l1 label e
        | none, some e => l2 label e
        | none, none =>
          -- model Server.new with dummy online seeds gives the same identity
          match Server.new realEnv seed (zeros 32) (zeros 32) 64 with
          | .ok s =>
            if kvLookup imp "onl_distinct" = "0" then
              l2 label "model assumption broken: OnlineKey::new() is modelled as drawing a fresh seed from the OS RNG, but two key objects of one process certify the same online key"
            else if s.ltPub = ltpk ∧ s.srv = srv then ok label else l2 label "model Server.new identity differs"
          | _ => l2 label "model Server.new failed"
    | none => bad "ltk: seed"
  | _ => bad "ltk: arity"

/-- `srep <G|I> <secs> <nanos> <root>`  impl: `res=<hex of {SIG,SREP}> pubk=<hex>` | `panic` -/
def opSrep (args : List String) (impl : String) : Verdict :=
  match args with
  | [v, secsS, nanosS, rh] =>
    match unhex rh with
    | some root =>
      let ver : Version := if v = "I" then .ietf else .google
      let p : RT.Proto := if v = "I" then .draft13 else .classic
      let secs := secsS.toNat!
      let nanos := nanosS.toNat!
      let tNs := secs * 1000000000 + nanos
      let unitNs : Nat := match ver with | .google => 1000 | .ietf => 1000000000
      let model := makeSrep realScheme ⟨zeros 32, []⟩ ver secs nanos root
      let inRange := secs ≤ 253402300800   -- property: epoch .. beyond year 2200 (we go to 9999)
      let label := "srep:" ++ v ++ ":" ++ (if secs < 4102444800 then "to2100" else if inRange then "to9999" else "far") ++
        (if nanos = 0 then ":n0" else if nanos ≥ 999999000 then ":nmax" else "")
      if impl = "panic" then
        if inRange then l1 label "C11: make_srep panicked for a clock value inside the documented range"
        else if model.isPanic then ok (label ++ ":overflow-panic") else l2 label "impl panicked, model did not"
      else
        let imp := parseKvs impl " "
        match (unhex (kvLookup imp "res")).bind decode, unhex (kvLookup imp "pubk") with
        | some res, some pubk =>
          match res.get Tag.SIG, res.get Tag.SREP with
          | some sig, some srepB =>
            match decode srepB with
            | none => l1 label "C11: SREP does not decode"
            | some srep =>
              match srep.get Tag.MIDP, srep.get Tag.RADI, srep.get Tag.ROOT with
              | some midpB, some radiB, some rootB =>
                let midp := RT.u64le midpB
                let radi := RT.u32le radiB
                if midpB.length ≠ 8 ∨ radiB.length ≠ 4 then l1 label "C11: MIDP/RADI width"
                else if inRange ∧ midp ≠ tNs / unitNs then l1 label ("C11: midpoint " ++ toString midp ++ " is not floor(clock / unit) = " ++ toString (tNs / unitNs))
                else if radi * unitNs ≠ 5000000000 then l1 label "C11: radius is not five seconds in the protocol's unit"
                else if rootB ≠ root then l1 label "C11,C02: SREP.ROOT is not the root handed in"
                else if ¬ Ed25519.verify pubk (RT.srepCtx p ++ srepB) sig then l1 label "C02: SREP signature does not verify under the delegated key"
                else if ver = .ietf ∧ (srep.get Tag.VER ≠ some RT.ver13 ∨ srep.get Tag.VERS ≠ some ([0, 0, 0, 0] ++ RT.ver13)) then
                  l1 label "C12: IETF SREP does not state VER = draft-13 and the supported version list"
                else match model with
                  | .ok (m, _) => if m.get Tag.SREP = some srepB then ok label else l2 label "SREP bytes differ from the model's make_srep"
                  | _ => l2 label "model make_srep failed"
              | _, _, _ => l1 label "C11: SREP lacks MIDP/RADI/ROOT"
          | _, _ => l1 label "C11: result lacks SIG/SREP"
        | _, _ => bad "srep: impl"
    | none => bad "srep: root"
  | _ => bad "srep: arity"

end Rough.Driver

import Rough.Driver.Server
import Rough.Model.EventLoop
import Rough.Model.Client
import Rough.Spec.LoopSpec
/-
  Driver op `loop`: `Server::process_events` called once per `P` step on a real socket / listener
  (harness/src/evloop.rs) against Model/EventLoop.lean run on the same step list.
    L1 (no model involved): no panic; by the end of the scenario (which always ends with enough calls to
       drain) every client got exactly as many replies as it sent valid requests, every connection got the
       fixed response; no call answered more than 16 · batch_size datagrams.
    L2: per call, the multiset of reply destinations and the number of connections answered equal the
       model's prediction (this is what checks the edge-triggered readiness rule, the backlog flag and the
       bound of 16 batches as modelled).
  The model runs with a cheap signature scheme (the theorems hold for every scheme): only counts and
  destinations are compared here; reply bytes are validated by the `srv` op.
-/
namespace Rough.Driver
open Rough Rough.EventLoop Rough.Stats

private def cheapScheme : SigScheme :=
  ⟨fun seed => seed, fun _ _ => zeros 64, fun _ _ _ => true, fun _ => true⟩
private def cheapEnv : Env := ⟨cheapScheme, Sha512.hash⟩

private def insertNat (x : Nat) : List Nat → List Nat
  | [] => [x]
  | y :: ys => if x ≤ y then x :: y :: ys else y :: insertNat x ys
private def sortNat (l : List Nat) : List Nat := l.foldl (fun acc x => insertNat x acc) []

private def obsOf (o : Out) : String :=
  ".".intercalate ((sortNat (o.sent.map (·.dst))).map toString) ++ "/" ++ toString o.hcAnswered.length

private def nonceOf (counter : Nat) (len : Nat) : Bytes := (le64 counter ++ zeros 56).take len

private def dgramOf (kind : String) (counter : Nat) : Bytes :=
  match kind with
  | "c" => match Client.makeRequest Sha512.hash .google (nonceOf counter 64) none with | .ok b => b | _ => []
  | "i" => match Client.makeRequest Sha512.hash .ietf (nonceOf counter 32) none with | .ok b => b | _ => []
  | _ => zeros 100

/-- run the model over the steps; returns the per-call observations -/
private def runModel (st : Loop) : List String → Nat → Nat → List String → Option (List String)
  | [], _, _, acc => some acc.reverse
  | s :: rest, counter, conns, acc =>
    let kind := (s.take 1).toString
    let arg := (s.drop 1).toString
    if kind == "P" then
      match processEvents cheapEnv false st ⟨LoopSpec.pending st, fun _ => {}⟩ with
      | .ok (st', o) => runModel st' rest counter conns (obsOf o :: acc)
      | _ => none
    else if kind == "t" then runModel (envStep st (.connect conns)) rest counter (conns + 1) acc
    else
      let c := counter + 1
      runModel (envStep st (.arrive ⟨arg.toNat!, dgramOf kind c⟩)) rest c conns acc

private def countWhere (l : List String) (p : String → Bool) : Nat := (l.filter p).length

def opLoop (args : List String) (impl : String) : Verdict :=
  match args with
  | [cfgS, stepsS] =>
    let cfg := parseKvs cfgS ","
    let batch := (kvLookup cfg "batch").toNat!
    let hc := kvLookup cfg "hc" == "1"
    let pc := kvLookup cfg "pc" == "1"
    let tag := kvLookup cfg "tag"
    let steps := (stepsS.splitOn " ").filter (· ≠ "")
    let label := "loop:" ++ String.ofList (tag.toList.takeWhile Char.isAlpha) ++ ":b=" ++ toString batch ++ (if hc then ":hc" else "") ++ (if pc then ":pc" else "")
    let imp := parseKvs impl " "
    if kvLookup imp "newpanic" == "1" then l1 label "C08,C15: Server::new panicked on a valid configuration" else
    if kvLookup imp "panic" ≠ "0" then l1 label "C08,C09,C15,C18: process_events panicked (the requests the call had accepted get no reply, the worker is gone)" else
    let obsS := kvLookup imp "obs"
    let obs := if obsS == "-" then [] else obsS.splitOn ","
    -- L1 -------------------------------------------------------------------------------------
    let repliesOf (o : String) : List String := match o.splitOn "/" with
      | r :: _ => if r == "" then [] else r.splitOn "."
      | [] => []
    let hcOf (o : String) : String := (o.splitOn "/").getD 1 "0"
    let garbled := obs.any fun o => (hcOf o).toList.contains '!'
    let allReplies := obs.flatMap repliesOf
    let perClient (k : Nat) : Nat × Nat :=
      (countWhere steps (fun s => s == "c" ++ toString k || s == "i" ++ toString k), countWhere allReplies (· == toString k))
    let mism := (List.range 4).filter fun k => (perClient k).1 ≠ (perClient k).2
    let conns := countWhere steps (· == "t")
    let answered := (obs.map fun o => (String.ofList ((hcOf o).toList.takeWhile Char.isDigit)).toNat!).foldl (· + ·) 0
    let tooMany := obs.any fun o => (repliesOf o).length > 16 * batch
    if garbled then l1 label "C15: a health-check connection received something other than the fixed HTTP response" else
    if !mism.isEmpty then
      let k := mism.headD 0
      l1 label ("C08,C09,C18,C07: client " ++ toString k ++ " sent " ++ toString (perClient k).1 ++ " valid requests and received " ++
        toString (perClient k).2 ++ " replies although the worker was given enough calls to drain its socket")
    else if conns ≠ answered then
      l1 label ("C15: " ++ toString conns ++ " health-check connections opened, " ++ toString answered ++ " answered after the worker was given enough calls")
    else if tooMany then l1 label ("C19: one process_events call answered more than 16*batch_size datagrams")
    else
    -- C17: the recorder's totals at the end equal the traffic served (valid requests, dropped datagrams, health checks, replies)
    let recS := kvLookup imp "rec"
    let nValid := countWhere steps (fun s => s.startsWith "c" || s.startsWith "i")
    let nInvalid := countWhere steps (fun s => s.startsWith "x")
    let expectRec := toString nValid ++ "." ++ toString nInvalid ++ "." ++ toString conns ++ "." ++ toString allReplies.length
    if recS ≠ "" ∧ recS ≠ expectRec then
      l1 label ("C17: recorded valid.invalid.health-checks.responses = " ++ recS ++ ", the traffic served was " ++ expectRec)
    else
    -- L2 -------------------------------------------------------------------------------------
    match Server.new cheapEnv (List.replicate 32 7) (List.replicate 32 1) (List.replicate 32 2) batch with
    | .ok srv =>
      match runModel (EventLoop.new srv hc pc 100000) steps 0 0 [] with
      | some mobs =>
        if mobs == obs then ok label
        else
          let i := ((List.range obs.length).find? fun i => obs.getD i "" ≠ mobs.getD i "").getD 0
          l2 label ("call " ++ toString i ++ ": implementation " ++ obs.getD i "?" ++ " model " ++ mobs.getD i "?")
      | none => l2 label "model: process_events did not return ok"
    | _ => bad "loop: model Server.new failed"
  | _ => bad "loop: args"

end Rough.Driver

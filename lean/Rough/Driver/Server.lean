import Rough.Driver.Common
import Rough.Crypto.Sha512
import Rough.Crypto.Ed25519
import Rough.Model.Server
import Rough.Spec.Roughtime
/-
  `srv` cases: a scenario run on the real in-process server, validated
    L1: against the independent spec (Spec.RT) — per property, reasons are tagged Cxx
    L2: against the model (Model/Server.lean), with the values the model cannot know masked
        (online public key / signatures / midpoint).
-/
namespace Rough.Driver
open Rough.Spec Rough.Spec.RT

def realScheme : SigScheme :=
  ⟨Ed25519.publicKey, Ed25519.sign, Ed25519.verify, fun pk => (Ed25519.decompress pk).isSome⟩
def realEnv : Env := ⟨realScheme, Sha512.hash⟩

def kvLookup (kvs : List (String × String)) (k : String) : String := (kvs.lookup k).getD ""

def parseKvs (s : String) (sep : String) : List (String × String) :=
  (s.splitOn sep).filterMap fun kv =>
    match kv.splitOn "=" with
    | k :: rest => some (k, "=".intercalate rest)
    | _ => none

/-- `client:hex;client:hex` -/
def parseDgrams (s : String) : Option (List (Nat × Bytes)) :=
  if s = "-" ∨ s = "" then some [] else
  (s.splitOn ";").mapM fun x =>
    match x.splitOn ":" with
    | [c, h] => do
      let b ← unhex h
      pure (c.toNat!, b)
    | _ => none

/-- lenient parse of a tag-value message that ignores tag order (used only to explain greased replies) -/
def lenientFields (b : Bytes) : Option (List (Bytes × Bytes)) :=
  if b.length < 4 ∨ b.length % 4 ≠ 0 then none else
  let n := rd32 b
  if n = 0 ∨ b.length < 8 * n then none else
  let offs := (List.range (n - 1)).map fun i => rd32 (b.drop (4 + 4 * i))
  let tags := (List.range n).map fun i => (b.drop (4 + 4 * (n - 1) + 4 * i)).take 4
  let payload := b.drop (8 * n)
  let bounds := (0 :: offs) ++ [payload.length]
  let vals := (List.range n).map fun i =>
    let s := bounds.getD i 0
    let e := bounds.getD (i + 1) 0
    (payload.drop s).take (e - s)
  some (tags.zip vals)

/-- mask what the model cannot predict: SIG, CERT (online key + its certification), SREP.MIDP -/
def maskReply (ietf : Bool) (d : Bytes) : Bytes :=
  let body := if ietf then d.drop 12 else d
  match decode body with
  | none => d
  | some m =>
    let fields := m.fields.map fun (f : Tag × Bytes) =>
      match f.1 with
      | Tag.SIG => (f.1, zeros f.2.length)
      | Tag.CERT => (f.1, le32 f.2.length)
      | Tag.SREP =>
        match decode f.2 with
        | some sm => (f.1, encode ⟨sm.fields.map fun (g : Tag × Bytes) => if g.1 = Tag.MIDP then (g.1, zeros g.2.length) else g⟩)
        | none => f
      | _ => f
    let e := encode ⟨fields⟩
    if ietf then d.take 12 ++ e else e

structure ReqInfo where
  proto : Proto
  cls : ReqClass
  bytes : Bytes
  matched : Bool := false

def isIetfDgram (d : Bytes) : Bool := d.take 8 == magic

/-- signature-verification memo: verify each distinct (pk,msg,sig) once -/
def memoScheme (table : List ((Bytes × Bytes × Bytes) × Bool)) : SigScheme :=
  { realScheme with verify := fun pk m s =>
      match table.lookup (pk, m, s) with
      | some b => b
      | none => realScheme.verify pk m s }

/-- the (pk,msg,sig) triples a reply will ask the verifier about -/
def triplesOf (p : Proto) (ltpk : Bytes) (reply : Bytes) : List (Bytes × Bytes × Bytes) :=
  let body := match p with | .classic => some reply | .draft13 => unframe reply
  match body.bind decode with
  | none => []
  | some m =>
    match m.get Tag.SIG, m.get Tag.SREP, m.get Tag.CERT with
    | some sig, some srep, some certB =>
      match decode certB with
      | some cert =>
        match cert.get Tag.SIG, cert.get Tag.DELE with
        | some cs, some deleB =>
          let t1 := (ltpk, deleCtx p ++ deleB, cs)
          match (decode deleB).bind (·.get Tag.PUBK) with
          | some pubk => [t1, (pubk, srepCtx p ++ srep, sig)]
          | none => [t1]
        | _, _ => []
      | none => []
    | _, _, _ => []

def natOfDec (s : String) : Nat := s.toNat!

/-- "secs.nanos" → nanoseconds -/
def parseTime (s : String) : Nat :=
  match s.splitOn "." with
  | [a, b] => a.toNat! * 1000000000 + b.toNat!
  | _ => 0

def splitChunks {α} (k : Nat) (l : List α) : List (List α) :=
  if k = 0 then [l] else
  let rec go (fuel : Nat) (l : List α) : List (List α) :=
    match fuel with
    | 0 => []
    | f + 1 => if l.isEmpty then [] else l.take k :: go f (l.drop k)
  go (l.length + 1) l

def opSrv (args : List String) (impl : String) : Verdict :=
  match args with
  | [cfgS, burstsS] =>
    let cfg := parseKvs cfgS ","
    let seed := (unhex (kvLookup cfg "seed")).getD []
    let batch := natOfDec (kvLookup cfg "batch")
    let fault := natOfDec (kvLookup cfg "fault")
    let level := kvLookup cfg "log"
    let tag := kvLookup cfg "tag"
    let debug := level == "debug" || level == "trace"
    let imp := parseKvs impl " "
    if kvLookup imp "newpanic" == "1" then l1 ("srv:" ++ tag) "C08,C15: Server::new panicked on a valid configuration" else
    match (burstsS.splitOn "|").mapM parseDgrams, parseDgrams (kvLookup imp "replies") with
    | some bursts, some replies =>
      let ltpk := Ed25519.publicKey seed
      let srv := (Sha512.hash ((0xff : UInt8) :: ltpk)).take 32
      let allDgrams := bursts.flatten
      let nclients := (allDgrams.map (·.1) ++ replies.map (·.1)).foldl max 0 + 1
      -- verify each distinct signature triple once
      let triples := (replies.flatMap fun (r : Nat × Bytes) =>
        triplesOf (if isIetfDgram r.2 then .draft13 else .classic) ltpk r.2).eraseDups
      let table := triples.map fun t => (t, realScheme.verify t.1 t.2.1 t.2.2)
      let S := memoScheme table
      let t0 := parseTime (kvLookup imp "t0")
      let t1 := parseTime (kvLookup imp "t1")
      -- per-burst clock brackets and the burst each reply arrived in (parallel to `replies`)
      let brackets : List (Nat × Nat) := ((kvLookup imp "brackets").splitOn ",").map fun b =>
        match b.splitOn "-" with
        | [x, y] => (parseTime x, parseTime y)
        | _ => (0, 0)
      let rburst : List Nat := let s := kvLookup imp "rburst"; if s = "-" ∨ s = "" then [] else (s.splitOn ",").map String.toNat!
      let bracketOf (globalIdx : Nat) : Nat × Nat :=
        match rburst[globalIdx]? with
        | some k => (match brackets[k]? with
          | some (x, y) => if y = 0 then (t0, t1) else (x, y)
          | none => (t0, t1))
        | none => (t0, t1)
      -- per client: L1 matching of replies to spec-classified requests
      let perClient (c : Nat) : Option String × Nat × Nat × Nat :=   -- (failure, replies, invalid replies, mays answered)
        let reqs : List ReqInfo := (allDgrams.filter (·.1 = c)).map fun (x : Nat × Bytes) =>
          let p := protoOf x.2
          { proto := p, cls := classifyRequest p srv x.2, bytes := x.2 }
        let reps := ((replies.zipIdx).filter (·.1.1 = c)).map fun x => (x.1.2, x.2)
        let step (st : List ReqInfo × Option String × Nat) (repi : Bytes × Nat) : List ReqInfo × Option String × Nat :=
          let (rs, fail, invalid) := st
          let rep := repi.1
          let (t0, t1) := bracketOf repi.2
          let p : Proto := if isIetfDgram rep then .draft13 else .classic
          -- first unmatched request of that protocol for which the spec verifier accepts this reply
          let rec find (pre : List ReqInfo) (l : List ReqInfo) : Option (List ReqInfo × ReqInfo × Nat × Nat) :=
            match l with
            | [] => none
            | r :: rest =>
              let nonce? : Option Bytes := match r.cls with | .must n => some n | .may n => some n | .no => none
              match nonce? with
              | some n =>
                if !r.matched && r.proto == p then
                  match verifyResponse S Sha512.hash p ltpk r.bytes n rep with
                  | .ok (midp, radi) => some (pre.reverse ++ ({ r with matched := true } :: rest), r, midp, radi)
                  | .error _ => find (r :: pre) rest
                else find (r :: pre) rest
              | none => find (r :: pre) rest
          match find [] rs with
          | some (rs', r, midp, radi) =>
            let unitNs : Nat := match p with | .classic => 1000 | .draft13 => 1000000000
            let fail := match fail with
              | some e => some e
              | none =>
                if rep.length > r.bytes.length then some ("C07: reply of " ++ toString rep.length ++ " bytes to a request of " ++ toString r.bytes.length)
                else if ¬ (t0 < (midp + 1) * unitNs ∧ midp * unitNs ≤ t1) then some ("C11: midpoint " ++ toString midp ++ " is not the server clock in the protocol's unit (harness clock bracket of the burst " ++ toString t0 ++ ".." ++ toString t1 ++ " ns)")
                else if radi * unitNs ≠ 5000000000 then some ("C11: radius " ++ toString radi ++ " is not five seconds in the protocol's unit")
                else none
            (rs', fail, invalid)
          | none =>
            let why := match (rs.find? fun r => !r.matched && r.proto == p && r.cls != ReqClass.no) with
              | some r => match r.cls with
                | .must n | .may n => match verifyResponse S Sha512.hash p ltpk r.bytes n rep with
                  | .error e => e
                  | .ok _ => "?"
                | .no => "?"
              | none => "no outstanding accepted request of this protocol from this client"
            let fail := match fail with
              | some e => some e
              | none =>
                if fault = 0 then some ((if why = "delegation signature" ∨ why = "midpoint outside delegation window" ∨ why = "CERT decode" ∨ why = "DELE decode" ∨ why = "DELE field length" ∨ why = "missing CERT.DELE" ∨ why = "missing CERT.SIG" then "C10," else "") ++
                  "C02,C09,C07: a reply to client " ++ toString c ++ " does not verify for any outstanding request of that client (" ++ why ++ ")")
                else if rep.length > 1024 then some "C07: fault-injected reply longer than the shortest admissible request"
                else none
            (rs, fail, invalid + 1)
        let (rs, fail, invalid) := reps.foldl step (reqs, none, 0)
        let unansweredMust := (rs.filter fun r => !r.matched && (match r.cls with | .must _ => true | _ => false)).length
        let answeredMay := (rs.filter fun r => r.matched && (match r.cls with | .may _ => true | _ => false)).length
        let fail := match fail with
          | some e => some e
          | none =>
            if unansweredMust ≠ invalid then
              some ("C09,C07,C08,C12: client " ++ toString c ++ ": " ++ toString unansweredMust ++ " accepted request(s) without a valid reply, " ++ toString invalid ++ " invalid/unattributable replies")
            else none
        (fail, reps.length, invalid, answeredMay)
      let results := (List.range nclients).map perClient
      let firstFail := results.findSome? (·.1)
      let nReplies := (results.map (·.2.1)).sum
      let nInvalid := (results.map (·.2.2.1)).sum
      -- global L1s
      let panicked := kvLookup imp "panic" == "1"
      let leak := kvLookup imp "leak"
      let pub := kvLookup imp "pub"
      let statsL := (kvLookup imp "stats").splitOn ","
      let qstatsL := (kvLookup imp "qstats").splitOn ","
      -- what the recorder still holds plus what it already published through the statistics queue
      let stat (i : Nat) : Nat := (statsL.getD i "0").toNat! + (qstatsL.getD i "0").toNat!
      let nDgrams := allDgrams.length
      let nRfcRep := (replies.filter fun r => isIetfDgram r.2).length
      let bytesOut := (replies.map fun r => r.2.length).sum
      let statFail : Option String :=
        if panicked then none
        else if stat 0 ≠ nReplies then some ("C17: recorded valid requests " ++ toString (stat 0) ++ " ≠ requests actually answered " ++ toString nReplies)
        else if stat 3 ≠ nDgrams - nReplies then some ("C17: recorded invalid requests " ++ toString (stat 3) ++ " ≠ datagrams dropped " ++ toString (nDgrams - nReplies))
        else if stat 7 ≠ nReplies then some ("C17: recorded responses " ++ toString (stat 7) ++ " ≠ datagrams sent " ++ toString nReplies)
        else if stat 8 ≠ nRfcRep ∨ stat 9 ≠ nReplies - nRfcRep then some "C17: per-protocol response counts differ from the datagrams sent"
        else if stat 1 ≠ nRfcRep ∨ stat 2 ≠ nReplies - nRfcRep then some "C17: per-protocol request counts differ from the requests answered"
        else if stat 10 ≠ bytesOut then some ("C17: recorded bytes " ++ toString (stat 10) ++ " ≠ bytes sent " ++ toString bytesOut)
        else if stat 4 ≠ 0 ∨ stat 5 ≠ 0 ∨ stat 6 ≠ 0 then some "C17: health-check / failed / retried counters moved without such an event"
        else none
      let label := "srv:" ++ tag ++ ":b=" ++ (if batch ≤ 2 then toString batch else if batch ≥ 63 then toString batch else "mid") ++
        ":f=" ++ (if fault = 0 then "0" else "p") ++ ":" ++ level ++ ":rep=" ++
        (if nReplies = 0 then "0" else if nReplies < 10 then "few" else if nReplies < 65 then "some" else "many")
      let metrics := "replies=" ++ toString nReplies ++ " invalid=" ++ toString nInvalid ++ " fault=" ++ toString fault
      if panicked then l1 label ("C08: process_events panicked (log level " ++ level ++ ")")
      else if leak ≠ "0" then l1 label ("C20: secret material found in " ++ leak)
      else if pub ≠ hexOf ltpk then l1 label "C10: announced long-term key is not the RFC 8032 public key of the seed"
      else match firstFail, statFail with
      | some e, _ => l1 label e
      | none, some e => l1 label e
      | none, none =>
        -- L2: model run with the same chunking (only when no fault injection is configured)
        if fault ≠ 0 then ok label metrics else
        let dummyI := zeros 32
        let dummyC := List.replicate 32 (1 : UInt8)
        match Server.new realEnv seed dummyI dummyC batch with
        | .ok s0 =>
          let passes : List Server.Pass := bursts.flatMap fun burst =>
            (splitChunks batch (burst.map fun (x : Nat × Bytes) => (⟨x.1, x.2⟩ : Datagram))).map fun ch => { chunk := ch }
          match Server.run realEnv debug s0 passes with
          | .ok (_, sent, events) =>
            let diff := (List.range nclients).findSome? fun c =>
              let m := (sent.filter (·.dst = c)).map fun s => maskReply (isIetfDgram s.bytes) s.bytes
              let i := (replies.filter (·.1 = c)).map fun r => maskReply (isIetfDgram r.2) r.2
              if m = i then none else some ("client " ++ toString c ++ ": model sends " ++ toString m.length ++ " replies, implementation " ++ toString i.length ++
                (match (m.zip i).find? (fun p => p.1 ≠ p.2) with
                 | some p => "; first differing reply model=" ++ (hexOf p.1).take 160 ++ " impl=" ++ (hexOf p.2).take 160
                 | none => ""))
            let evValid := (events.filter fun e => e.kind = Stats.Kind.ietfReq ∨ e.kind = Stats.Kind.classicReq).length
            let evInvalid := (events.filter fun e => e.kind = Stats.Kind.invalidReq).length
            match diff with
            | some d => l2 label d
            | none =>
              if evValid ≠ stat 0 ∨ evInvalid ≠ stat 3 then l2 label "statistics events of the model differ from the recorder totals"
              else ok label metrics
          | .err => l2 label "model run returned err"
          | .panic site => l2 label ("model predicts a panic at " ++ site)
        | _ => l2 label "model Server.new failed"
    | _, _ => bad "srv: unparsable datagram lists"
  | _ => bad "srv: arity"

end Rough.Driver

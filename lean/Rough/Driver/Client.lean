import Rough.Driver.Server
import Rough.Model.Client
/-
  Driver ops for the client rig (C01, C03):
    `respond`  — the Lean reference responder (honest or deliberately dishonest), returns bytes
    `client`   — verdict on one run of the real roughenough-client binary
-/
namespace Rough.Driver
open Rough.Spec Rough.Spec.RT

def protoOfStr (s : String) : Proto := if s = "I" then .draft13 else .classic

def natLe (n k : Nat) : Bytes := (List.range k).map fun i => UInt8.ofNat (n / 256 ^ i % 256)

/-- synthetic leaf for the other positions of a batch -/
def synthLeaf (wire : Proto) (salt : Bytes) (j : Nat) : Bytes :=
  let h := Sha512.hash (salt ++ natLe j 4)
  match wire with
  | .classic => h
  | .draft13 => (List.replicate 16 h).flatten

def nonceOfRequest (wire : Proto) (req : Bytes) : Bytes :=
  let body := match wire with | .classic => some req | .draft13 => if req.length ≥ 12 then some (req.drop 12) else none
  ((body.bind decode).bind (·.get Tag.NONC)).getD []

/-- `respond wire dctx sctx ltSeed onlSeed midp radi mint maxt n mine at request salt` → hex of the response -/
def opRespond (args : List String) : Verdict :=
  match args with
  | [w, dc, sc, lt, on, midp, radi, mint, maxt, n, mine, at_, req, salt] =>
    match unhex lt, unhex on, unhex req, unhex salt with
    | some ltSeed, some onlSeed, some request, some saltB =>
      let wire := protoOfStr w
      let n := n.toNat!
      let mine := mine.toNat!
      let at_ := at_.toNat!
      let nonce := nonceOfRequest wire request
      let myLeaf := match wire with | .classic => nonce | .draft13 => request
      let leaves := (List.range n).map fun j => if j = mine then myLeaf else synthLeaf wire saltB j
      let echo := if at_ = mine then nonce else
        match wire with | .classic => synthLeaf wire saltB at_ | .draft13 => (synthLeaf wire saltB at_).take 32
      let r := respondWith realScheme Sha512.hash wire (protoOfStr dc) (protoOfStr sc) ltSeed onlSeed
        midp.toNat! radi.toNat! mint.toNat! maxt.toNat! leaves at_ echo
      ok "respond" (hexOf r)
    | _, _, _, _ => bad "respond: hex"
  | _ => bad "respond: arity"

def splitList (s : String) : List String := if s = "~" ∨ s = "" then [] else s.splitOn ","

/-- `client ver keyopt kind reqs resps`  impl: `exit=N out=t1|t2 ver=Yes|No idx=i|j`
    kind: `honest` (C03 expectations apply) or a forgery name (C01 expectations apply) -/
def opClient (args : List String) (impl : String) : Verdict :=
  match args with
  | [v, keyopt, kind, reqsS, respsS] =>
    let ver : Version := if v = "I" then .ietf else .google
    let p : Proto := protoOfStr v
    let pk? : Option Bytes := if keyopt = "none" then none else
      match keyopt.splitOn ":" with
      | [_, h] => unhex h
      | _ => none
    match (splitList reqsS).mapM unhex, (splitList respsS).mapM unhex with
    | some reqs, some resps =>
      let imp := parseKvs impl " "
      let exit := (kvLookup imp "exit").toNat!
      let outs := let s := kvLookup imp "out"; if s = "-" ∨ s = "" then [] else s.splitOn "|"
      let vers := let s := kvLookup imp "ver"; if s = "-" ∨ s = "" then [] else s.splitOn "|"
      let idxs := let s := kvLookup imp "idx"; if s = "-" ∨ s = "" then [] else s.splitOn "|"
      let pairs := reqs.zip resps
      -- model: sequential processing, stop at the first panic
      let modelOuts : List Client.Outcome × Bool :=
        let r := Client.runAll realScheme Sha512.hash ver pk? (pairs.map fun x => (nonceOfRequest p x.1, x.1, x.2))
        (r.1, !r.2)
      let fmtTime (o : Client.Outcome) : String :=
        let (s, n) := Client.printedTime ver o.midpoint
        let ns := toString n
        toString s ++ "." ++ String.ofList (List.replicate (9 - ns.length) '0') ++ ns
      let modelExit : Nat := if modelOuts.2 then 101 else 0
      let modelStr := "exit=" ++ toString modelExit ++ " out=" ++ (if modelOuts.1.isEmpty then "-" else "|".intercalate (modelOuts.1.map fmtTime)) ++
        " ver=" ++ (if modelOuts.1.isEmpty then "-" else "|".intercalate (modelOuts.1.map fun o => if o.verified then "Yes" else "No")) ++
        " idx=" ++ (if modelOuts.1.isEmpty then "-" else "|".intercalate (modelOuts.1.map fun o => toString o.index))
      -- far-future midpoints: chrono's range check is not modelled
      let farFuture := modelOuts.1.any fun o => (Client.printedTime ver o.midpoint).1 > 8000000000000
      let label := "client:" ++ v ++ ":" ++ (keyopt.splitOn ":").headD "none" ++ ":" ++ kind ++ ":" ++ (if exit = 0 then "accepted" else "rejected")
      -- L1 for C01 (pinned key): every printed time must belong to an authentic response
      let auth : List (Option (Nat × Nat)) := match pk? with
        | some pk => pairs.map fun x => authentic realScheme Sha512.hash p pk x.1 (nonceOfRequest p x.1) x.2
        | none => []
      let nonces := reqs.map (nonceOfRequest p)
      let fresh : Option String :=
        if ¬ nonces.Nodup then some "C01: two requests of one run carry the same nonce (a response to the earlier one is valid for the later one)"
        else if nonces.any (fun n => n.length ≠ (if ver = .ietf then 32 else 64)) then some "C01,C03: request nonce does not have the protocol's length"
        else none
      let c01 : Option String :=
        match fresh, pk? with
        | some e, _ => some e
        | none, none => none
        | none, some _ =>
          let printed := outs.length
          if printed > pairs.length then some "C01: more times printed than responses" else
          let bad := (List.range printed).find? fun j => (auth.getD j none).isNone
          match bad with
          | some j => some ("C01: time printed (verified=" ++ vers.getD j "?" ++ ") for response #" ++ toString j ++ " which is NOT authentic under the pinned key")
          | none =>
            if exit = 0 ∧ auth.any (·.isNone) then some "C01: exit status 0 although a response is not authentic under the pinned key"
            else if (List.range printed).any (fun j => vers.getD j "" ≠ "Yes") then some "C01,C03: key supplied but verified is not Yes"
            else
              let wrongTime := (List.range printed).find? fun j =>
                match auth.getD j none with
                | some (midp, _) => outs.getD j "" ≠ fmtTime ⟨midp, 0, true, 0⟩ ∧ midp / (if ver = .google then 1000000 else 1) ≤ 8000000000000
                | none => false
              match wrongTime with
              | some j => some ("C01,C03: printed time " ++ outs.getD j "" ++ " is not the signed midpoint")
              | none => none
      -- L1 for C03 (honest responder): must be accepted, verified iff key, all times printed
      let c03 : Option String :=
        if kind ≠ "honest" then none
        else if exit ≠ 0 then some "C03: honest response rejected (non-zero exit)"
        else if outs.length ≠ pairs.length then some "C03: not every honest response produced a time line"
        else if vers.any (fun x => x ≠ (if pk?.isSome then "Yes" else "No")) then some "C03: verified flag is not 'key supplied'"
        else
          -- printed time = signed midpoint (read from the response by the spec decoder)
          let wrong := (List.range pairs.length).find? fun j =>
            let resp := (pairs.getD j ([], [])).2
            let body := match p with | .classic => some resp | .draft13 => some (resp.drop 12)
            match (((body.bind decode).bind (·.get Tag.SREP)).bind decode).bind (·.get Tag.MIDP) with
            | some mb => outs.getD j "" ≠ fmtTime ⟨u64le mb, 0, true, 0⟩
            | none => true
          match wrong with
          | some j => some ("C03: printed time " ++ outs.getD j "" ++ " is not the signed midpoint converted from the protocol's unit")
          | none => none
      -- the requests themselves: the model's make_request with the observed nonce must give the observed bytes
      let reqDiff : Option String := reqs.findSome? fun q =>
        match Client.makeRequest Sha512.hash ver (nonceOfRequest p q) pk? with
        | .ok mq => if mq = q then none else some "request bytes differ from the model's make_request for the same nonce and key"
        | _ => some "model make_request fails"
      match c01, c03 with
      | some e, _ => l1 label e
      | none, some e => l1 label e
      | none, none =>
        if reqDiff.isSome then l2 label (reqDiff.getD "") else
        let implStr := "exit=" ++ toString exit ++ " out=" ++ (if outs.isEmpty then "-" else "|".intercalate outs) ++
          " ver=" ++ (if vers.isEmpty then "-" else "|".intercalate vers) ++ " idx=" ++ (if idxs.isEmpty then "-" else "|".intercalate idxs)
        if implStr = modelStr then ok label
        else if farFuture then ok (label ++ ":chrono-range")
        else l2 label ("model: " ++ modelStr ++ " impl: " ++ implStr)
    | _, _ => bad "client: hex"
  | _ => bad "client: arity"

/-- `noncepool <stream>`  impl: `total=N distinct=M` — nonces of all requests seen by a harness stream -/
def opNoncePool (args : List String) (impl : String) : Verdict :=
  match args with
  | [stream] =>
    let imp := parseKvs impl " "
    if kvLookup imp "total" ≠ kvLookup imp "distinct" then
      l1 ("noncepool:" ++ stream) ("C01: only " ++ kvLookup imp "distinct" ++ " distinct nonces in " ++ kvLookup imp "total" ++ " requests across runs")
    else ok ("noncepool:" ++ stream) ("total=" ++ kvLookup imp "total")
  | _ => bad "noncepool: arity"

end Rough.Driver

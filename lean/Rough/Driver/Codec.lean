import Rough.Driver.Common
import Rough.Spec.Codec
namespace Rough.Driver

/-- header length of an encoded message with n fields -/
def headerLen (n : Nat) : Nat := if n = 0 then 4 else 8 * n

/-- `dec <hex>`  impl: `ok <fields> <reenc-hex>` | `err` | `panic` -/
def opDec (args : List String) (impl : String) : Verdict :=
  match args with
  | [hx] =>
    match unhex hx with
    | none => bad "dec: bad hex"
    | some b =>
      let model := fromBytes b
      let spec := Spec.decode b
      let modelStr := match model with
        | .ok m => "ok " ++ fieldsStr m ++ " " ++ hexOrDash (encode m)
        | .err => "err"
        | .panic _ => "panic"
      let n := if b.length ≥ 4 then rd32 b else 0
      let label := "dec:n=" ++ (if n > 19 then "big" else toString n) ++ ":" ++ (if model.isOk then "ok" else "err")
      -- L1: property oracle on the implementation's output
      let l1v : Option String :=
        if impl = "panic" then some "C06: from_bytes panicked"
        else if impl = "err" then
          (match spec with
           | some _ => some "C05: reference decoder accepts, implementation rejects"
           | none => none)
        else match impl.splitOn " " with
          | ["ok", fs, re] =>
            match parseFields fs, unhex re with
            | some fl, some reb =>
              (match spec with
               | none => some "C05: implementation accepts, reference decoder rejects"
               | some sm =>
                 -- every clause is judged on its own (a wrong content usually also breaks C06's payload clause)
                 let c5a := sm.fields ≠ fl
                 let c5b := ¬ fl.isEmpty ∧ reb ≠ b
                 let c6 := ¬ fl.isEmpty ∧ (fl.map (·.2)).flatten ≠ b.drop (headerLen fl.length)
                 let texts := (if c5a then ["content differs from reference decoder"] else []) ++
                   (if c5b then ["re-encoding differs from input"] else []) ++
                   (if c6 then ["values are not the input bytes after the header"] else [])
                 if texts.isEmpty then none
                 else some ((if (c5a ∨ c5b) ∧ c6 then "C05,C06: " else if c6 then "C06: " else "C05: ") ++ "; ".intercalate texts))
            | _, _ => some "C05,C06: unparsable impl output"
          | _ => some "C05,C06: unparsable impl output"
      match l1v with
      | some why => l1 label (why ++ (if impl = modelStr then "" else " ||L2: model=" ++ modelStr.take 80))
      | none => if impl = modelStr then ok label else l2 label ("model=" ++ modelStr)
  | _ => bad "dec: arity"

/-- `disp <hex> <fixed|unfixed>`  impl: `ok <hex of utf8>` | `panic` | `deerr` -/
def opDisp (args : List String) (impl : String) : Verdict :=
  match args with
  | [hx] =>
    match unhex hx with
    | none => bad "disp: bad hex"
    | some b =>
      match fromBytes b with
      | .ok m =>
        let d := display false m
        let modelStr := match d with
          | .ok s => "ok " ++ hexOrDash (strBytes s)
          | .err => "err"
          | .panic _ => "panic"
        let label := "disp:" ++ (if (display true m).isPanic then "nested-garbage" else "clean")
        if impl = "panic" then l1 label "C06: Display panicked on a successfully decoded message"
        else if impl = modelStr then ok label else l2 label ("model=" ++ modelStr.take 200)
      | _ =>
        if impl = "deerr" then ok "disp:deerr" else l2 "disp:deerr" "model rejects input at decode"
  | _ => bad "disp: arity"

/-- `enc <fields>`  (built through add_field in the given order)
    impl: `ok <enc-hex> <framed-hex> <size> <padlen>` | `err` -/
def opEnc (args : List String) (impl : String) : Verdict :=
  match args with
  | [fs] =>
    match parseFields fs with
    | none => bad "enc: bad fields"
    | some fl =>
      let built : Option Msg := fl.foldl (fun acc f => acc.bind fun m => m.addField f.1 f.2) (some Msg.empty)
      match built with
      | none =>
        if impl = "err" then ok "enc:unsorted" else l2 "enc:unsorted" "model: add_field fails"
      | some m =>
        let e := encode m
        let modelStr := "ok " ++ hexOrDash e ++ " " ++ hexOrDash (encodeFramed m) ++ " " ++
          toString (encodedSize m) ++ " " ++ toString (paddingLength m)
        let aligned := m.values.all (fun v => v.length % 4 == 0)
        let label := "enc:n=" ++ toString m.numFields ++ (if aligned then ":aligned" else ":unaligned")
        match impl.splitOn " " with
        | ["ok", eh, fh, _, _] =>
          match unhex eh, unhex fh with
          | some eb, some fb =>
            -- L1: round trip through the *reference* decoder, framing law
            let rt := if aligned then (Spec.decode eb == some m) else true
            if ¬ rt then l1 label "C05: reference decoder does not return the encoded message"
            else if fb ≠ framing ++ le32 eb.length ++ eb then l1 label "C05: framing is not magic+len+payload"
            else if impl = modelStr then ok label else l2 label ("model=" ++ modelStr.take 300)
          | _, _ => bad "enc: impl hex"
        | _ => if impl = "err" then l2 label "impl add_field/encode failed, model succeeds" else bad "enc: impl format"
  | _ => bad "enc: arity"

/-- `enci <fields>`: every field is offered to `add_field`; refused ones (out of order / duplicate) are skipped by the
    caller; then the message is encoded.  impl: `ok <enc> <framed> <size> <pad> rejected=<k>` -/
def opEncIgnoring (args : List String) (impl : String) : Verdict :=
  match args with
  | [fs] =>
    match parseFields fs with
    | none => bad "enci: bad fields"
    | some fl =>
      let m : Msg := fl.foldl (fun m f => (m.addField f.1 f.2).getD m) Msg.empty
      let modelStr := "ok " ++ hexOrDash (encode m) ++ " " ++ hexOrDash (encodeFramed m) ++ " " ++
        toString (encodedSize m) ++ " " ++ toString (paddingLength m)
      let aligned := m.values.all (fun v => v.length % 4 == 0)
      let label := "enci:n=" ++ toString m.numFields ++ (if aligned then ":aligned" else ":unaligned")
      match impl.splitOn " " with
      | ["ok", eh, fh, sz, pd, _] =>
        match unhex eh, unhex fh with
        | some eb, some fb =>
          let rt := if aligned then (Spec.decode eb == some m) else true
          if ¬ rt then l1 label "C05: after a refused add_field the encoding does not decode (reference decoder) to the fields that were accepted"
          else if fb ≠ framing ++ le32 eb.length ++ eb then l1 label "C05: framing is not magic+len+payload"
          else if "ok " ++ eh ++ " " ++ fh ++ " " ++ sz ++ " " ++ pd = modelStr then ok label else l2 label ("model=" ++ modelStr.take 300)
        | _, _ => bad "enci: impl hex"
      | _ => if impl = "err" then l2 label "impl encode failed, model succeeds" else if impl = "panic" then l1 label "C05,C06: encode panicked after a refused add_field" else bad "enci: impl format"
  | _ => bad "enci: arity"

end Rough.Driver

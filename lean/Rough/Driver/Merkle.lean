import Rough.Driver.Common
import Rough.Crypto.Sha512
import Rough.Spec.MerkleTree
namespace Rough.Driver
open Rough.Merkle Rough.Spec

def cfgOf (ietf : Bool) : MerkleCfg :=
  if ietf then ⟨fun x => (Sha512.hash x).take 32, 32⟩ else ⟨Sha512.hash, 64⟩

structure MState where
  tree : Tree
  /-- leaves pushed since the last reset, if the tree has been used as the property describes
      (reset/fresh, pushes, one compute_root); `none` once the sequence leaves that discipline -/
  leaves : Option (List Bytes)
  rooted : Bool
  outs : List String      -- model outputs, reversed
  l1 : Option String
  stop : Bool
  /-- memo of the abstract tree's root and paths for the current batch (spec side only) -/
  specRoot : Option Bytes := none
  specPaths : List (Nat × Bytes) := []
  nodup : Bool := true
  /-- what the implementation itself returned for this batch (L1 is judged on these only) -/
  implRoot : Option String := none
  implPaths : List (Nat × String) := []
  /-- disagreement between implementation and the abstract tree (reported as L2) -/
  specDiff : Option String := none

/-- `merkle <G|I> <op;op;...>`   ops: reset | push <hex> | root | paths <i> | verify <i> <data> <path>
    impl: `;`-joined outputs `root=<hex>|paths=<hex>|verify=<hex>` or `..=panic`; a panicking `root`
    ends the sequence. -/
def opMerkle (args : List String) (impl : String) : Verdict :=
  match args with
  | [v, opsStr] =>
    let ietf := v == "I"
    let c := cfgOf ietf
    let implOuts := if impl = "-" then [] else impl.splitOn ";"
    let step (st : MState × List String) (op : String) : MState × List String :=
      let (s, io) := st
      if s.stop then st else
      match op.splitOn " " with
      | ["reset"] => ({ s with tree := reset s.tree, leaves := some [], rooted := false, specRoot := none, specPaths := [], nodup := true, implRoot := none, implPaths := [] }, io)
      | ["push", hx] =>
        let d := (unhex hx).getD []
        if io.headD "" = "push=panic" ∧ (pushLeaf c s.tree d).isOk then
          ({ s with stop := true, outs := "push=panic" :: s.outs,
                    l1 := some ("push_leaf panicked on a leaf of " ++ toString d.length ++ " bytes (the tree must take arbitrary leaf bytes)") }, io.drop 1)
        else
        match pushLeaf c s.tree d with
        | .ok t => ({ s with tree := t, leaves := if s.rooted then none else s.leaves.map (· ++ [d]),
                              nodup := s.nodup && !((s.leaves.getD []).contains d) }, io)
        | _ => ({ s with stop := true, outs := "push=panic" :: s.outs }, io)
      | ["root"] =>
        let implOut := io.headD "?"
        let io := io.drop 1
        match computeRoot c ietf s.tree with
        | .ok (t, r) =>
          let out := "root=" ++ hexOf r
          -- L1: the root is the hash of the abstract tree of the batch
          let want : Option Bytes := match s.leaves, s.rooted with
            | some ls, false => if ls.isEmpty then none else some (MT.T.hash c (MT.treeOf ls))
            | _, _ => none
          let sd := match s.specDiff, want with
            | some e, _ => some e
            | none, some w =>
              if implOut ≠ "root=" ++ hexOf w then some ("root of the batch is not the hash of the abstract tree") else none
            | none, none => none
          let l1r := match s.l1, want with
            | some e, _ => some e
            | none, some _ => if implOut = "root=panic" then some "compute_root panicked on a non-empty batch" else none
            | none, none => none
          ({ s with tree := t, rooted := true, leaves := if s.rooted then none else s.leaves, outs := out :: s.outs, specDiff := sd, l1 := l1r,
                    specRoot := want, specPaths := [], implRoot := some (implOut.drop 5).toString, implPaths := [] }, io)
        | _ => ({ s with stop := true, outs := "root=panic" :: s.outs }, io)
      | ["paths", i] =>
        let implOut := io.headD "?"
        let io := io.drop 1
        let i := i.toNat!
        let out := match getPaths s.tree i with
          | .ok p => "paths=" ++ hexOrDash p
          | _ => "paths=panic"
        let want : Option Bytes := match s.leaves, s.rooted with
          | some ls, true => if i < ls.length then
              (match s.specPaths.lookup i with
               | some w => some w
               | none => some (MT.pathOf c ls i).flatten) else none
          | _, _ => none
        let sd := match s.specDiff, want with
          | some e, _ => some e
          | none, some w =>
            if implOut ≠ "paths=" ++ hexOrDash w then some ("path for position " ++ toString i ++ " is not the sibling list of the abstract tree")
            else none
          | none, none => none
        let memo := match want with
          | some w => if (s.specPaths.lookup i).isSome then s.specPaths else (i, w) :: s.specPaths.take 3
          | none => s.specPaths
        -- L1 (totality/completeness): a path must be issued for every position of a rooted non-empty batch
        let l1 := match s.l1, want with
          | some e, _ => some e
          | none, some _ => if implOut = "paths=panic" then
              some ("get_paths panicked for in-range position " ++ toString i ++ " of a signed batch") else none
          | none, none => none
        ({ s with outs := out :: s.outs, specDiff := sd, specPaths := memo, l1 := l1,
                  implPaths := (i, (implOut.drop 6).toString) :: s.implPaths.take 3 }, io)
      | ["verify", i, dh, ph] =>
        let implOut := io.headD "?"
        let io := io.drop 1
        let i := i.toNat!
        let d := (unhex dh).getD []
        let p := (unhex ph).getD []
        let out := match rootFromPaths c ietf i d p with
          | .ok r => "verify=" ++ hexOf r
          | _ => "verify=panic"
        -- L1 (completeness and binding on this concrete call): with pairwise distinct leaves, the
        -- recomputed root equals the batch root iff (d, p) is the genuine leaf and path of position
        -- i mod 2^depth … checked only when the index is in range
        let l1 := match s.l1, s.leaves, s.rooted with
          | some e, _, _ => some e
          | none, some ls, true =>
            if ls.isEmpty ∨ i ≥ ls.length then none else
            match s.implRoot, s.implPaths.lookup i with
            | some ir, some ip =>
              let root := "verify=" ++ ir
              let genuine := (d == ls[i]!) && (hexOrDash p == ip)
              if genuine ∧ implOut ≠ root then some ("C04: the issued path for position " ++ toString i ++ " does not recompute the issued root")
              else if ¬ genuine ∧ s.nodup ∧ implOut = root then some ("C04: a wrong leaf/index/path recomputes the root at position " ++ toString i)
              else none
            | _, _ => none
          | none, _, _ => none
        ({ s with outs := out :: s.outs, l1 := l1 }, io)
      | ["isempty"] =>
        -- `is_empty()`: model output only (L2); the property does not speak about it
        let io := io.drop 1
        let out := match isEmpty s.tree with
          | .ok b => "isempty=" ++ (if b then "true" else "false")
          | _ => "isempty=panic"
        ({ s with outs := out :: s.outs }, io)
      | ["fresh"] =>
        -- the same batch on a fresh tree object: impl prints `fresh=<root>`; must equal the reused tree's root
        let implOut := io.headD "?"
        let io := io.drop 1
        let ls := s.leaves.getD []
        let freshTree := ls.foldl (fun (t : Res Tree) d => t.bind fun t => pushLeaf c t d) (.ok Merkle.new)
        let out := match freshTree.bind (computeRoot c ietf) with
          | .ok (_, r) => "fresh=" ++ hexOf r
          | _ => "fresh=panic"
        let l1 := match s.l1, s.implRoot, s.leaves with
          | some e, _, _ => some e
          | none, some ir, some _ => if implOut ≠ "fresh=" ++ ir then some "C04: reused tree gives a different root than a fresh tree" else none
          | none, _, _ => none
        ({ s with outs := out :: s.outs, l1 := l1 }, io)
      | ["freshpaths", i] =>
        let implOut := io.headD "?"
        let io := io.drop 1
        let i := i.toNat!
        let ls := s.leaves.getD []
        let freshTree := ls.foldl (fun (t : Res Tree) d => t.bind fun t => pushLeaf c t d) (.ok Merkle.new)
        let out := match (freshTree.bind (computeRoot c ietf)).bind (fun (t, _) => getPaths t i) with
          | .ok p => "freshpaths=" ++ hexOrDash p
          | _ => "freshpaths=panic"
        let l1 := match s.l1, s.implPaths.lookup i, s.leaves with
          | some e, _, _ => some e
          | none, some ip, some _ => if implOut ≠ "freshpaths=" ++ ip then some ("C04: reused tree gives a different path than a fresh tree at position " ++ toString i) else none
          | none, _, _ => none
        ({ s with outs := out :: s.outs, l1 := l1 }, io)
      | _ => ({ s with stop := true, outs := "bad-op" :: s.outs }, io)
    let init : MState := { tree := Merkle.new, leaves := some [], rooted := false, outs := [], l1 := none, stop := false }
    let (fin, _) := (opsStr.splitOn ";").foldl step (init, implOuts)
    let modelStr := if fin.outs.isEmpty then "-" else ";".intercalate fin.outs.reverse
    let nleaves := match fin.leaves with | some ls => toString ls.length | none => "misuse"
    let label := "merkle:" ++ v ++ ":n=" ++ nleaves
    match fin.l1, fin.specDiff with
    | some e, _ => l1 label e
    | none, some e => l2 label ("abstract tree: " ++ e)
    | none, none => if impl = modelStr then ok label else l2 label ("model=" ++ modelStr.take 400)
  | _ => bad "merkle: arity"

end Rough.Driver

import Rough.Driver.Server
import Rough.Crypto.AesGcm
import Rough.Model.Envelope
/- Driver ops for C14: `envenc`, `envdec`. Providers are described by a short descriptor the harness
   and the driver both interpret:
     xor:<L>:<key32 hex>     wrap(dek) = (dek xor key) ‖ zeros(L-32) (L ≥ 32); unwrap needs length L and an intact filler
     handle:<L>:<salt hex>   wrap(dek) = first L bytes of SHA-512(salt ‖ dek) (L in 16..64); unwrap looks the
                             handle up in the provider's table (here: the one recorded data key)
     id                      identity (the repository's own mock)
   plus a fault for the unwrap side: ok | err | wrongkey | key16 | key33, and for wrap: ok | err -/
namespace Rough.Driver
open Rough.Envelope

def aesAead : Aead := ⟨fun k n ad pt => AesGcm.seal k n ad pt, fun k n ad ct => AesGcm.open k n ad ct⟩

def xorBytes (a b : Bytes) : Bytes := (a.zip b).map fun p => p.1 ^^^ p.2

def mkKms (desc : String) (wrapFault unwrapFault : String) (recordedDek : Bytes) : Kms :=
  let parts := desc.splitOn ":"
  let base : Kms := match parts with
    | ["xor", l, kh] =>
      let key := (unhex kh).getD []
      let L := l.toNat!
      ⟨fun dek => some (xorBytes dek key ++ zeros (L - 32)), fun w => if w.length = L ∧ w.drop 32 = zeros (L - 32) then some (xorBytes (w.take 32) key) else none⟩
    | ["handle", l, sh] =>
      let salt := (unhex sh).getD []
      let L := l.toNat!
      let h (dek : Bytes) := (Sha512.hash (salt ++ dek)).take L
      ⟨fun dek => some (h dek), fun w => if w = h recordedDek then some recordedDek else none⟩
    | _ => ⟨fun dek => some dek, fun w => some w⟩
  { wrap := fun dek => if wrapFault = "err" then none else base.wrap dek,
    unwrap := fun w => match unwrapFault with
      | "err" => none
      | "wrongkey" => (base.unwrap w).map fun d => d.map (· ^^^ 0x5a)
      | "key16" => (base.unwrap w).map (·.take 16)
      | "key33" => (base.unwrap w).map (· ++ [0])
      | _ => base.unwrap w }

def containsSub (hay needle : Bytes) : Bool :=
  needle.length > 0 && (List.range (hay.length + 1 - needle.length)).any fun i => (hay.drop i).take needle.length == needle

/-- `envenc <provider> <wrapFault> <seed>`  impl: `blob=<hex> dek=<hex>` | `err` | `panic` -/
def opEnvEnc (args : List String) (impl : String) : Verdict :=
  match args with
  | [desc, wf, sh] =>
    let seed := (unhex sh).getD []
    let kind := (desc.splitOn ":").headD "id"
    let wl := ((desc.splitOn ":").getD 1 "32")
    let label := "envenc:" ++ kind ++ ":w=" ++ wl ++ ":" ++ wf
    if impl = "panic" then l1 label "C14: encrypt_seed panicked" else
    if impl = "err" then
      if wf = "err" then ok label else l1 label "C14: encrypt_seed failed with a working provider"
    else
      let imp := parseKvs impl " "
      match unhex (kvLookup imp "blob"), unhex (kvLookup imp "dek") with
      | some blob, some dek =>
        let K := mkKms desc wf "ok" dek
        -- L1: the blob decrypts (independent AES-GCM) to the seed with the same provider; layout; no leak
        match parse blob with
        | none => l1 label "C14: blob produced by encrypt_seed does not parse with the documented layout"
        | some (w, nonce, ct) =>
          if K.wrap dek ≠ some w then l1 label "C14: blob does not carry the provider's wrapped key"
          else if AesGcm.open dek nonce AD ct ≠ some seed then l1 label "C14: ciphertext does not open to the seed under the data key (AES-256-GCM, AD 'roughenough')"
          else if kind ≠ "id" ∧ containsSub blob dek then l1 label "C14: blob contains the unwrapped data key"
          else if containsSub blob seed then l1 label "C14: blob contains the seed"
          else if blob ≠ layout w nonce ct then l1 label "C14: blob is not exactly le16|le16|wrapped|nonce|ciphertext"
          else
            match encrypt K aesAead dek nonce seed with
            | .ok b => if b = blob then ok label else l2 label "model encrypt differs from the implementation's blob"
            | _ => l2 label "model encrypt fails"
      | _, _ => bad "envenc: impl"
  | _ => bad "envenc: arity"

/-- `envdec <provider> <unwrapFault> <dek> <seed> <origBlob> <kind> <blob>`  impl: `ok <hex>` | `err` | `panic` -/
def opEnvDec (args : List String) (impl : String) : Verdict :=
  match args with
  | [desc, uf, dh, sh, oh, kind, bh] =>
    match unhex dh, unhex sh, unhex oh, unhex bh with
    | some dek, some seed, some orig, some blob =>
      let K := mkKms desc "ok" uf dek
      let pk := (desc.splitOn ":").headD "id"
      let label := "envdec:" ++ pk ++ ":" ++ uf ++ ":" ++ kind
      let model := match decrypt K aesAead blob with
        | .ok p => "ok " ++ hexOrDash p
        | _ => "err"
      if impl = "panic" then l1 label "C14: decrypt_seed panicked"
      else if blob = orig ∧ uf = "ok" then
        if impl = "ok " ++ hexOrDash seed then (if impl = model then ok label else l2 label ("model=" ++ model))
        else l1 label "C14: decrypting the unmodified blob with the same provider does not return the seed"
      else if impl ≠ "err" then l1 label ("C14: a modified blob / faulty provider yields " ++ impl.take 40 ++ " instead of an error")
      else if impl = model then ok label else l2 label ("model=" ++ model)
    | _, _, _, _ => bad "envdec: hex"
  | _ => bad "envdec: arity"

end Rough.Driver

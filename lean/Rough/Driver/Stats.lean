import Rough.Driver.Server
import Rough.Model.Stats
/- Driver ops for C17: `stats` (one recorder, one history) and `rep` (snapshot merging). -/
namespace Rough.Driver
open Rough.Stats

inductive SOp where
  | ev (e : Event)
  | clear
  | snap

def kindOfLetter : String → Option Kind
  | "i" => some .ietfReq | "c" => some .classicReq | "x" => some .invalidReq | "f" => some .failedSend
  | "t" => some .retriedSend | "h" => some .healthCheck | "r" => some .rfcResp | "k" => some .classicResp
  | _ => none

def parseSOp (s : String) : Option SOp :=
  match s.splitOn " " with
  | ["clear"] => some .clear
  | ["snap"] => some .snap
  | [k, a] => (kindOfLetter k).map fun kd => .ev ⟨kd, a.toNat!, 0⟩
  | [k, a, b] => (kindOfLetter k).map fun kd => .ev ⟨kd, a.toNat!, b.toNat!⟩
  | _ => none

def cstr (a : Addr) (c : Counters) : String :=
  toString a ++ ":" ++ ",".intercalate ([c.rfcRequests, c.classicRequests, c.invalidRequests, c.healthChecks,
    c.rfcResponses, c.classicResponses, c.bytesSent, c.failedSends, c.retriedSends].map toString)

def sortClients (l : List (Addr × Counters)) : List (Addr × Counters) :=
  (l.toArray.qsort (fun x y => x.1 < y.1)).toList

def perStr (l : List (Addr × Counters)) : String :=
  if l.isEmpty then "-" else ";".intercalate ((sortClients l).map fun p => cstr p.1 p.2)

def totStr (t : Totals) (uniq : Nat) : String :=
  ",".intercalate ([t.validRequests, t.rfcRequests, t.classicRequests, t.invalidRequests, t.healthChecks, t.failedSends,
    t.retriedSends, t.responses, t.rfcResponses, t.classicResponses, t.bytesSent, uniq].map toString)

/-- the part of the history since the last `clear` (what the getters may reflect) -/
def sinceClear (ops : List SOp) : List Event :=
  ops.foldl (fun acc o => match o with | .ev e => acc ++ [e] | .clear => [] | .snap => acc) []

/-- `stats <per|agg> <limit> <ops>`  impl: `tot=… per=… ovf=n` -/
def opStats (args : List String) (impl : String) : Verdict :=
  match args with
  | [kind, limS, opsS] =>
    let ops? : Option (List SOp) := if opsS = "-" then some [] else (opsS.splitOn ";").mapM parseSOp
    match ops? with
    | none => bad "stats: ops"
    | some ops =>
      let limit := limS.toNat!
      let per := kind == "per"
      let imp := parseKvs impl " "
      let h := sinceClear ops
      let label := "stats:" ++ kind ++ ":len=" ++ (if ops.length = 0 then "0" else if ops.length ≤ 4 then "small" else "long") ++
        (if per then ":lim=" ++ (if limit ≤ 3 then toString limit else "big") else "")
      if impl = "panic" ∨ impl.startsWith "inconsistent" then l1 label "C17: recorder panicked or its getters disagree with each other" else
      -- model
      let modelStr :=
        if per then
          let s := ops.foldl (fun (s : PerClient) o => match o with | .ev e => s.record e | .clear => s.clear | .snap => s) (PerClient.init limit)
          "tot=" ++ totStr s.totals s.clients.length ++ " per=" ++ perStr s.clients ++ " ovf=" ++ toString s.overflows
        else
          let s := ops.foldl (fun (s : Aggregated) o => match o with | .ev e => s.record e | .clear => s.clear | .snap => s) Aggregated.init
          "tot=" ++ totStr s.totals 0 ++ " per=- ovf=0"
      -- L1 on the implementation's own numbers (spec = counting function over the history since clear)
      let totL := ((kvLookup imp "tot").splitOn ",").map String.toNat!
      let ovf := (kvLookup imp "ovf").toNat!
      let tot (i : Nat) := totL.getD i 0
      let perS := kvLookup imp "per"
      let perL : List (Nat × List Nat) := if perS = "-" then [] else (perS.splitOn ";").map fun x =>
        match x.splitOn ":" with
        | [a, cs] => (a.toNat!, (cs.splitOn ",").map String.toNat!)
        | _ => (999, [])
      let kinds : List (Kind × Nat) := [(.ietfReq, 0), (.classicReq, 1), (.invalidReq, 2), (.healthCheck, 3), (.rfcResp, 4), (.classicResp, 5), (.failedSend, 7), (.retriedSend, 8)]
      let l1v : Option String :=
        if per then
          let sumAll := (perL.map fun p => (kinds.map fun kk => p.2.getD kk.2 0).sum).sum
          if perL.length > limit then some "C17: more tracked addresses than the limit"
          else if (perL.map (·.1)).eraseDups.length ≠ perL.length then some "C17: an address is tracked twice"
          else if sumAll + ovf ≠ h.length then some ("C17: counters (" ++ toString sumAll ++ ") + overflows (" ++ toString ovf ++ ") ≠ events recorded (" ++ toString h.length ++ ")")
          else if perL.any (fun p => kinds.any fun kk => p.2.getD kk.2 0 > count h p.1 kk.1) then some "C17: a counter exceeds the number of events of its kind for its address"
          else if tot 11 ≠ perL.length then some "C17: unique-client count differs from the tracked addresses"
          else if ovf = 0 ∧ (tot 0 ≠ (h.filter fun e => e.kind = .ietfReq ∨ e.kind = .classicReq).length ∨
                             tot 3 ≠ (h.filter fun e => e.kind = .invalidReq).length ∨
                             tot 7 ≠ (h.filter fun e => e.kind = .rfcResp ∨ e.kind = .classicResp).length ∨
                             tot 10 ≠ ((h.filter fun e => e.kind = .rfcResp ∨ e.kind = .classicResp).map (·.bytes)).sum) then
            some "C17: without overflow the per-client totals differ from the aggregated counts of the history"
          else none
        else
          if tot 0 ≠ (h.filter fun e => e.kind = .ietfReq ∨ e.kind = .classicReq).length ∨
             tot 1 ≠ (h.filter fun e => e.kind = .ietfReq).length ∨ tot 2 ≠ (h.filter fun e => e.kind = .classicReq).length ∨
             tot 3 ≠ (h.filter fun e => e.kind = .invalidReq).length ∨ tot 4 ≠ (h.filter fun e => e.kind = .healthCheck).length ∨
             tot 5 ≠ (h.filter fun e => e.kind = .failedSend).length ∨ tot 6 ≠ (h.filter fun e => e.kind = .retriedSend).length ∨
             tot 7 ≠ (h.filter fun e => e.kind = .rfcResp ∨ e.kind = .classicResp).length ∨
             tot 8 ≠ (h.filter fun e => e.kind = .rfcResp).length ∨ tot 9 ≠ (h.filter fun e => e.kind = .classicResp).length ∨
             tot 10 ≠ ((h.filter fun e => e.kind = .rfcResp ∨ e.kind = .classicResp).map (·.bytes)).sum then
            some "C17: aggregated totals differ from the counts of the history"
          else none
      match l1v with
      | some e => l1 label e
      | none => if impl = modelStr then ok label else l2 label ("model=" ++ modelStr.take 300)
  | _ => bad "stats: arity"

/-- `rep <nworkers> <limit> <w:op;…>`  impl: merged per-address counters -/
def opRep (args : List String) (impl : String) : Verdict :=
  match args with
  | [nwS, limS, opsS] =>
    let ops? : Option (List (Nat × SOp)) := (opsS.splitOn ";").mapM fun x =>
      match x.splitOn ":" with
      | [w, o] => (parseSOp o).map fun so => (w.toNat!, so)
      | _ => none
    match ops? with
    | none => bad "rep: ops"
    | some ops =>
      let nw := nwS.toNat!
      let limit := limS.toNat!
      -- model: per-worker recorders; `snap` = push snapshot (if non-empty) and clear
      let init : List PerClient × List (List (Addr × Counters)) := (List.replicate nw (PerClient.init limit), [])
      let step (st : List PerClient × List (List (Addr × Counters))) (x : Nat × SOp) :=
        let (ws, q) := st
        let w := ws.getD x.1 (PerClient.init limit)
        match x.2 with
        | .ev e => (ws.set x.1 (w.record e), q)
        | .clear => (ws.set x.1 w.clear, q)
        | .snap => if w.clients.isEmpty then (ws, q) else (ws.set x.1 w.clear, q ++ [w.clients])
      let (ws, q) := ops.foldl step init
      let q := q ++ (ws.filter fun w => !w.clients.isEmpty).map (·.clients)
      let merged := reporterReceive [] q
      let modelStr := perStr merged
      -- L1: merging preserves every per-address sum of the snapshots; the snapshots themselves hold
      -- what was recorded minus overflows, so when no worker overflowed the merged counters equal the
      -- plain per-address counts of the whole history
      let anyOverflow := limit < 4
      let events := ops.filterMap fun x => match x.2 with | .ev e => some e | _ => none
      let kinds : List (Kind × Nat) := [(.ietfReq, 0), (.classicReq, 1), (.invalidReq, 2), (.healthCheck, 3), (.rfcResp, 4), (.classicResp, 5), (.failedSend, 7), (.retriedSend, 8)]
      let perL : List (Nat × List Nat) := if impl = "-" then [] else (impl.splitOn ";").map fun x =>
        match x.splitOn ":" with
        | [a, cs] => (a.toNat!, (cs.splitOn ",").map String.toNat!)
        | _ => (999, [])
      let label := "rep:w=" ++ nwS ++ (if anyOverflow then ":smalllimit" else ":nolimit")
      let l1v : Option String :=
        if impl = "panic" then some "C17: reporter panicked"
        else if anyOverflow then none
        else
          let addrs := (events.map (·.addr)).eraseDups
          if addrs.any (fun a => kinds.any fun kk =>
              ((perL.lookup a).map (·.getD kk.2 0)).getD 0 ≠ count events a kk.1) then
            some "C17: merged per-address counters differ from the per-address sums of the recorded events"
          else if addrs.any (fun a => ((perL.lookup a).map (·.getD 6 0)).getD 0 ≠
              ((events.filter fun e => e.addr = a ∧ (e.kind = .rfcResp ∨ e.kind = .classicResp)).map (·.bytes)).sum) then
            some "C17: merged byte counts differ from the bytes recorded"
          else none
      match l1v with
      | some e => l1 label e
      | none => if impl = modelStr then ok label else l2 label ("model=" ++ modelStr.take 300)
  | _ => bad "rep: arity"

end Rough.Driver

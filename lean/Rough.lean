import Rough.Basic.Bytes
import Rough.Model.Tag
import Rough.Model.Codec
import Rough.Spec.Codec

#!/usr/bin/env python3
"""
Generic one-line mutants of /repo's source (the code the properties are anchored in).

  gen.py [--repo /repo] [--max-per-file N] [--seed S]  > mutants.jsonl

One JSON object per line: {id, file, line, op, before, after, checks}. Only code before the first
`#[cfg(test)]` of a file is mutated; comment lines, log/format text and attribute lines are skipped.
`checks` is the list of properties whose quick check is expected to be sensitive to that file.
This is a *measurement* tool for the machinery (how many test-surviving changes do the checks notice);
it decides no property.
"""
import re, sys, json, os, random, hashlib

FILES = {
    "src/message.rs": ["C05", "C06", "C08", "C02"],
    "src/tag.rs": ["C05", "C06", "C02"],
    "src/merkle.rs": ["C04", "C02", "C03"],
    "src/sign.rs": ["C13", "C10", "C01"],
    "src/request.rs": ["C07", "C12", "C08"],
    "src/responder.rs": ["C09", "C02", "C08", "C17", "C11", "C07"],
    "src/server.rs": ["C09", "C08", "C07", "C17", "C15", "C19", "C18", "C10"],
    "src/key/online.rs": ["C11", "C10", "C12", "C02"],
    "src/key/longterm.rs": ["C10", "C20", "C02"],
    "src/version.rs": ["C02", "C12", "C10", "C01"],
    "src/grease.rs": ["C02", "C08"],
    "src/config/file.rs": ["C16", "C15"],
    "src/config/environment.rs": ["C16", "C15"],
    "src/config/mod.rs": ["C16", "C15"],
    "src/config/memory.rs": ["C16", "C15", "C09"],
    "src/kms/envelope.rs": ["C14"],
    "src/kms/mod.rs": ["C14", "C16", "C15"],
    "src/key/mod.rs": ["C16", "C15"],
    "src/stats/mod.rs": ["C17"],
    "src/stats/per_client.rs": ["C17"],
    "src/stats/aggregated.rs": ["C17"],
    "src/stats/reporter.rs": ["C17", "C19"],
    "src/bin/roughenough-client.rs": ["C01", "C03"],
    "src/bin/roughenough-server.rs": ["C15", "C19", "C18", "C20", "C16"],
    "src/lib.rs": ["C07", "C02", "C05", "C10", "C04"],
}

SKIP_LINE = re.compile(r"^\s*(//|#\[|#!\[|use |pub use |mod |pub mod |extern )|\b(info|warn|debug|trace|error|println|eprintln|panic|write|writeln|format|unreachable|assert|assert_eq|debug_assert)!\s*\(")

REL = [("<=", "<"), (">=", ">"), ("==", "!="), ("!=", "=="), ("<", "<="), (">", ">="), ("&&", "||"), ("||", "&&")]
ARITH = [("+", "-"), ("-", "+"), ("*", "/"), ("+=", "-="), ("-=", "+=")]


def strip_strings(line):
    """mask string and char literals so operators inside them are not mutated"""
    out, i, n = [], 0, len(line)
    while i < n:
        c = line[i]
        if c == '"':
            j = i + 1
            while j < n and line[j] != '"':
                j += 2 if line[j] == "\\" else 1
            out.append('"' + "\0" * (min(j, n - 1) - i - 1) + '"')
            i = j + 1
        elif c == "/" and line[i:i + 2] == "//":
            out.append("\0" * (n - i))
            break
        else:
            out.append(c)
            i += 1
    return "".join(out)[:n].ljust(n, "\0")


def mutants_of_line(line):
    """yield (op, new_line)"""
    masked = strip_strings(line)
    # relational / logical operators (token-wise, spaces around as rustfmt writes them)
    for a, b in REL:
        for m in re.finditer(r"(?<=\s)" + re.escape(a) + r"(?=\s)", masked):
            if a in ("<", ">") and ("->" in masked[max(0, m.start() - 2):m.end()] or "=>" in masked[max(0, m.start() - 2):m.end() + 1]):
                continue
            yield f"{a}→{b}", line[:m.start()] + b + line[m.end():]
    for a, b in ARITH:
        for m in re.finditer(r"(?<=\s)" + re.escape(a) + r"(?=\s)", masked):
            yield f"{a}→{b}", line[:m.start()] + b + line[m.end():]
    # integer literals (not in type positions like u8, [u8; 32] is a literal too — allowed: it changes sizes)
    for m in re.finditer(r"(?<![\w.])(\d+)(?:_?(?:u8|u16|u32|u64|usize|i64|i32))?(?![\w.])", masked):
        v = int(m.group(1))
        for nv in ([v + 1] + ([v - 1] if v > 0 else [])):
            yield f"{v}→{nv}", line[:m.start(1)] + str(nv) + line[m.end(1):]
    for a, b in (("true", "false"), ("false", "true")):
        for m in re.finditer(r"\b" + a + r"\b", masked):
            yield f"{a}→{b}", line[:m.start()] + b + line[m.end():]
    # negation removal
    for m in re.finditer(r"!(?=[\w(])(?!=)", masked):
        if m.start() > 0 and (masked[m.start() - 1].isalnum() or masked[m.start() - 1] == "_"):
            continue  # macro call
        yield "drop !", line[:m.start()] + line[m.end():]
    # statement deletion: a whole-line method call / assignment statement
    s = masked.strip()
    if s.endswith(";") and re.match(r"^(self\.|[a-z_][\w.]*\.)[\w.]+\(.*\);$", s) and "let " not in s and "return" not in s:
        yield "delete stmt", line[:len(line) - len(line.lstrip())] + "// mutant: deleted"
    # off-by-one in ranges / slices
    for m in re.finditer(r"\.\.=", masked):
        yield "..=→..", line[:m.start()] + ".." + line[m.end():]
    # early continue/break/return swaps
    for a, b in (("continue;", "break;"), ("break;", "continue;")):
        for m in re.finditer(re.escape(a), masked):
            yield f"{a}→{b}", line[:m.start()] + b + line[m.end():]
    # method twins
    for a, b in (("saturating_sub", "wrapping_sub"), (".min(", ".max("), (".max(", ".min("), ("is_some()", "is_none()"),
                 ("is_none()", "is_some()"), ("is_empty()", "len() == 1"), ("to_le_bytes", "to_be_bytes"),
                 ("first()", "last()"), ("Ok(true)", "Ok(false)"), ("swap_remove", "remove"), ("|=", "&="), ("^=", "|="),
                 ("force_push", "push"), ("is_ok()", "is_err()"), ("is_err()", "is_ok()")):
        for m in re.finditer(re.escape(a), masked):
            yield f"{a}→{b}", line[:m.start()] + b + line[m.end():]


def main():
    repo = "/repo"
    maxper = 10 ** 9
    seed = 1
    a = sys.argv[1:]
    while a:
        if a[0] == "--repo": repo = a[1]; a = a[2:]
        elif a[0] == "--max-per-file": maxper = int(a[1]); a = a[2:]
        elif a[0] == "--seed": seed = int(a[1]); a = a[2:]
        else: sys.exit("unknown arg " + a[0])
    rng = random.Random(seed)
    for rel, checks in FILES.items():
        path = os.path.join(repo, rel)
        if not os.path.exists(path):
            continue
        lines = open(path).read().split("\n")
        out = []
        in_block_comment = False
        for i, line in enumerate(lines):
            if re.match(r"\s*#\[cfg\(test\)\]", line):
                break
            if "/*" in line: in_block_comment = True
            if in_block_comment:
                if "*/" in line: in_block_comment = False
                continue
            if SKIP_LINE.search(line) or not line.strip():
                continue
            seen = set()
            for op, new in mutants_of_line(line):
                if new == line or new in seen:
                    continue
                seen.add(new)
                mid = hashlib.blake2b(f"{rel}:{i}:{new}".encode(), digest_size=5).hexdigest()
                out.append({"id": mid, "file": rel, "line": i + 1, "op": op, "before": line.strip(), "after": new.strip(), "new_line": new, "checks": checks})
        if len(out) > maxper:
            out = rng.sample(out, maxper)
            out.sort(key=lambda m: m["line"])
        for m in out:
            print(json.dumps(m))


if __name__ == "__main__":
    main()

#!/usr/bin/env python3
"""
mutsweep/report.py: write mutsweep/REPORT.md from the sweep results.

  results.jsonl      first pass (machinery as of the start of session 3)
  results_r2.jsonl   second pass over everything the first pass missed or had not run, with the rs2lean bridge theorems
  results_r3.jsonl   third pass: everything still missed + new mutants (literal initialisers, statement deletion in more files)
  results_r4.jsonl   fourth pass over what the third pass missed, after the gaps it showed were closed
  triage.json        hand-written triage of the mutants the THIRD pass missed:  id -> [class, note]
                     class: equivalent | property-equivalent | out-of-scope | statistical | gap | gap-closed

A measurement of the checks' sensitivity to one-line changes that compile and pass the 47 tests; it decides nothing.
"""
import json, os, collections

HERE = os.path.dirname(os.path.abspath(__file__))


def load(p):
    p = os.path.join(HERE, p)
    if not os.path.exists(p): return []
    return [json.loads(l) for l in open(p) if l.strip()]


def main():
    r1 = {r["id"]: r for r in load("results.jsonl")}
    r2 = {r["id"]: r for r in load("results_r2.jsonl")}
    r3 = {r["id"]: r for r in load("results_r3.jsonl")}
    r4 = {r["id"]: r for r in load("results_r4.jsonl")}
    # fifth pass: the server.rs / server-main mutants again, after the event loop was translated and bridged and a false alarm
    # of the C15 rig under concurrent runs (which had "caught" eight property-equivalent mutants in the fourth pass) was removed
    r5 = {r["id"]: r for r in load("results_r5.jsonl")}
    r4.update(r5)
    muts = {}
    for f in ("mutants.jsonl", "mutants_r2.jsonl", "mutants_r3.jsonl"):
        for m in load(f): muts[m["id"]] = m
    tri = json.load(open(os.path.join(HERE, "triage.json"))) if os.path.exists(os.path.join(HERE, "triage.json")) else {}
    final = {}
    for i, m in muts.items():
        r = r4.get(i) or r3.get(i) or r2.get(i) or r1.get(i)
        if r is not None: final[i] = r
    c = collections.Counter(r["status"] for r in final.values())
    out = []
    out.append("# Mutation sweep: sensitivity of the quick checks to one-line changes\n")
    out.append("Produced by `mutsweep/gen.py` (mutant generation), `mutsweep/run.py` (evaluation in private worktrees and private copies of /verif) and "
               "`mutsweep/report.py` (this file). A measurement; it decides nothing.\n")
    out.append(f"Mutants generated: {len(muts)} (relational / arithmetic / boolean operators, integer literals ±1, statement deletion, method twins) in "
               f"{len(set(m['file'] for m in muts.values()))} source files; evaluated: {len(final)}.\n")
    out.append("| outcome | count |\n|---|---|")
    for k in ("nocompile", "killed-by-tests", "caught", "missed", "harness-error", "stale"):
        if c.get(k): out.append(f"| {k} | {c[k]} |")
    surv = [r for r in final.values() if r["status"] in ("caught", "missed", "harness-error")]
    caught = [r for r in surv if r["status"] == "caught"]
    out.append("")
    out.append(f"Of the {len(surv)} mutants that compile and pass the 47 tests, {len(caught)} ({100 * len(caught) // max(1, len(surv))} %) are reported by a quick check "
               f"({sum(1 for r in caught if r.get('no_failing_input'))} of them only as a broken proof obligation / correspondence, `no-failing-input-found`).\n")
    p1_missed = [i for i, r in r1.items() if r["status"] == "missed"]
    flipped = [i for i in p1_missed if r2.get(i, {}).get("status") == "caught"]
    out.append(f"First pass (before the rs2lean translator and bridge theorems): {len(p1_missed)} missed. Second pass: {len(flipped)} of those are now caught "
               f"(bridge theorems for message.rs, merkle.rs, request.rs, online.rs, responder.rs, sign.rs, …).\n")
    p3_missed = [i for i, r in r3.items() if r["status"] in ("missed", "harness-error")]
    f4 = [i for i in p3_missed if r4.get(i, {}).get("status") == "caught"]
    out.append(f"Third pass: {len(p3_missed)} missed or harness-error (triaged below). Fourth pass, after closing the gaps the triage showed (grease.rs and "
               f"reporter.rs translated and bridged, recorder totals in the event-loop stream, the real binary started for refused configurations, a harness "
               f"panic treated as a broken correspondence; fifth pass for server.rs / the server's main after process_events was translated and bridged and after a "
               f"false alarm of the C15 rig under concurrent runs was removed): {len(f4)} of those are now caught"
               f"{' (fourth pass not yet complete: ' + str(len(r4)) + ' of ' + str(len(p3_missed)) + ' re-run)' if len(r4) < len(p3_missed) else ''}.\n")
    # per file
    out.append("## Per file (mutants that compile and pass the tests)\n")
    out.append("| file | caught | missed |\n|---|---|---|")
    byf = collections.defaultdict(lambda: [0, 0])
    for r in surv:
        byf[r["file"]][0 if r["status"] == "caught" else 1] += 1
    for f in sorted(byf): out.append(f"| {f} | {byf[f][0]} | {byf[f][1]} |")
    # triage of the misses
    out.append("\n## Triage of the remaining misses\n")
    cls = collections.Counter()
    rows = []
    for i, r in sorted(final.items(), key=lambda kv: (kv[1]["file"], kv[1]["line"])):
        if r["status"] not in ("missed", "harness-error") and not (i in tri and tri[i][0] == "gap-closed"): continue
        t = tri.get(i, ["untriaged", ""])
        if r["status"] == "caught": t = [t[0], t[1] + " — caught in the fourth pass"]
        cls[t[0]] += 1
        rows.append(f"| {r['file']}:{r['line']} | `{r['before'][:60].replace('|', '¦')}` → `{r['after'][:60].replace('|', '¦')}` | {t[0]} | {t[1]} |")
    out.append("| class | count |\n|---|---|")
    for k, v in cls.most_common(): out.append(f"| {k} | {v} |")
    out.append("\nClasses: *equivalent* = no observable behaviour changes (capacities, values overwritten before use, dead defaults); "
               "*property-equivalent* = behaviour changes but none of the 20 properties is affected (performance, log text, timing jitter, statistics "
               "publication cadence); *gap-closed* = a property was affected and the check has been strengthened since the third pass; *statistical* = changes a probability that only a large sample distinguishes; *out-of-scope* = code no property is "
               "anchored in (CSV/zstd reporter output, client stress mode); *gap* = a property is affected and no quick check notices.\n")
    out.append("| location | change | class | note |\n|---|---|---|---|")
    out += rows
    open(os.path.join(HERE, "REPORT.md"), "w").write("\n".join(out) + "\n")
    print("written", len(final), c)


if __name__ == "__main__":
    main()

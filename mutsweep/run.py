#!/usr/bin/env python3
"""
Mutation sweep: measures which test-surviving one-line changes of /repo the quick checks notice.

  run.py --mutants mutants.jsonl --out results.jsonl [--workers 4] [--root /tmp/mw] [--only-files a,b]

Each worker owns a private copy of /verif (with the few hard-coded `/repo` paths rewritten) and a private
git worktree of /repo's HEAD under --root; nothing is ever changed in /repo or /verif themselves. Per mutant:
  1. write the mutated line into the worker's repo copy
  2. `cargo build --offline --all-targets`      → "nocompile" if it fails
  3. `cargo test --workspace --offline`          → "killed-by-tests" if it fails
  4. the quick checks listed for the file        → "caught" (some check exits 1 with a VIOLATION line),
                                                    "missed" (all exit 0), "harness-error" (exit 2)
  5. restore the file
Results are appended to --out as JSON lines (resumable: ids already present are skipped).
Worker directories are removed at the end.
"""
import sys, os, json, subprocess, shutil, threading, queue, time, re

VERIF = os.path.dirname(os.path.dirname(os.path.abspath(__file__)))


def sh(cmd, cwd=None, env=None, timeout=3600):
    try:
        p = subprocess.run(cmd, cwd=cwd, env=env, stdout=subprocess.PIPE, stderr=subprocess.STDOUT, timeout=timeout)
        return p.returncode, p.stdout.decode("utf-8", "replace")
    except subprocess.TimeoutExpired as e:
        return 124, (e.stdout or b"").decode("utf-8", "replace") + "\nTIMEOUT"


def setup_worker(root, k):
    d = os.path.join(root, str(k))
    shutil.rmtree(d, ignore_errors=True)
    os.makedirs(d)
    repo = os.path.join(d, "repo")
    rc, out = sh(["git", "-C", "/repo", "worktree", "add", "--detach", repo, "HEAD"])
    if rc != 0:
        raise RuntimeError(out)
    ver = os.path.join(d, "verif")
    sh(["rsync", "-a", "--exclude", ".git", "--exclude", "seeded", "--exclude", "replays", "--exclude", "mutsweep",
        "--exclude", ".build/run-*", "--exclude", ".build/audit", VERIF + "/", ver + "/"])
    for rel in ["setup.sh", "harness/src/procs.rs", "harness/Cargo.toml", "check", "checklib/extract_constants.py"]:
        p = os.path.join(ver, rel)
        s = open(p).read().replace('"/repo"', f'"{repo}"').replace("/repo/", repo + "/")
        open(p, "w").write(s)
    env = dict(os.environ)
    env.update({"CARGO_NET_OFFLINE": "true", "VERIF_REPO": repo, "CARGO_TARGET_DIR": os.path.join(d, "repo-test-target")})
    # warm both builds on the unmutated tree
    rc, out = sh(["cargo", "test", "--workspace", "--offline", "--no-run"], cwd=repo, env=env)
    if rc != 0:
        raise RuntimeError("baseline build failed in worker: " + out[-2000:])
    env2 = dict(env); env2.pop("CARGO_TARGET_DIR")
    rc, out = sh(["./setup.sh"], cwd=ver, env=env2)
    if rc != 0:
        raise RuntimeError("verif setup failed in worker: " + out[-2000:])
    return d, repo, ver, env, env2


def teardown_worker(d, repo):
    sh(["git", "-C", "/repo", "worktree", "remove", "--force", repo])
    shutil.rmtree(d, ignore_errors=True)
    sh(["git", "-C", "/repo", "worktree", "prune"])


def one_mutant(m, repo, ver, env, env2):
    path = os.path.join(repo, m["file"])
    orig = open(path).read()
    lines = orig.split("\n")
    if lines[m["line"] - 1].strip() != m["before"]:
        return {"status": "stale"}
    lines[m["line"] - 1] = m["new_line"]
    res = {}
    t0 = time.time()
    try:
        open(path, "w").write("\n".join(lines))
        rc, out = sh(["cargo", "build", "--offline", "--all-targets"], cwd=repo, env=env, timeout=1200)
        if rc != 0:
            return {"status": "nocompile"}
        rc, out = sh(["cargo", "test", "--workspace", "--offline", "--no-fail-fast"], cwd=repo, env=env, timeout=1200)
        if rc != 0:
            failed = re.findall(r"^test (\S+) \.\.\. FAILED", out, flags=re.M)
            return {"status": "killed-by-tests", "tests": failed[:5]}
        checks = {}
        status = "missed"
        for pid in m["checks"]:
            rc, out = sh(["./check", pid, "--tier", "quick"], cwd=ver, env=env2, timeout=1800)
            last = out.strip().splitlines()[-1] if out.strip() else ""
            viol = [l for l in out.splitlines() if l.startswith("VIOLATION")]
            checks[pid] = {"rc": rc, "summary": last[-200:], "violation": viol[:1]}
            if rc == 1 and viol:
                status = "caught"
                res["caught_by"] = pid
                res["no_failing_input"] = viol[0].endswith("no-failing-input-found")
                break   # one detection is enough for the measurement
            if rc not in (0, 1):
                status = "harness-error" if status == "missed" else status
        res["status"] = status
        res["checks"] = checks
        return res
    finally:
        open(path, "w").write(orig)
        res["wall_s"] = round(time.time() - t0, 1)
        shutil.rmtree(os.path.join(ver, "replays"), ignore_errors=True)


def main():
    a = sys.argv[1:]
    opt = {"--workers": "4", "--root": "/tmp/mw", "--only-files": "", "--limit": "0"}
    while a:
        opt[a[0]] = a[1]; a = a[2:]
    muts = [json.loads(l) for l in open(opt["--mutants"])]
    if opt["--only-files"]:
        keep = set(opt["--only-files"].split(","))
        muts = [m for m in muts if m["file"] in keep]
    done = set()
    if os.path.exists(opt["--out"]):
        for l in open(opt["--out"]):
            try: done.add(json.loads(l)["id"])
            except Exception: pass
    muts = [m for m in muts if m["id"] not in done]
    if int(opt["--limit"]):
        muts = muts[:int(opt["--limit"])]
    q = queue.Queue()
    for m in muts: q.put(m)
    lock = threading.Lock()
    outf = open(opt["--out"], "a")

    def worker(k):
        try:
            d, repo, ver, env, env2 = setup_worker(opt["--root"], k)
        except Exception as e:
            print(f"worker {k} setup failed: {e}", file=sys.stderr, flush=True)
            return
        try:
            while True:
                try: m = q.get_nowait()
                except queue.Empty: break
                r = one_mutant(m, repo, ver, env, env2)
                rec = {k_: m[k_] for k_ in ("id", "file", "line", "op", "before", "after")}
                rec.update(r)
                with lock:
                    outf.write(json.dumps(rec) + "\n"); outf.flush()
                    print(f"[w{k}] {m['file']}:{m['line']} {m['op']} -> {rec['status']} {rec.get('caught_by','')} ({rec.get('wall_s')}s) left={q.qsize()}", flush=True)
        finally:
            teardown_worker(d, repo)

    ths = [threading.Thread(target=worker, args=(k,)) for k in range(int(opt["--workers"]))]
    for t in ths: t.start()
    for t in ths: t.join()


if __name__ == "__main__":
    main()

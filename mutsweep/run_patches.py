#!/usr/bin/env python3
"""
Re-run the checks against every stored breaking change (seeded/*/patch.diff, mutants/unfix-*.patch) in PRIVATE copies of
/repo and /verif (same worker set-up as run.py), several at a time — /repo itself is never touched, so this can run in
the background (`vp run -- python3 mutsweep/run_patches.py --out mutsweep/recheck.jsonl --workers 5`).

Per change: apply the patch to the worker's repo copy, run the quick checks recorded as catching it (seeded/<id>/meta.json
`confirmed_by_me.checks_run` entries ending in rc=1, else the property of the id; for unfix patches the property named in
known_findings.json), undo. Result line: {"name", "checks": {Cxx: rc}, "detected": bool, "no_failing_input": bool}.
"""
import sys, os, json, re, glob, threading, queue, time
sys.path.insert(0, os.path.dirname(os.path.abspath(__file__)))
from run import sh, setup_worker, teardown_worker, VERIF


def items():
    out = []
    for d in sorted(glob.glob(os.path.join(VERIF, "seeded", "C*"))):
        n = os.path.basename(d)
        p = os.path.join(d, "patch.diff")
        if not os.path.exists(p): continue
        checks = []
        try:
            m = json.load(open(os.path.join(d, "meta.json")))
            checks = [c.split(":")[0] for c in m.get("confirmed_by_me", {}).get("checks_run", []) if c.endswith("rc=1")]
        except Exception:
            pass
        if not checks: checks = [re.match(r"C\d+", n).group(0)]
        out.append((n, p, checks))
    kf = {}
    try:
        for f in json.load(open(os.path.join(VERIF, "known_findings.json"))).get("findings", []):
            kf.setdefault(f["id"], []).append(f["property"])
    except Exception:
        pass
    for p in sorted(glob.glob(os.path.join(VERIF, "mutants", "unfix-*.patch"))):
        b = os.path.basename(p)[:-6]
        fid = b.split("-")[1]
        props = sorted(set(kf.get(fid, []) + kf.get(fid + "b", [])))
        if props: out.append((b, p, props))
    return out


def main():
    a = sys.argv[1:]
    opt = {"--workers": "4", "--root": "/tmp/mwp", "--out": "recheck.jsonl", "--only": ""}
    while a:
        opt[a[0]] = a[1]; a = a[2:]
    its = [x for x in items() if re.search(opt["--only"] or ".", x[0])]
    done = set()
    if os.path.exists(opt["--out"]):
        for l in open(opt["--out"]):
            try: done.add(json.loads(l)["name"])
            except Exception: pass
    q = queue.Queue()
    for x in its:
        if x[0] not in done: q.put(x)
    lock = threading.Lock()
    outf = open(opt["--out"], "a")

    def worker(k):
        try:
            d, repo, ver, env, env2 = setup_worker(opt["--root"], k)
        except Exception as e:
            print(f"worker {k} setup failed: {e}", file=sys.stderr, flush=True); return
        env2 = dict(env2); env2["VERIF_EVIDENCE_DIR"] = os.path.join(d, "evidence")
        try:
            while True:
                try: name, patch, checks = q.get_nowait()
                except queue.Empty: break
                t0 = time.time()
                rc, out = sh(["git", "-C", repo, "apply", patch])
                rec = {"name": name, "checks": {}, "detected": False, "no_failing_input": False}
                if rc != 0:
                    rec["error"] = "patch does not apply: " + out[-200:]
                else:
                    rcb, outb = sh(["cargo", "build", "--offline", "--all-targets"], cwd=repo, env=env, timeout=1800)
                    for c in checks:
                        rcc, o = sh(["./check", c, "--tier", "quick"], cwd=ver, env=env2, timeout=3600)
                        viol = [l for l in o.splitlines() if l.startswith(f"VIOLATION property={c}")]
                        rec["checks"][c] = rcc
                        if rcc == 1 and viol:
                            rec["detected"] = True
                            rec["no_failing_input"] = viol[0].endswith("no-failing-input-found")
                            break
                sh(["git", "-C", repo, "checkout", "--", "."])
                sh(["git", "-C", repo, "clean", "-fdq", "src", "tests"])
                rec["wall_s"] = round(time.time() - t0, 1)
                with lock:
                    outf.write(json.dumps(rec) + "\n"); outf.flush()
                    print(f"[w{k}] {name}: {'detected' if rec['detected'] else 'NOT DETECTED'}{' (no failing input)' if rec['no_failing_input'] else ''} {rec['checks']} ({rec['wall_s']}s) left={q.qsize()}", flush=True)
        finally:
            teardown_worker(d, repo)

    ts = [threading.Thread(target=worker, args=(k,)) for k in range(int(opt["--workers"]))]
    for t in ts: t.start()
    for t in ts: t.join()
    recs = [json.loads(l) for l in open(opt["--out"])]
    miss = [r["name"] for r in recs if not r["detected"]]
    print(f"{len(recs)} changes re-checked, {len(recs) - len(miss)} detected, not detected: {miss}")


if __name__ == "__main__":
    main()

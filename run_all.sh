#!/bin/sh
# run every check of a tier sequentially: ./run_all.sh quick|thorough   (prints one summary line per check)
TIER=${1:-quick}
cd "$(dirname "$0")"
[ -x .build/cargo/debug/rvh ] || ./setup.sh > .build-setup.log 2>&1
for p in C01 C02 C03 C04 C05 C06 C07 C08 C09 C10 C11 C12 C13 C14 C15 C16 C17 C18 C19 C20; do
  s=$(date +%s)
  out=$(./check $p --tier $TIER 2>&1); rc=$?
  e=$(date +%s)
  echo "$p rc=$rc $((e-s))s :: $(echo "$out" | tail -1)"
  echo "$out" | grep VIOLATION
  [ $rc = 0 ] || FAIL=1
done
exit ${FAIL:-0}

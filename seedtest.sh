#!/bin/bash
# seedtest.sh Cxx [check ids...] : confirm a seeded change (worktree /tmp/seed-Cxx, outputs /tmp/seed-out/Cxx),
# run our checks against it on /repo, undo, store under /verif/seeded/Cxx.
# optional first arg "-r N" selects round N (worktree /tmp/seedN-Cxx, outputs /tmp/seedN-out/Cxx, stored as seeded/Cxx-rN)
R=""; if [ "$1" = "-r" ]; then R=$2; shift 2; fi
ID=$1; shift
CHECKS=${@:-$ID}
WT=/tmp/seed$R-$ID; OUT=/tmp/seed$R-out/$ID
STORE=$ID; [ -n "$R" ] && STORE=$ID-r$R
export CARGO_NET_OFFLINE=true RUST_BACKTRACE=0
cd $WT || exit 2
DEMO=$(python3 -c "import json;print(json.load(open('$OUT/meta.json'))['demo_cmd'])")
echo "== demo_cmd: $DEMO"
# with patch: tests pass, demo fails
git -C $WT diff --quiet -- src && { echo "patch not applied in worktree; applying"; git -C $WT apply $OUT/patch.diff; }
T1=$(cargo test --offline --lib --bins 2>&1 | grep -E 'test result' | head -1)
cargo build --offline --bins > /dev/null 2>&1
echo "tests with patch: $T1"
( eval "$DEMO" ) > $OUT/demo_with.log 2>&1; D1=$?
# without patch: demo passes
git -C $WT checkout -- src
cargo build --offline --bins > /dev/null 2>&1
( eval "$DEMO" ) > $OUT/demo_without.log 2>&1; D0=$?
echo "demo rc with patch=$D1 without=$D0"
# our checks
cd /verif
export VERIF_EVIDENCE_DIR=/tmp/verif-experiment-evidence
git -C /repo apply $OUT/patch.diff || { echo "PATCH DOES NOT APPLY TO /repo"; exit 3; }
RES=""
for c in $CHECKS; do
  o=$(./check $c 2>&1); rc=$?
  RES="$RES $c:rc=$rc"
  echo "-- $c rc=$rc :: $(echo "$o" | tail -1)"
  echo "$o" | grep VIOLATION
  if [ $rc = 1 ]; then R=$(echo "$o" | grep -o 'replay=[^ ]*' | head -1 | cut -d= -f2); grep -m2 '^# verdict' $R | cut -c1-300; fi
done
git -C /repo checkout -- .
mkdir -p /verif/seeded/$STORE
cp $OUT/patch.diff $OUT/meta.json /verif/seeded/$STORE/; cp -r $OUT/demo /verif/seeded/$STORE/ 2>/dev/null
python3 - <<PY
import json
m=json.load(open('/verif/seeded/$STORE/meta.json'))
m['confirmed_by_me']={'tests_with_patch':'$T1','demo_rc_with_patch':$D1,'demo_rc_without_patch':$D0,'checks_run':'$RES'.split()}
json.dump(m,open('/verif/seeded/$STORE/meta.json','w'),indent=1)
PY
echo "stored /verif/seeded/$STORE; results:$RES"

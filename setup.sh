#!/bin/sh
# Build the framework offline from files on disk: Lean model + theorems + driver, Rust harness.
set -e
cd "$(dirname "$0")"
export CARGO_NET_OFFLINE=true
mkdir -p .build evidence replays
python3 checklib/extract_constants.py >/dev/null
python3 checklib/rs2lean/rs2lean.py >/dev/null
(cd lean && lake build Rough driver Rough.Bridge.Request Rough.Bridge.Merkle Rough.Bridge.Client Rough.Bridge.Keys Rough.Bridge.SendResponses Rough.Bridge.Tables Rough.Bridge.Sign Rough.Bridge.Envelope Rough.Bridge.Config Rough.Bridge.ServerLoop Rough.Bridge.Stats Rough.Bridge.Grease Rough.Bridge.Reporter Rough.Bridge.ProcessEvents Rough.Props.GenLoop Rough.Bridge.ConfigLoaders Rough.Bridge.ResponderNew Rough.Bridge.Kms Rough.Props.GenResponder Rough.Props.GenSecrets Rough.Props.GenWorkers Rough.Props.GenConfig Rough.Props.GenCodec Rough.Props.GenRequest Rough.Props.GenMerkle Rough.Props.GenKeys Rough.Props.GenSign Rough.Props.GenEnvelope Rough.Props.GenClient Rough.Props.GenStats)
cp /repo/Cargo.lock harness/Cargo.lock
(cd harness && cargo build --offline)
CARGO_TARGET_DIR=$PWD/.build/repo-target cargo build --offline --bins --manifest-path /repo/Cargo.toml
echo setup-ok

//! Process-level rigs around the real `roughenough-server` binary: start-up (C15), multi-worker
//! load (C18), signal handling (C19), the real client against the real server (C03) and the
//! stdout/stderr leak monitor (C20).
use crate::client::{emit as emit_client, run_client_to, run_client_to_with, RunSpec};
use crate::wire::{classic_request, ietf_request, VER13};
use crate::wire::{secret_patterns, leak_scan};
use crate::util::*;
use crate::Ctx;
use std::io::{Read, Write};
use std::net::{SocketAddr, TcpListener, TcpStream, UdpSocket};
use std::process::{Child, Command, Stdio};
use std::sync::atomic::{AtomicBool, AtomicU64, Ordering};
use std::sync::Arc;
use std::time::{Duration, Instant};

pub const HTTP_RESPONSE: &str = "HTTP/1.1 200 OK\nContent-Length: 0\nConnection: close\n\n";

fn bin(name: &str) -> String {
    let dir = std::env::var("RVH_REPO_BIN").unwrap_or_else(|_| "/verif/.build/repo-target/debug".into());
    format!("{}/{}", dir, name)
}

fn rundir() -> String {
    std::env::var("RVH_RUNDIR").unwrap_or_else(|_| "/verif/.build".into())
}

static COUNTER: AtomicU64 = AtomicU64::new(0);

fn free_udp_port() -> u16 {
    UdpSocket::bind("127.0.0.1:0").unwrap().local_addr().unwrap().port()
}
fn free_tcp_port() -> u16 {
    TcpListener::bind("127.0.0.1:0").unwrap().local_addr().unwrap().port()
}

#[derive(Clone)]
pub struct ProcCfg {
    pub seed: Vec<u8>,
    pub workers: Option<usize>,
    pub hc: bool,
    pub batch: Option<u8>,
    pub fault: Option<u8>,
    pub status: Option<u32>,
    pub client_stats: bool,
    pub env_source: bool,
    /// verbatim example.cfg (ports replaced only if taken)
    pub example_cfg: bool,
    /// order of the keys in the YAML file / of setting the variables: 0 as listed, 1 reversed, 2 rotated
    pub order: u8,
}

impl ProcCfg {
    pub fn basic(seed: Vec<u8>, workers: usize) -> Self {
        ProcCfg { seed, workers: Some(workers), hc: false, batch: None, fault: None, status: None, client_stats: false, env_source: false, example_cfg: false, order: 0 }
    }
    pub fn desc(&self) -> String {
        format!(
            "workers={},hc={},batch={},fault={},status={},stats={},src={},example={},order={}",
            self.workers.map(|w| w.to_string()).unwrap_or("default".into()), if self.hc { 1 } else { 0 },
            self.batch.map(|b| b.to_string()).unwrap_or("default".into()), self.fault.map(|b| b.to_string()).unwrap_or("default".into()),
            self.status.map(|b| b.to_string()).unwrap_or("default".into()), if self.client_stats { 1 } else { 0 },
            if self.env_source { "env" } else { "file" }, if self.example_cfg { 1 } else { 0 }, self.order
        )
    }
}

pub struct ServerProc {
    /// host-wide lock held while a server runs on example.cfg's documented ports (8686 / 8000)
    pub port_lock: Option<std::fs::File>,
    pub child: Child,
    pub port: u16,
    pub hc_port: Option<u16>,
    pub log_path: String,
    pub dir: String,
    pub nworkers: usize,
}

impl ServerProc {
    pub fn start(cfg: &ProcCfg) -> Result<ServerProc, String> {
        let n = COUNTER.fetch_add(1, Ordering::SeqCst);
        let dir = format!("{}/srv-{}-{}", rundir(), std::process::id(), n);
        std::fs::create_dir_all(&dir).map_err(|e| e.to_string())?;
        let persist = format!("{}/persist", dir);
        std::fs::create_dir_all(&persist).unwrap();
        let log_path = format!("{}/server.log", dir);
        // example.cfg's documented ports are a host-wide resource: another check (another tier, another copy of this
        // machinery) may be running its own example.cfg case — with SO_REUSEPORT two servers can even share UDP 8686 and
        // steal each other's requests. One at a time (advisory lock, waited for up to 90 s); and the ports are only used
        // verbatim when nobody else holds them (a plain bind without SO_REUSEPORT fails if anyone does).
        let mut port_lock: Option<std::fs::File> = None;
        let mut verbatim_ok = cfg.example_cfg;
        if cfg.example_cfg {
            use std::os::unix::io::AsRawFd;
            let f = std::fs::OpenOptions::new().create(true).write(true).open("/tmp/.roughenough-verif-example-cfg.lock").ok();
            let mut got = false;
            if let Some(f) = f {
                let t0 = Instant::now();
                while t0.elapsed() < Duration::from_secs(90) {
                    if unsafe { libc::flock(f.as_raw_fd(), libc::LOCK_EX | libc::LOCK_NB) } == 0 { got = true; break; }
                    std::thread::sleep(Duration::from_millis(100));
                }
                if got { port_lock = Some(f); }
            }
            let free = UdpSocket::bind("127.0.0.1:8686").is_ok() && UdpSocket::bind("0.0.0.0:8686").is_ok()
                && TcpListener::bind("127.0.0.1:8000").is_ok() && TcpListener::bind("0.0.0.0:8000").is_ok();
            verbatim_ok = got && free;
        }
        for attempt in 0..5 {
            let (port, hc_port) = if cfg.example_cfg && attempt == 0 && verbatim_ok {
                (8686u16, Some(8000u16))
            } else {
                (free_udp_port(), if cfg.hc || cfg.example_cfg { Some(free_tcp_port()) } else { None })
            };
            let mut entries: Vec<(String, String)> = vec![
                ("port".into(), port.to_string()),
                ("interface".into(), "127.0.0.1".into()),
                ("seed".into(), hex(&cfg.seed)),
            ];
            if let Some(p) = hc_port { entries.push(("health_check_port".into(), p.to_string())); }
            if let Some(w) = cfg.workers { entries.push(("num_workers".into(), w.to_string())); }
            if let Some(b) = cfg.batch { entries.push(("batch_size".into(), b.to_string())); }
            if let Some(b) = cfg.fault { entries.push(("fault_percentage".into(), b.to_string())); }
            if let Some(b) = cfg.status { entries.push(("status_interval".into(), b.to_string())); }
            if cfg.client_stats {
                entries.push(("client_stats".into(), "\"on\"".into()));
                entries.push(("persistence_directory".into(), format!("\"{}\"", persist)));
            }
            match cfg.order {
                1 => entries.reverse(),
                2 => { let k = entries.len() / 2; entries.rotate_left(k); }
                _ => {}
            }
            let mut cmd = Command::new(bin("roughenough-server"));
            for k in ["PORT", "INTERFACE", "SEED", "BATCH_SIZE", "STATUS_INTERVAL", "KMS_PROTECTION", "HEALTH_CHECK_PORT", "CLIENT_STATS", "FAULT_PERCENTAGE", "NUM_WORKERS", "PERSISTENCE_DIRECTORY"] {
                cmd.env_remove(format!("ROUGHENOUGH_{}", k));
            }
            cmd.env("RUST_BACKTRACE", "0");
            if cfg.env_source {
                cmd.arg("ENV");
                for (k, v) in &entries {
                    cmd.env(format!("ROUGHENOUGH_{}", k.to_uppercase()), v.trim_matches('"'));
                }
            } else {
                let path = format!("{}/server.yaml", dir);
                let body: String = if cfg.example_cfg && attempt == 0 && verbatim_ok {
                    std::fs::read_to_string("/repo/example.cfg").map_err(|e| e.to_string())?
                } else {
                    entries.iter().map(|(k, v)| format!("{}: {}\n", k, v)).collect()
                };
                std::fs::write(&path, body).unwrap();
                cmd.arg(&path);
            }
            let log = std::fs::File::create(&log_path).unwrap();
            let log2 = log.try_clone().unwrap();
            cmd.stdin(Stdio::null()).stdout(Stdio::from(log)).stderr(Stdio::from(log2));
            let child = cmd.spawn().map_err(|e| format!("spawn server: {}", e))?;
            let nworkers = cfg.workers.unwrap_or_else(|| std::thread::available_parallelism().unwrap().get());
            let mut sp = ServerProc { port_lock: port_lock.take(), child, port, hc_port, log_path: log_path.clone(), dir: dir.clone(), nworkers };
            // readiness: a request gets a reply
            if sp.wait_ready(Duration::from_secs(6)) {
                return Ok(sp);
            }
            let text = sp.log_text();
            let alive = sp.child.try_wait().ok().flatten().is_none();
            if text.contains("AddrInUse") || text.contains("Address already in use") {
                // a port race with another process of this sandbox: retry with new ports. (A worker
                // colliding with ANOTHER WORKER of the same server is not retried: caller sees it.)
                if !alive || !text.contains("worker-") {
                    sp.kill();
                    continue;
                }
            }
            if alive {
                // the process is up but does not answer: report that as the outcome
                return Ok(sp);
            }
            let _ = sp.child.wait();
            return Err(format!("server exited during start-up: {}", text.lines().last().unwrap_or("")));
        }
        Err("could not find free ports".into())
    }

    pub fn addr(&self) -> SocketAddr {
        format!("127.0.0.1:{}", self.port).parse().unwrap()
    }

    fn wait_ready(&mut self, max: Duration) -> bool {
        let s = UdpSocket::bind("127.0.0.1:0").unwrap();
        s.set_read_timeout(Some(Duration::from_millis(100))).unwrap();
        let req = classic_request(&[7u8; 64], 1024);
        let t0 = Instant::now();
        let mut buf = [0u8; 2048];
        while t0.elapsed() < max {
            if let Ok(Some(_)) = self.child.try_wait() {
                return false;
            }
            let _ = s.send_to(&req, self.addr());
            if recv_from_port(&s, &mut buf, self.port).is_ok() {
                return true;
            }
        }
        false
    }

    pub fn log_text(&self) -> String {
        std::fs::read_to_string(&self.log_path).unwrap_or_default()
    }

    pub fn pid(&self) -> u32 {
        self.child.id()
    }

    /// names of the live threads of the server process
    pub fn threads(&self) -> Vec<String> {
        let mut v = vec![];
        if let Ok(rd) = std::fs::read_dir(format!("/proc/{}/task", self.pid())) {
            for e in rd.flatten() {
                if let Ok(s) = std::fs::read_to_string(e.path().join("comm")) {
                    v.push(s.trim().to_string());
                }
            }
        }
        v.sort();
        v
    }

    pub fn live_workers(&self) -> usize {
        let t = self.threads();
        (0..self.nworkers).filter(|i| t.iter().any(|x| x == &format!("worker-{}", i))).count()
    }

    pub fn signal(&self, sig: i32) {
        unsafe {
            libc::kill(self.pid() as i32, sig);
        }
    }

    /// wait for exit; returns (status code or -signal, elapsed ms) or None on timeout
    pub fn wait_exit(&mut self, max: Duration) -> Option<(i32, u128)> {
        let t0 = Instant::now();
        loop {
            match self.child.try_wait() {
                Ok(Some(st)) => {
                    use std::os::unix::process::ExitStatusExt;
                    let code = st.code().unwrap_or_else(|| -st.signal().unwrap_or(0));
                    return Some((code, t0.elapsed().as_millis()));
                }
                _ => {}
            }
            if t0.elapsed() > max {
                return None;
            }
            std::thread::sleep(Duration::from_millis(2));
        }
    }

    pub fn kill(&mut self) {
        let _ = self.child.kill();
        let _ = self.child.wait();
    }

    pub fn cleanup(mut self) {
        self.kill();
        let _ = std::fs::remove_dir_all(&self.dir);
    }
}

/// extract CERT.DELE.PUBK of a reply (lenient)
fn online_key_of(reply: &[u8]) -> Option<Vec<u8>> {
    use crate::client::tv_parse;
    let body = if reply.starts_with(b"ROUGHTIM") { &reply[12..] } else { reply };
    let f = tv_parse(body)?;
    let cert = &f.iter().find(|(t, _)| t == b"CERT")?.1;
    let cf = tv_parse(cert)?;
    let dele = &cf.iter().find(|(t, _)| t == b"DELE")?.1;
    let df = tv_parse(dele)?;
    Some(df.iter().find(|(t, _)| t == b"PUBK")?.1.clone())
}

/// NONC of a reply / request (lenient)
fn nonce_of(dgram: &[u8]) -> Option<Vec<u8>> {
    use crate::client::tv_parse;
    let body = if dgram.starts_with(b"ROUGHTIM") { dgram.get(12..)? } else { dgram };
    let f = tv_parse(body)?;
    Some(f.iter().find(|(t, _)| t == b"NONC")?.1.clone())
}

fn health_once(port: u16) -> bool {
    let addr: SocketAddr = format!("127.0.0.1:{}", port).parse().unwrap();
    match TcpStream::connect_timeout(&addr, Duration::from_secs(2)) {
        Ok(mut s) => {
            s.set_read_timeout(Some(Duration::from_secs(2))).ok();
            let mut buf = vec![];
            let mut tmp = [0u8; 256];
            loop {
                match s.read(&mut tmp) {
                    Ok(0) => break,
                    Ok(n) => buf.extend_from_slice(&tmp[..n]),
                    Err(_) => break,
                }
            }
            buf == HTTP_RESPONSE.as_bytes()
        }
        Err(_) => false,
    }
}

// ---------------------------------------------------------------------------------------------
// C15: start-up grid

fn startup_case(out: &mut Out, r: &mut Rng, cfg: &ProcCfg) {
    if !out.mine() {
        out.skip();
        return;
    }
    let desc = cfg.desc();
    let mut sp = match ServerProc::start(cfg) {
        Ok(sp) => sp,
        Err(e) => {
            out.case("startup", &[&desc], &format!("started=0 err={}", e.replace(' ', "_").replace('\t', "_")));
            return;
        }
    };
    let n = sp.nworkers;
    std::thread::sleep(Duration::from_millis(150));
    let live0 = sp.live_workers();
    // distinct online keys answering on the UDP port: send from many source ports
    let mut keys: std::collections::BTreeSet<Vec<u8>> = Default::default();
    let mut answered = 0usize;
    let mut sent = 0usize;
    let budget = 60 * n + 40;
    let mut buf = [0u8; 2048];
    while keys.len() < n && sent < budget {
        let s = UdpSocket::bind("127.0.0.1:0").unwrap();
        s.set_read_timeout(Some(Duration::from_millis(300))).unwrap();
        let req = if r.chance(1, 2) { classic_request(&r.bytes(64), 1024) } else { ietf_request(&VER13, None, &r.bytes(32), 1024) };
        let _ = s.send_to(&req, sp.addr());
        sent += 1;
        if let Ok((k, _)) = recv_from_port(&s, &mut buf, sp.port) {
            answered += 1;
            if let Some(pk) = online_key_of(&buf[..k]) {
                // classic and IETF responders of one worker have different online keys: count workers by classic key
                if !buf[..k].starts_with(b"ROUGHTIM") {
                    keys.insert(pk);
                }
            }
        }
    }
    // health check: 20 sequential connections, then 4 in parallel (x3), while UDP service continues
    let (mut hc_seq_ok, mut hc_par_ok, mut hc_par_n) = (0, 0, 0);
    if let Some(hp) = sp.hc_port {
        for _ in 0..20 {
            if health_once(hp) { hc_seq_ok += 1; }
        }
        for _ in 0..3 {
            let hs: Vec<_> = (0..4).map(|_| std::thread::spawn(move || health_once(hp))).collect();
            for h in hs {
                hc_par_n += 1;
                if h.join().unwrap_or(false) { hc_par_ok += 1; }
            }
        }
    }
    // probers that behave differently from `curl`: connect and half-close (FIN) before reading, connect and stay silent,
    // connect and close at once — each half-closing prober must still get the fixed response, and time service must go on
    // while the silent ones are held open (seeded changes C15-r9 / C19-r9 made the handler READ from the connection)
    let (mut hc_odd_ok, mut hc_odd_n) = (0usize, 0usize);
    let mut silent: Vec<TcpStream> = vec![];
    if let Some(hp) = sp.hc_port {
        let addr: SocketAddr = format!("127.0.0.1:{}", hp).parse().unwrap();
        for _ in 0..(2 * n).min(8).max(4) {
            if let Ok(c) = TcpStream::connect_timeout(&addr, Duration::from_secs(2)) { silent.push(c); }
            if let Ok(c) = TcpStream::connect_timeout(&addr, Duration::from_secs(2)) { drop(c); }
        }
        for _ in 0..(2 * n).min(8).max(4) {
            hc_odd_n += 1;
            if let Ok(mut c) = TcpStream::connect_timeout(&addr, Duration::from_secs(2)) {
                let _ = c.shutdown(std::net::Shutdown::Write);
                c.set_read_timeout(Some(Duration::from_secs(3))).ok();
                let mut got = vec![];
                let mut tmp = [0u8; 256];
                loop { match c.read(&mut tmp) { Ok(0) => break, Ok(m) => got.extend_from_slice(&tmp[..m]), Err(_) => break } }
                if got == HTTP_RESPONSE.as_bytes() { hc_odd_ok += 1; }
            }
        }
        // UDP service while the silent connections are still open
        let s = UdpSocket::bind("127.0.0.1:0").unwrap();
        s.set_read_timeout(Some(Duration::from_millis(700))).unwrap();
        let mut served = false;
        for _ in 0..4 {
            let _ = s.send_to(&classic_request(&r.bytes(64), 1024), sp.addr());
            if recv_from_port(&s, &mut buf, sp.port).is_ok() { served = true; break; }
        }
        hc_odd_n += 1;
        if served { hc_odd_ok += 1; }
    }
    // burst probe: many connections pending at once behind a single readiness event. The server is
    // stopped (SIGSTOP) while the kernel completes the handshakes into the accept queues, then continued.
    let (mut hc_burst_ok, mut hc_burst_n) = (0usize, 0usize);
    if let Some(hp) = sp.hc_port {
        if n <= 4 {
            let k = 50 * n + 50;
            sp.signal(libc::SIGSTOP);
            let addr: SocketAddr = format!("127.0.0.1:{}", hp).parse().unwrap();
            let mut conns = vec![];
            for _ in 0..k {
                if let Ok(c) = TcpStream::connect_timeout(&addr, Duration::from_secs(2)) {
                    conns.push(c);
                }
            }
            sp.signal(libc::SIGCONT);
            hc_burst_n = k;
            let deadline = Instant::now() + Duration::from_secs(4);
            for mut c in conns {
                let left = deadline.saturating_duration_since(Instant::now()).max(Duration::from_millis(50));
                c.set_read_timeout(Some(left)).ok();
                let mut buf = vec![];
                let mut tmp = [0u8; 256];
                loop {
                    match c.read(&mut tmp) {
                        Ok(0) => break,
                        Ok(m) => buf.extend_from_slice(&tmp[..m]),
                        Err(_) => break,
                    }
                }
                if buf == HTTP_RESPONSE.as_bytes() { hc_burst_ok += 1; }
            }
        }
    }
    // UDP still served after the health checks
    let s = UdpSocket::bind("127.0.0.1:0").unwrap();
    s.set_read_timeout(Some(Duration::from_millis(500))).unwrap();
    let mut udp_after = 0;
    for _ in 0..3 {
        let _ = s.send_to(&classic_request(&r.bytes(64), 1024), sp.addr());
        if recv_from_port(&s, &mut buf, sp.port).is_ok() { udp_after = 1; break; }
    }
    // steady service over several statistics-publication and reporting periods (workers publish per-client statistics
    // every status_interval/10 s, the reporter wakes every second): 28 ticks of 110 ms, in each tick 3n requests from
    // fresh source ports (so that most workers have traffic in every publication window); every one must be answered
    let (mut steady_sent, mut steady_ok) = (0usize, 0usize);
    {
        let mut pending: Vec<(UdpSocket, Vec<u8>)> = vec![];
        for _tick in 0..28 {
            let t_end = Instant::now() + Duration::from_millis(110);
            for _ in 0..3 * n {
                let s = UdpSocket::bind("127.0.0.1:0").unwrap();
                s.set_read_timeout(Some(Duration::from_millis(2))).unwrap();
                let req = if r.chance(1, 2) { classic_request(&r.bytes(64), 1024) } else { ietf_request(&VER13, None, &r.bytes(32), 1024) };
                if s.send_to(&req, sp.addr()).is_ok() { steady_sent += 1; pending.push((s, req)); }
            }
            while Instant::now() < t_end {
                pending.retain(|(s, _)| match recv_from_port(s, &mut buf, sp.port) { Ok(_) => { steady_ok += 1; false } Err(_) => true });
                if pending.is_empty() { std::thread::sleep(Duration::from_millis(5)); }
            }
        }
        // UDP on an overloaded host may drop a datagram or delay its reply (a host running many of these rigs at once did):
        // a request still unanswered is retransmitted up to 4 times, 1.5 s apart, before it counts as not answered — a
        // worker that died does not answer retransmissions either
        for round in 0..5 {
            let t_end = Instant::now() + Duration::from_millis(1500);
            while !pending.is_empty() && Instant::now() < t_end {
                pending.retain(|(s, _)| match recv_from_port(s, &mut buf, sp.port) { Ok(_) => { steady_ok += 1; false } Err(_) => true });
            }
            if pending.is_empty() || round == 4 { break; }
            for (s, req) in pending.iter() { let _ = s.send_to(req, sp.addr()); }
        }
    }
    drop(silent);
    let live1 = sp.live_workers();
    let alive = sp.child.try_wait().ok().flatten().is_none();
    sp.signal(libc::SIGTERM);
    let exit = sp.wait_exit(Duration::from_secs(25)); // (prompt exit is C19's own regime; here only: it exits, status 0, no panic)
    let text = sp.log_text();
    let panics = text.matches("panicked").count();
    let leak = leak_scan(&secret_patterns(&cfg.seed), text.as_bytes()).unwrap_or("0".into());
    let imp = format!(
        "started=1 n={} live0={} live1={} keys={} answered={}/{} hc_seq={}/{} hc_par={}/{} hc_burst={}/{} hc_odd={}/{} steady={}/{} udp_after={} alive={} panics={} exit={} leak={}",
        n, live0, live1, keys.len(), answered, sent, hc_seq_ok, if sp.hc_port.is_some() { 20 } else { 0 }, hc_par_ok, hc_par_n, hc_burst_ok, hc_burst_n, hc_odd_ok, hc_odd_n, steady_ok, steady_sent,
        udp_after, if alive { 1 } else { 0 }, panics,
        exit.map(|e| e.0.to_string()).unwrap_or("timeout".into()), leak
    );
    out.case("startup", &[&desc], &imp);
    sp.cleanup();
}

pub fn run_startup(ctx: &Ctx) {
    let mut out = Out::sharded(ctx.shard);
    let mut r = Rng::new(ctx.seed ^ 0xC15);
    let seed = unhex("a32049da0ffde0ded92ce10a0230d35fe615ec8461c14986baa63fe3b3bac3db");
    let mut cfgs: Vec<ProcCfg> = vec![];
    // the repository's own example.cfg, verbatim
    cfgs.push(ProcCfg { seed: seed.clone(), workers: None, hc: true, batch: None, fault: None, status: None, client_stats: false, env_source: false, example_cfg: true, order: 0 });
    let batches = [1u8, 2, 63, 64];
    let faults = [0u8, 1, 50];
    let statuses = [1u32, 10, 600];
    if ctx.thorough {
        for w in 1..=16usize {
            for hc in [false, true] {
                for k in 0..6 {
                    cfgs.push(ProcCfg {
                        seed: r.bytes(32), workers: Some(w), hc, batch: Some(batches[(w + k) % 4]), fault: Some(faults[(w + k) % 3]),
                        status: Some(statuses[(w / 2 + k) % 3]), client_stats: k % 2 == 1, env_source: k % 3 == 2, example_cfg: false, order: ((w + k) % 3) as u8,
                    });
                }
            }
        }
    } else {
        // pairwise-style cover of the option space
        let ws = [1usize, 2, 3, 4, 8, 16, 16, 5, 2, 12, 7];
        for (i, &w) in ws.iter().enumerate() {
            cfgs.push(ProcCfg {
                seed: r.bytes(32), workers: Some(w), hc: i % 2 == 0, batch: Some(batches[i % 4]), fault: Some(faults[i % 3]),
                status: Some(statuses[(i / 2) % 3]), client_stats: i % 3 == 1, env_source: i % 4 == 3, example_cfg: false, order: ((i / 3) % 3) as u8,
            });
        }
    }
    if !ctx.thorough {
        // many workers with status_interval 10 (publication period 1 s, the only documented value whose timer jitter is
        // comparable to the period): start-up defects that depend on the jitter drawn per worker show with probability
        // < 1 per start (seeded change C15-r6: about 0.6 at 16 workers) — three more starts
        for k in 0..3usize {
            cfgs.push(ProcCfg { seed: r.bytes(32), workers: Some(16), hc: k == 1, batch: Some(batches[k]), fault: Some(0), status: Some(10),
                                client_stats: k == 2, env_source: false, example_cfg: false, order: k as u8 });
        }
    }
    for c in cfgs {
        startup_case(&mut out, &mut r, &c);
    }
    out.flush();
}

// ---------------------------------------------------------------------------------------------
// C18: concurrent closed-loop clients against a multi-worker server

fn workers_round(out: &mut Out, r: &mut Rng, nworkers: usize, nclients: usize, per_client: usize, batch: u8, burst: bool) {
    if !out.mine() {
        out.skip();
        return;
    }
    // a burst must fit the kernel's default receive buffer of ONE worker socket (about 90 datagrams of
    // 1 KiB): SO_REUSEPORT hashes source sockets onto workers unevenly, in the worst case all onto one,
    // so at most 72 datagrams are in flight in total, or the kernel — not the server — drops requests
    let (nclients, per_client) = if burst {
        let cap = 72;
        let nc = nclients.min(cap);
        (nc, (cap / nc).clamp(1, per_client))
    } else {
        (nclients, per_client)
    };
    let seed = r.bytes(32);
    let mut cfg = ProcCfg::basic(seed.clone(), nworkers);
    cfg.batch = Some(batch);
    let desc = format!("seed={},workers={},clients={},reqs={},batch={},burst={}", hex(&seed), nworkers, nclients, per_client, batch, if burst { 1 } else { 0 });
    let mut sp = match ServerProc::start(&cfg) {
        Ok(s) => s,
        Err(e) => { out.case("mw", &[&desc, "-"], &format!("started=0 err={}", e.replace(' ', "_"))); return; }
    };
    let addr = sp.addr();
    let seeds: Vec<u64> = (0..nclients).map(|_| r.next()).collect();
    // burst rounds: the server is stopped while every client sends, so that the whole burst is queued
    // behind a single readiness event when it continues (deterministic, unlike racing the worker)
    let barrier = Arc::new(std::sync::Barrier::new(nclients + 1));
    if burst {
        sp.signal(libc::SIGSTOP);
    }
    let handles: Vec<_> = seeds
        .into_iter()
        .map(|s| {
            let barrier = barrier.clone();
            std::thread::spawn(move || {
                let mut rr = Rng::new(s);
                let sock = UdpSocket::bind("127.0.0.1:0").unwrap();
                sock.set_read_timeout(Some(Duration::from_millis(1500))).unwrap();
                let mut pairs: Vec<(Vec<u8>, Vec<Vec<u8>>)> = vec![];
                let mut buf = [0u8; 4096];
                // replies are attributed to requests by their echoed nonce (a reply that arrives after
                // this client moved on must not be mistaken for the next request's reply)
                let mut extra: Vec<Vec<u8>> = vec![];
                let mut attribute = |pairs: &mut Vec<(Vec<u8>, Vec<Vec<u8>>)>, extra: &mut Vec<Vec<u8>>, reply: Vec<u8>| {
                    let rn = nonce_of(&reply);
                    match pairs.iter_mut().find(|(q, _)| rn.is_some() && nonce_of(q) == rn) {
                        Some((_, rs)) => rs.push(reply),
                        None => extra.push(reply),
                    }
                };
                if burst {
                    // fire everything at once, then collect: many datagrams queued behind one readiness event
                    for _ in 0..per_client {
                        let req = if rr.chance(1, 2) { classic_request(&rr.bytes(64), 1024) } else { ietf_request(&VER13, None, &rr.bytes(32), 1024 + 4 * rr.below(20) as usize) };
                        sock.send_to(&req, addr).unwrap();
                        pairs.push((req, vec![]));
                    }
                    barrier.wait(); // all clients have sent; the main thread now continues the server
                    for _ in 0..per_client {
                        if let Ok((n, _)) = recv_from_port(&sock, &mut buf, addr.port()) {
                            attribute(&mut pairs, &mut extra, buf[..n].to_vec());
                        } else {
                            break;
                        }
                    }
                } else {
                    barrier.wait();
                    for _ in 0..per_client {
                        let req = if rr.chance(1, 2) { classic_request(&rr.bytes(64), 1024) } else { ietf_request(&VER13, None, &rr.bytes(32), 1024 + 4 * rr.below(20) as usize) };
                        sock.send_to(&req, addr).unwrap();
                        pairs.push((req, vec![]));
                        if let Ok((n, _)) = recv_from_port(&sock, &mut buf, addr.port()) {
                            attribute(&mut pairs, &mut extra, buf[..n].to_vec());
                        }
                    }
                }
                // late replies: 300 ms of silence ends the collection when nothing is missing; while a reply is
                // still missing keep listening for up to 10 s (a loaded machine delays replies — that is not the
                // server losing a request, and "no response" must not be concluded from a short wait)
                sock.set_read_timeout(Some(Duration::from_millis(300))).unwrap();
                let late_start = std::time::Instant::now();
                loop {
                    match recv_from_port(&sock, &mut buf, addr.port()) {
                        Ok((n, _)) => attribute(&mut pairs, &mut extra, buf[..n].to_vec()),
                        Err(_) => {
                            let missing = pairs.iter().any(|(_, rs)| rs.is_empty());
                            if !missing || late_start.elapsed() > Duration::from_secs(10) {
                                break;
                            }
                        }
                    }
                }
                // more than one reply for a request counts as extra
                for (_, rs) in pairs.iter_mut() {
                    while rs.len() > 1 { extra.push(rs.pop().unwrap()); }
                }
                (pairs, extra)
            })
        })
        .collect();
    barrier.wait();
    if burst {
        sp.signal(libc::SIGCONT);
        // "regardless of how the threads are scheduled": while the workers chew through the queued burst, the whole
        // process is descheduled for tens of milliseconds a few times (seeded change C18-r6 panicked when a call
        // exceeded a wall-clock budget)
        for k in 0..6u64 {
            std::thread::sleep(Duration::from_millis(2 + k));
            sp.signal(libc::SIGSTOP);
            std::thread::sleep(Duration::from_millis(35));
            sp.signal(libc::SIGCONT);
        }
    }
    let mut all_pairs: Vec<(Vec<u8>, Vec<Vec<u8>>)> = vec![];
    let mut extras = 0usize;
    for h in handles {
        let (p, e) = h.join().unwrap();
        all_pairs.extend(p);
        extras += e.len();
    }
    let live = sp.live_workers();
    let alive = sp.child.try_wait().ok().flatten().is_none();
    sp.signal(libc::SIGTERM);
    let exit = sp.wait_exit(Duration::from_secs(25)); // (prompt exit is C19's own regime; here only: it exits, status 0, no panic)
    let panics = sp.log_text().matches("panicked").count();
    let pairs_s = all_pairs
        .iter()
        .map(|(q, rs)| format!("{}>{}", hex(q), if rs.is_empty() { "-".to_string() } else { hex(&rs[0]) }))
        .collect::<Vec<_>>()
        .join(";");
    let imp = format!("started=1 live={} alive={} extras={} panics={} exit={}", live, if alive { 1 } else { 0 }, extras, panics,
        exit.map(|e| e.0.to_string()).unwrap_or("timeout".into()));
    out.case("mw", &[&desc, &pairs_s], &imp);
    sp.cleanup();
}

pub fn run_workers(ctx: &Ctx) {
    let mut out = Out::sharded(ctx.shard);
    let mut r = Rng::new(ctx.seed ^ 0xC18);
    let counts: Vec<usize> = if ctx.thorough { vec![1, 2, 4, 8, 16] } else { vec![1, 2, 16] };
    let rounds = if ctx.thorough { 30 } else { 5 };
    for &w in &counts {
        for k in 0..rounds {
            // batch_size and arrival pattern vary: small batches with everything fired at once queue far
            // more than one call's worth (16 batches) of datagrams on a worker
            let (nclients, batch, burst) = match k % 5 {
                0 => (64usize, 64u8, false),
                1 => (64, 1, true),
                2 => (48, 2, true),
                3 => (r.range(16, 64) as usize, 63, false),
                _ => (r.range(1, 16) as usize, 1, false),
            };
            workers_round(&mut out, &mut r, w, nclients, if ctx.thorough { 12 } else { 8 }, batch, burst);
        }
    }
    out.flush();
}

// ---------------------------------------------------------------------------------------------
// C19: SIGINT / SIGTERM at swept instants, idle / closed-loop load / open-loop flood

fn shutdown_case(out: &mut Out, r: &mut Rng, nworkers: usize, client_stats: bool, sig: i32, regime: &str, delay_ms: u64) {
    if !out.mine() {
        out.skip();
        return;
    }
    let seed = r.bytes(32);
    let mut cfg = ProcCfg::basic(seed.clone(), nworkers);
    cfg.client_stats = client_stats;
    // status_interval also paces the statistics reporter: cover short, medium and the default (600 s)
    cfg.status = match delay_ms % 3 { 0 => None, 1 => Some(10), _ => Some(120) };
    if regime == "hc-silent" { cfg.hc = true; }
    if regime == "load-stats" || regime == "persist-fault" {
        // busy workers publishing per-client snapshots every 100 ms into a queue the reporter drains once a second
        cfg.status = Some(1);
    }
    let desc = format!("seed={},workers={},stats={},sig={},regime={},delay={}", hex(&seed), nworkers, if client_stats { 1 } else { 0 },
        if sig == libc::SIGINT { "INT" } else { "TERM" }, regime, delay_ms);
    let mut sp = match ServerProc::start(&cfg) {
        Ok(s) => s,
        Err(e) => { out.case("sd", &[&desc, "-"], &format!("started=0 err={}", e.replace(' ', "_"))); return; }
    };
    let addr = sp.addr();
    if regime == "persist-fault" {
        // the statistics reporter's output directory disappears once the server is serving (every report fails from
        // then on): whatever the reporter does about that must not delay the exit
        let _ = std::fs::remove_dir_all(format!("{}/persist", sp.dir));
    }
    let stop = Arc::new(AtomicBool::new(false));
    let mut handles = vec![];
    let nthreads = match regime { "idle" => 0, "early" => 0, "load" => 4, "load-stats" => 4 * nworkers.max(1), "persist-fault" => 2, "hc-silent" => 0, "junk" => 2 * nworkers.max(1), _ => 6 };
    for t in 0..nthreads {
        let stop = stop.clone();
        let flood = regime == "flood";
        if regime == "junk" {
            // the workers see ONLY datagrams they must drop (never a valid request) before the signal: statistics
            // with requests but no responses, no reply ever sent
            let s = r.next();
            handles.push(std::thread::spawn(move || {
                let mut rr = Rng::new(s ^ t as u64);
                let sock = UdpSocket::bind("127.0.0.1:0").unwrap();
                while !stop.load(Ordering::Relaxed) {
                    let d = match rr.below(4) { 0 => vec![0u8; 100], 1 => rr.bytes(1024), 2 => { let mut v = b"ROUGHTIM".to_vec(); v.extend(rr.bytes(1100)); v } _ => rr.bytes(7) };
                    let _ = sock.send_to(&d, addr);
                    std::thread::sleep(Duration::from_millis(2));
                }
                vec![]
            }));
            continue;
        }
        let s = r.next();
        handles.push(std::thread::spawn(move || {
            let mut rr = Rng::new(s ^ t as u64);
            let sock = UdpSocket::bind("127.0.0.1:0").unwrap();
            let mut pairs: Vec<(Vec<u8>, Vec<u8>)> = vec![];
            let mut buf = [0u8; 4096];
            if flood {
                // open loop: keep the receive queue non-empty; do not read replies except a sample
                sock.set_nonblocking(true).unwrap();
                let req = classic_request(&rr.bytes(64), 1024);
                while !stop.load(Ordering::Relaxed) {
                    for _ in 0..64 {
                        let _ = sock.send_to(&req, addr);
                    }
                    while let Ok((n, _)) = recv_from_port(&sock, &mut buf, addr.port()) {
                        if pairs.len() < 40 {
                            pairs.push((req.clone(), buf[..n].to_vec()));
                        }
                    }
                }
            } else {
                sock.set_read_timeout(Some(Duration::from_millis(200))).unwrap();
                let mut outstanding: Vec<Vec<u8>> = vec![];
                while !stop.load(Ordering::Relaxed) {
                    let req = if rr.chance(1, 2) { classic_request(&rr.bytes(64), 1024) } else { ietf_request(&VER13, None, &rr.bytes(32), 1024) };
                    let _ = sock.send_to(&req, addr);
                    outstanding.push(req);
                    if outstanding.len() > 64 { outstanding.remove(0); }
                    if let Ok((n, _)) = recv_from_port(&sock, &mut buf, addr.port()) {
                        let reply = buf[..n].to_vec();
                        // attribute by echoed nonce; a reply with an unknown nonce is kept against an
                        // empty request so that the verifier reports it
                        let rn = nonce_of(&reply);
                        let q = outstanding.iter().find(|q| rn.is_some() && nonce_of(q) == rn).cloned().unwrap_or_default();
                        pairs.push((q, reply));
                        if pairs.len() > 60 {
                            pairs.remove(0); // keep the LAST responses before exit
                        }
                    }
                }
            }
            pairs
        }));
    }
    // silent health-check connections (a TCP connect that never sends and never closes: port scanners, L4 probes) opened
    // just before the signal: whatever the handler does with them must not delay the exit (seeded change C19-r9)
    let mut held: Vec<TcpStream> = vec![];
    if regime == "hc-silent" {
        if let Some(hp) = sp.hc_port {
            let a: SocketAddr = format!("127.0.0.1:{}", hp).parse().unwrap();
            for _ in 0..12 { if let Ok(c) = TcpStream::connect_timeout(&a, Duration::from_secs(2)) { held.push(c); } }
        }
    }
    let live;
    if regime == "early" {
        // "once the server is serving": the FIRST reply has just arrived (ServerProc::start returns on it) while main may
        // still be spawning the remaining workers and the reporter (seeded change C19-r6 installed the signal handler
        // only after that)
        sp.signal(sig);
        live = sp.live_workers();
    } else {
        std::thread::sleep(Duration::from_millis(delay_ms));
        live = sp.live_workers();
        sp.signal(sig);
    }
    let exit = sp.wait_exit(Duration::from_secs(8));
    stop.store(true, Ordering::Relaxed);
    let mut pairs: Vec<(Vec<u8>, Vec<u8>)> = vec![];
    for h in handles {
        pairs.extend(h.join().unwrap());
    }
    if exit.is_none() {
        // did it at least exit once the load stopped? (the unrepaired flood behaviour)
        let late = sp.wait_exit(Duration::from_secs(4));
        let text = sp.log_text();
        let imp = format!("started=1 live={} exit=timeout ms=8000 late_exit={} panics={}", live,
            late.map(|e| e.0.to_string()).unwrap_or("never".into()), text.matches("panicked").count());
        out.case("sd", &[&desc, "-"], &imp);
        sp.cleanup();
        return;
    }
    let (code, ms) = exit.unwrap();
    let text = sp.log_text();
    let pairs_s = if pairs.is_empty() { "-".to_string() } else {
        pairs.iter().rev().take(60).map(|(q, a)| format!("{}>{}", hex(q), hex(a))).collect::<Vec<_>>().join(";")
    };
    let imp = format!("started=1 live={} exit={} ms={} panics={} done={}", live, code, ms, text.matches("panicked").count(),
        if text.contains("Done.") { 1 } else { 0 });
    out.case("sd", &[&desc, &pairs_s], &imp);
    sp.cleanup();
}

pub fn run_shutdown(ctx: &Ctx) {
    let mut out = Out::sharded(ctx.shard);
    let mut r = Rng::new(ctx.seed ^ 0xC19);
    let workers: Vec<usize> = vec![1, 4, 16];
    let delays: Vec<u64> = if ctx.thorough { vec![0, 1, 3, 7, 15, 30, 60, 100, 101, 150, 200, 300] } else { vec![0, 20, 100, 250] };
    let mut i = 0usize;
    for &w in &workers {
        for regime in ["idle", "load", "flood"] {
            for &d in &delays {
                i += 1;
                if !ctx.thorough && (i % 3 != 0) && regime != "flood" {
                    continue;
                }
                let sig = if i % 2 == 0 { libc::SIGINT } else { libc::SIGTERM };
                let stats = i % 4 < 2;
                shutdown_case(&mut out, &mut r, w, stats, sig, regime, d + 30);
            }
        }
    }
    // a signal at the very first reply, while a many-worker server is still starting up
    for (k, &w) in [16usize, 16, 16, 16, 4, 8].iter().enumerate() {
        if !ctx.thorough && k >= 4 { continue; }
        let sig = if k % 2 == 0 { libc::SIGTERM } else { libc::SIGINT };
        shutdown_case(&mut out, &mut r, w, k % 4 < 2, sig, "early", k as u64);
    }
    // workers that have only ever seen invalid datagrams (requests recorded, nothing sent)
    for (k, &w) in [1usize, 4, 2, 16].iter().enumerate() {
        if !ctx.thorough && k >= 2 { continue; }
        for stats in [false, true] {
            let sig = if (k + stats as usize) % 2 == 0 { libc::SIGTERM } else { libc::SIGINT };
            shutdown_case(&mut out, &mut r, w, stats, sig, "junk", 300 + 150 * k as u64);
        }
    }
    // statistics back-pressure: per-client statistics with a 1 s status interval under load for a few seconds
    for (k, &w) in [1usize, 4, 2].iter().enumerate() {
        if !ctx.thorough && k == 2 { continue; }
        let sig = if k % 2 == 0 { libc::SIGINT } else { libc::SIGTERM };
        shutdown_case(&mut out, &mut r, w, true, sig, "load-stats", 2600 + 400 * k as u64);
    }
    // silent health-check connections pending when the signal arrives
    for (k, &w) in [1usize, 4, 1, 16].iter().enumerate() {
        if !ctx.thorough && k >= 2 { continue; }
        let sig = if k % 2 == 0 { libc::SIGTERM } else { libc::SIGINT };
        shutdown_case(&mut out, &mut r, w, k % 2 == 1, sig, "hc-silent", 40 + 60 * k as u64);
    }
    // the reporter's persistence directory removed under load (reports fail): signals swept across a reporting period
    for (k, &d) in [1100u64, 1400, 1900, 2300, 2700, 3300].iter().enumerate() {
        if !ctx.thorough && k % 2 == 1 { continue; }
        let sig = if k % 2 == 0 { libc::SIGTERM } else { libc::SIGINT };
        shutdown_case(&mut out, &mut r, [1usize, 4][k % 2], true, if k == 4 { libc::SIGINT } else { sig }, "persist-fault", d);
    }
    out.flush();
}

// ---------------------------------------------------------------------------------------------
// C03: the real client against the real server (single and -n 64 runs)

pub fn run_client_real(ctx: &Ctx) {
    let mut out = Out::sharded(ctx.shard);
    let mut r = Rng::new(ctx.seed ^ 0xC03C);
    for round in 0..(if ctx.thorough { 6 } else { 2 }) {
        let seed = r.bytes(32);
        let cfg = ProcCfg::basic(seed.clone(), if round % 2 == 0 { 1 } else { 4 });
        let mut sp = match ServerProc::start(&cfg) {
            Ok(s) => s,
            Err(_) => continue,
        };
        let pk = {
            use ed25519_dalek::SigningKey;
            SigningKey::from_bytes(seed.as_slice().try_into().unwrap()).verifying_key().to_bytes().to_vec()
        };
        for &ver in &['G', 'I'] {
            for keymode in 0..3 {
                // (nreq, mixed): mixed = the client's requests land in a batch BEHIND other traffic (junk, requests of
                // the other protocol and of other clients): the server is stopped while everything is queued
                for (nreq, mixed) in [(1usize, false), (64, false), (1, true), (2, true), (40, true)] {
                    let key = match keymode { 0 => None, 1 => Some((false, pk.clone())), _ => Some((true, pk.clone())) };
                    let spec = RunSpec { ver, key, spell: 0, nreq, json: false, kind: "honest".into() };
                    let res = if !mixed { run_client_to(&spec, sp.port) } else {
                        let noise = std::net::UdpSocket::bind("127.0.0.1:0").unwrap();
                        let dst = format!("127.0.0.1:{}", sp.port);
                        sp.signal(libc::SIGSTOP);
                        let k = 1 + r.below(5) as usize;
                        for _ in 0..k {
                            let d = match r.below(4) {
                                0 => { let n = *r.pick(&[40usize, 1024, 1100]); r.bytes(n) }
                                1 => classic_request(&r.bytes(64), 1024),
                                2 => ietf_request(&VER13, None, &r.bytes(32), 1024),
                                _ => { let mut d = b"ROUGHTIM".to_vec(); d.extend(r.bytes(1016)); d }
                            };
                            let _ = noise.send_to(&d, &dst);
                        }
                        let res = run_client_to_with(&spec, sp.port, &mut || {
                            std::thread::sleep(Duration::from_millis(120));
                            sp.signal(libc::SIGCONT);
                        });
                        sp.signal(libc::SIGCONT);
                        res
                    };
                    let nreq_s = if mixed { format!("{}+noise", nreq) } else { nreq.to_string() };
                    // requests/responses are not visible from outside: emit the observable only
                    let keyopt = match &spec.key { None => "none".to_string(), Some((b, k)) => format!("{}:{}", if *b { "b64" } else { "hex" }, hex(k)) };
                    let t0 = res.t0;
                    let t1 = res.t1;
                    let imp = format!("exit={} out={} ver={} idx={} t0={} t1={}", res.exit,
                        if res.out.is_empty() { "-".into() } else { res.out.join("|") },
                        if res.ver.is_empty() { "-".into() } else { res.ver.join("|") },
                        if res.idx.is_empty() { "-".into() } else { res.idx.join("|") }, t0, t1);
                    out.case("clientreal", &[&ver.to_string(), &keyopt, &nreq_s], &imp);
                }
            }
        }
        sp.signal(libc::SIGTERM);
        let _ = sp.wait_exit(Duration::from_secs(5));
        sp.cleanup();
    }
    let _ = emit_client; // (shared emitter is used by the responder-driven streams)
    out.flush();
}

// ---------------------------------------------------------------------------------------------
// C20 (process level): stdout/stderr of the real server — start-up, config error, provoked panic

pub fn run_procleak(ctx: &Ctx) {
    let mut out = Out::sharded(ctx.shard);
    let mut r = Rng::new(ctx.seed ^ 0xC20);
    for k in 0..(if ctx.thorough { 18 } else { 6 }) {
        if !out.mine() {
            out.skip();
            continue;
        }
        // scenarios 4 and 5 use a seed whose hex form consists of decimal digits only (YAML types it
        // as a number): the loader's type-error / conversion paths must not echo it
        let digit_seed = k % 6 >= 4;
        let seed: Vec<u8> = if digit_seed { (0..32).map(|_| (r.below(10) * 16 + r.below(10)) as u8).collect() } else { r.bytes(32) };
        let pats = secret_patterns(&seed);
        let mut cfg = ProcCfg::basic(seed.clone(), 2);
        cfg.env_source = k % 2 == 1;
        cfg.client_stats = k % 3 == 0;
        cfg.status = Some(1);
        cfg.fault = Some(if k % 2 == 0 { 0 } else { 25 });
        let scenario = ["serve", "bad-batch", "bad-port-in-use", "serve", "digit-seed-serve", "digit-seed-bad-batch"][k % 6];
        if digit_seed { cfg.env_source = false; }
        let mut text = String::new();
        match scenario {
            "bad-batch" | "digit-seed-bad-batch" => {
                // configuration error path: the server prints the error and exits 1
                let mut c = cfg.clone();
                c.batch = Some(200);
                match ServerProc::start(&c) {
                    Ok(mut sp) => { sp.kill(); text = sp.log_text(); let _ = std::fs::remove_dir_all(&sp.dir); }
                    Err(_) => {
                        // log is in the most recent srv dir; re-read it
                        let n = COUNTER.load(Ordering::SeqCst) - 1;
                        let dir = format!("{}/srv-{}-{}", rundir(), std::process::id(), n);
                        text = std::fs::read_to_string(format!("{}/server.log", dir)).unwrap_or_default();
                        let _ = std::fs::remove_dir_all(&dir);
                    }
                }
            }
            _ => {
                if let Ok(mut sp) = ServerProc::start(&cfg) {
                    // valid, invalid and junk traffic, a couple of status intervals
                    let s = UdpSocket::bind("127.0.0.1:0").unwrap();
                    s.set_read_timeout(Some(Duration::from_millis(50))).unwrap();
                    let mut buf = [0u8; 2048];
                    let t0 = Instant::now();
                    while t0.elapsed() < Duration::from_millis(1300) {
                        let d = match r.below(3) { 0 => classic_request(&r.bytes(64), 1024), 1 => ietf_request(&VER13, None, &r.bytes(32), 1024), _ => r.bytes(1024) };
                        let _ = s.send_to(&d, sp.addr());
                        let _ = recv_from_port(&s, &mut buf, sp.port);
                    }
                    sp.signal(libc::SIGINT);
                    let _ = sp.wait_exit(Duration::from_secs(5));
                    text = sp.log_text();
                    sp.cleanup();
                }
            }
        }
        let leak = leak_scan(&pats, text.as_bytes()).unwrap_or("0".into());
        out.case("procleak", &[scenario, &hex(&seed)], &format!("leak={} bytes={} lines={}", leak, text.len(), text.lines().count()));
    }
    out.flush();
    let _ = std::io::stdout().flush();
}

//! Function-level stream for request classification (C07, C12): request::nonce_from_request called
//! directly on a long-lived 64 KiB buffer that keeps stale content from earlier, larger datagrams —
//! exactly how the server calls it — and Grease::add_errors on real responses (C02).
use crate::rig::*;
use crate::wire::Gen;
use crate::util::*;
use crate::Ctx;
use roughenough::grease::Grease;
use roughenough::request::nonce_from_request;
use roughenough::version::Version;
use roughenough::{RtMessage, Tag};

fn classify(buf: &mut Vec<u8>, d: &[u8], srv: &[u8]) -> String {
    // copy the datagram over the front of the buffer; whatever was there beyond it stays
    let n = d.len().min(buf.len());
    buf[..n].copy_from_slice(&d[..n]);
    let b: &[u8] = buf;
    match guarded(|| nonce_from_request(b, n, srv)) {
        None => "panic".into(),
        Some(Err(_)) => "err".into(),
        Some(Ok((nonce, v))) => format!("ok {} {}", if v == Version::Google { "G" } else { "I" }, hex(&nonce)),
    }
}

fn mutate_req(r: &mut Rng, b: &[u8]) -> Vec<u8> {
    let mut v = b.to_vec();
    let hdr = if v.starts_with(b"ROUGHTIM") { 12 } else { 0 };
    let nwords = (v.len() - hdr) / 4;
    match r.below(8) {
        0 => { let w = r.below(12.min(nwords as u64)) as usize; let x = *r.pick(&[0u32, 1, 2, 3, 4, 5, 64, 1024, 1100, 2048, 0xffff_fffc, 0x7fff_fffc]); v[hdr + 4 * w..hdr + 4 * w + 4].copy_from_slice(&x.to_le_bytes()); }
        1 => { let w = r.below(12.min(nwords as u64)) as usize; let cur = u32::from_le_bytes(v[hdr + 4 * w..hdr + 4 * w + 4].try_into().unwrap()); let d = *r.pick(&[4u32, 8, 64, 0xffff_fffc, 1024]); v[hdr + 4 * w..hdr + 4 * w + 4].copy_from_slice(&cur.wrapping_add(d).to_le_bytes()); }
        2 => { let i = r.below(48.min(v.len() as u64)) as usize; v[i] ^= 1 << r.below(8); }
        3 => { let cut = r.range(1000, v.len() as u64) as usize / 4 * 4; v.truncate(cut); }
        4 => { let k = 4 * r.range(1, 200) as usize; v.extend(r.bytes(k)); }
        5 if hdr == 12 => { let cur = u32::from_le_bytes(v[8..12].try_into().unwrap()); let d = *r.pick(&[4u32, 0xffff_fffc, 12, 1]); v[8..12].copy_from_slice(&cur.wrapping_add(d).to_le_bytes()); }
        6 => { let i = r.below(v.len() as u64) as usize; v[i] = r.below(256) as u8; }
        _ => { let a = hdr + 4 * r.below(10.min(nwords as u64)) as usize; let c = hdr + 4 * r.below(10.min(nwords as u64)) as usize; for k in 0..4 { v.swap(a + k, c + k); } }
    }
    v
}

pub fn run(ctx: &Ctx) {
    quiet_panics();
    let mut out = Out::sharded(ctx.shard);
    let mut r = Rng::new(ctx.seed ^ 0x52455153);
    let mut buf = vec![0u8; 65536];
    let rounds = if ctx.thorough { 60 } else { 10 };
    for _ in 0..rounds {
        let mut g = Gen::new(&mut r);
        let srv = g.srv.clone();
        let other_srv = g.r.bytes(32);
        // stale filler: a maximal datagram full of plausible tag/offset material
        let filler: Vec<u8> = (0..65507).map(|i| if i % 16 < 4 { [0x4e, 0x4f, 0x4e, 0x43][i % 4] } else { (i % 253) as u8 }).collect();
        for k in 0..(if ctx.thorough { 2500 } else { 1500 }) {
            if k % 97 == 0 {
                let n = filler.len();
                buf[..n].copy_from_slice(&filler);
            }
            let d: Vec<u8> = match g.r.below(10) {
                0 | 1 => g.valid_any(),
                2 | 3 => g.invalid(),
                4 | 5 | 6 => { let b = g.valid_any(); mutate_req(g.r, &b) }
                7 => { let b = g.valid_any(); let m = mutate_req(g.r, &b); mutate_req(g.r, &m) }
                8 => {
                    // VER lists and SRV variants
                    let nver = g.r.below(7) as usize;
                    let mut ver = vec![];
                    for _ in 0..nver { ver.extend(*g.r.pick(&[VER13, [0, 0, 0, 0], [1, 0, 0, 0x80], [0x0b, 0, 0, 0x80]])); }
                    let nonce = g.r.bytes(32);
                    let s: Option<Vec<u8>> = match g.r.below(5) { 0 => None, 1 => Some(srv.clone()), 2 => Some(other_srv.clone()), 3 => Some(srv[..4 * g.r.below(8) as usize].to_vec()), _ => { let mut x = srv.clone(); x.extend(vec![0u8; 4]); Some(x) } };
                    ietf_request(&ver, s.as_deref(), &nonce, 1024)
                }
                _ => { let k = *g.r.pick(&[0usize, 4, 32, 60, 64, 68, 128]); let n = g.r.bytes(k); if g.r.chance(1, 2) { classic_request(&n, 1024) } else { ietf_request(&VER13, None, &n, 1024) } }
            };
            let use_srv = if g.r.chance(1, 8) { &other_srv } else { &srv };
            if d.len() > 65536 { continue; }
            let imp = classify(&mut buf, &d, use_srv);
            out.case("req", &[&hex(use_srv), &hex(&d)], &imp);
        }
    }
    // Grease::add_errors on response-shaped messages (fault decision forced by percentage 100 is not
    // allowed by the constructor's contract; add_errors itself is public and is called directly)
    for _ in 0..(if ctx.thorough { 6000 } else { 1500 }) {
        let mut grease = Grease::new(50);
        let mut m = RtMessage::with_capacity(6);
        let plen = 64 * r.below(4) as usize;
        m.add_field(Tag::SIG, &r.bytes(64)).unwrap();
        m.add_field(Tag::NONC, &r.bytes(64)).unwrap();
        m.add_field(Tag::PATH, &r.bytes(plen)).unwrap();
        m.add_field(Tag::SREP, &r.bytes(100)).unwrap();
        m.add_field(Tag::CERT, &r.bytes(152)).unwrap();
        m.add_field(Tag::INDX, &r.bytes(4)).unwrap();
        let orig = m.encode().unwrap();
        let imp = match guarded(|| grease.add_errors(&m).encode()) {
            None => "panic".to_string(),
            Some(Err(_)) => "err".to_string(),
            Some(Ok(e)) => hex(&e),
        };
        out.case("grease", &[&hex(&orig)], &imp);
    }
    out.flush();
}

pub fn replay_one(out: &mut Out, op: &str, args: &[&str]) {
    match op {
        "req" => {
            let mut buf = vec![0u8; 65536];
            let d = unhex(args[1]);
            let imp = classify(&mut buf, &d, &unhex(args[0]));
            out.case("req", args, &imp);
        }
        _ => {}
    }
}

//! Stream for C14: EnvelopeEncryption::{encrypt_seed, decrypt_seed} with harness KMS providers.
use crate::util::*;
use crate::Ctx;
use ring::digest;
use roughenough::kms::{EnvelopeEncryption, KmsError, KmsProvider};
use std::cell::RefCell;

#[derive(Clone)]
enum Kind {
    Xor(usize, Vec<u8>),
    Handle(usize, Vec<u8>),
    Id,
}

struct Provider {
    kind: Kind,
    wrap_fault: String,
    unwrap_fault: String,
    recorded: RefCell<Option<Vec<u8>>>,
}

impl Provider {
    fn desc(&self) -> String {
        match &self.kind {
            Kind::Xor(l, k) => format!("xor:{}:{}", l, hex(k)),
            Kind::Handle(l, s) => format!("handle:{}:{}", l, hex(s)),
            Kind::Id => "id".to_string(),
        }
    }
    fn base_wrap(&self, dek: &[u8]) -> Vec<u8> {
        match &self.kind {
            Kind::Xor(l, k) => {
                let mut w: Vec<u8> = dek.iter().zip(k.iter()).map(|(a, b)| a ^ b).collect();
                w.resize(*l, 0);
                w
            }
            Kind::Handle(l, s) => {
                let mut ctx = digest::Context::new(&digest::SHA512);
                ctx.update(s);
                ctx.update(dek);
                ctx.finish().as_ref()[..*l].to_vec()
            }
            Kind::Id => dek.to_vec(),
        }
    }
    fn base_unwrap(&self, w: &[u8]) -> Option<Vec<u8>> {
        match &self.kind {
            Kind::Xor(l, k) => {
                // a key-management service authenticates its ciphertext: the filler must be intact
                if w.len() != *l || w[32..].iter().any(|b| *b != 0) { return None; }
                Some(w[..32].iter().zip(k.iter()).map(|(a, b)| a ^ b).collect())
            }
            Kind::Handle(_, _) => {
                let rec = self.recorded.borrow().clone()?;
                if w == self.base_wrap(&rec).as_slice() { Some(rec) } else { None }
            }
            Kind::Id => Some(w.to_vec()),
        }
    }
}

impl KmsProvider for Provider {
    fn encrypt_dek(&self, plaintext_dek: &Vec<u8>) -> Result<Vec<u8>, KmsError> {
        *self.recorded.borrow_mut() = Some(plaintext_dek.clone());
        if self.wrap_fault == "err" {
            return Err(KmsError::OperationFailed("injected".into()));
        }
        Ok(self.base_wrap(plaintext_dek))
    }
    fn decrypt_dek(&self, encrypted_dek: &Vec<u8>) -> Result<Vec<u8>, KmsError> {
        let d = match self.unwrap_fault.as_str() {
            "err" => None,
            _ => self.base_unwrap(encrypted_dek),
        };
        let d = d.ok_or_else(|| KmsError::OperationFailed("unwrap failed".into()))?;
        Ok(match self.unwrap_fault.as_str() {
            "wrongkey" => d.iter().map(|b| b ^ 0x5a).collect(),
            "key16" => d[..16].to_vec(),
            "key33" => { let mut x = d.clone(); x.push(0); x }
            _ => d,
        })
    }
}

fn dec_str(p: &Provider, blob: &[u8]) -> String {
    match guarded(|| EnvelopeEncryption::decrypt_seed(p, blob)) {
        None => "panic".into(),
        Some(Ok(pt)) => format!("ok {}", hex(&pt)),
        Some(Err(_)) => "err".into(),
    }
}

fn one_provider(out: &mut Out, r: &mut Rng, kind: Kind, seed_len: usize, thorough: bool) {
    let seed = r.bytes(seed_len);
    let p = Provider { kind: kind.clone(), wrap_fault: "ok".into(), unwrap_fault: "ok".into(), recorded: RefCell::new(None) };
    let desc = p.desc();
    let enc = guarded(|| EnvelopeEncryption::encrypt_seed(&p, &seed));
    let blob = match enc {
        Some(Ok(b)) => b,
        Some(Err(_)) => { out.case("envenc", &[&desc, "ok", &hex(&seed)], "err"); return; }
        None => { out.case("envenc", &[&desc, "ok", &hex(&seed)], "panic"); return; }
    };
    let dek = p.recorded.borrow().clone().unwrap();
    out.case("envenc", &[&desc, "ok", &hex(&seed)], &format!("blob={} dek={}", hex(&blob), hex(&dek)));
    let mut dec_case = |out: &mut Out, uf: &str, kindname: &str, b: &[u8]| {
        let q = Provider { kind: kind.clone(), wrap_fault: "ok".into(), unwrap_fault: uf.into(), recorded: RefCell::new(Some(dek.clone())) };
        out.case("envdec", &[&desc, uf, &hex(&dek), &hex(&seed), &hex(&blob), kindname, &hex(b)], &dec_str(&q, b));
    };
    // unmodified
    dec_case(out, "ok", "same", &blob);
    // provider faults on the unwrap side
    for uf in ["err", "wrongkey", "key16", "key33"] {
        dec_case(out, uf, "same", &blob);
    }
    // every single-byte modification at every position (+1), and single-bit flips (all bits thorough, one random bit per byte quick)
    for i in 0..blob.len() {
        let mut b = blob.clone();
        b[i] = b[i].wrapping_add(1);
        dec_case(out, "ok", "byte", &b);
        let bits: Vec<u32> = if thorough { (0..8).collect() } else { vec![r.below(8) as u32] };
        for bit in bits {
            let mut b = blob.clone();
            b[i] ^= 1 << bit;
            dec_case(out, "ok", "bit", &b);
        }
    }
    // the four header bytes (two little-endian u16 length fields) at boundary values, alone and in pairs: lengths
    // whose sum leaves the u16 range, the blob length, zero (seeded change C14-r8: `dek_len + nonce_len` added as u16)
    for i in 0..4usize.min(blob.len()) {
        for v in [0u8, 1, 0x7f, 0x80, 0xf0, 0xfc, 0xfe, 0xff] {
            let mut b = blob.clone();
            b[i] = v;
            dec_case(out, "ok", "hdr", &b);
        }
    }
    if blob.len() >= 4 {
        for (a, c) in [(0xffu8, 0xffu8), (0xff, 0x00), (0x00, 0xff), (0x80, 0x80), (0xff, 0x01)] {
            let mut b = blob.clone();
            b[1] = a; b[3] = c;
            dec_case(out, "ok", "hdr", &b);
            let mut b = blob.clone();
            b[0] = 0xff; b[1] = a; b[2] = 0xff; b[3] = c;
            dec_case(out, "ok", "hdr", &b);
        }
    }
    // every truncation length, extensions by 1..=32 bytes
    for l in 0..blob.len() {
        dec_case(out, "ok", "trunc", &blob[..l]);
    }
    for e in 1..=32usize {
        let mut b = blob.clone();
        b.extend(r.bytes(e));
        dec_case(out, "ok", "extend", &b);
    }
    // wrap-side fault
    let pf = Provider { kind, wrap_fault: "err".into(), unwrap_fault: "ok".into(), recorded: RefCell::new(None) };
    let r2 = guarded(|| EnvelopeEncryption::encrypt_seed(&pf, &seed));
    let s = match r2 { Some(Ok(_)) => "blob=- dek=-".to_string(), Some(Err(_)) => "err".into(), None => "panic".into() };
    out.case("envenc", &[&desc, "err", &hex(&seed)], &s);
}

pub fn run(ctx: &Ctx) {
    quiet_panics();
    let mut out = Out::sharded(ctx.shard);
    let mut r = Rng::new(ctx.seed ^ 0xE14);
    let mut kinds: Vec<(Kind, usize)> = vec![];
    // wrapped-key lengths 16..=1024 (handle below 32 and at 48/64, xor-pad from 32 up), plaintexts 32..=64
    let wl: Vec<usize> = if ctx.thorough { vec![16, 17, 24, 31, 32, 33, 48, 64, 100, 255, 256, 512, 1024] } else { vec![16, 31, 32, 33, 64, 256, 1024] };
    for &l in &wl {
        let pl = *r.pick(&[32usize, 33, 48, 63, 64]);
        if l < 32 {
            kinds.push((Kind::Handle(l, r.bytes(8)), 32));
            kinds.push((Kind::Handle(l, r.bytes(8)), pl));
        } else {
            kinds.push((Kind::Xor(l, r.bytes(32)), pl));
            if l <= 64 {
                kinds.push((Kind::Handle(l, r.bytes(8)), 32));
            }
        }
    }
    kinds.push((Kind::Id, 32));
    kinds.push((Kind::Id, 64));
    for (k, pl) in kinds {
        one_provider(&mut out, &mut r, k, pl, ctx.thorough);
    }
    out.flush();
}

pub fn replay_one(out: &mut Out, op: &str, args: &[&str]) {
    let parse_kind = |d: &str| -> Kind {
        let p: Vec<&str> = d.split(':').collect();
        match p[0] {
            "xor" => Kind::Xor(p[1].parse().unwrap(), unhex(p[2])),
            "handle" => Kind::Handle(p[1].parse().unwrap(), unhex(p[2])),
            _ => Kind::Id,
        }
    };
    match op {
        "envdec" => {
            let q = Provider { kind: parse_kind(args[0]), wrap_fault: "ok".into(), unwrap_fault: args[1].into(), recorded: RefCell::new(Some(unhex(args[2]))) };
            let b = unhex(args[6]);
            out.case("envdec", args, &dec_str(&q, &b));
        }
        "envenc" => {
            // fresh randomness: a re-run, not a byte replay
            let p = Provider { kind: parse_kind(args[0]), wrap_fault: args[1].into(), unwrap_fault: "ok".into(), recorded: RefCell::new(None) };
            let seed = unhex(args[2]);
            let s = match guarded(|| EnvelopeEncryption::encrypt_seed(&p, &seed)) {
                Some(Ok(b)) => format!("blob={} dek={}", hex(&b), hex(&p.recorded.borrow().clone().unwrap())),
                Some(Err(_)) => "err".into(),
                None => "panic".into(),
            };
            out.case("envenc", args, &s);
        }
        _ => {}
    }
}

//! Stream for C04: op sequences on one real MerkleTree per case.
use crate::util::*;
use crate::Ctx;
use roughenough::merkle::MerkleTree;
use roughenough::version::Version;

struct Case {
    ver: Version,
    tree: MerkleTree,
    ops: Vec<String>,
    outs: Vec<String>,
    dead: bool,
    cur: Vec<Vec<u8>>, // leaves pushed since the last reset
    batches: usize,
}

impl Case {
    fn new(ver: Version) -> Self {
        Case { ver, tree: MerkleTree::new(ver), ops: vec![], outs: vec![], dead: false, cur: vec![], batches: 0 }
    }
    fn reset(&mut self) {
        if self.dead { return; }
        self.tree.reset();
        self.cur.clear();
        self.ops.push("reset".into());
    }
    fn push(&mut self, d: &[u8]) {
        if self.dead { return; }
        self.ops.push(format!("push {}", hex(d)));
        let t = &mut self.tree;
        if guarded(|| t.push_leaf(d)).is_none() {
            // (a push has no output of its own; a panicking one is reported in its place)
            self.outs.push("push=panic".into());
            self.dead = true;
            return;
        }
        self.cur.push(d.to_vec());
    }
    fn root(&mut self) -> Option<Vec<u8>> {
        if self.dead { return None; }
        self.ops.push("root".into());
        let t = &mut self.tree;
        match guarded(|| t.compute_root()) {
            Some(r) => {
                self.outs.push(format!("root={}", hex(&r)));
                Some(r)
            }
            None => {
                self.outs.push("root=panic".into());
                self.dead = true; // tree may be half-updated
                None
            }
        }
    }
    fn paths(&mut self, i: usize) -> Option<Vec<u8>> {
        if self.dead { return None; }
        self.ops.push(format!("paths {}", i));
        let t = &self.tree;
        match guarded(|| t.get_paths(i)) {
            Some(p) => {
                self.outs.push(format!("paths={}", hex(&p)));
                Some(p)
            }
            None => {
                self.outs.push("paths=panic".into());
                None
            }
        }
    }
    fn isempty(&mut self) {
        if self.dead { return; }
        self.ops.push("isempty".into());
        let t = &self.tree;
        match guarded(|| t.is_empty()) {
            Some(b) => self.outs.push(format!("isempty={}", b)),
            None => self.outs.push("isempty=panic".into()),
        }
    }
    fn verify(&mut self, i: usize, d: &[u8], p: &[u8]) {
        if self.dead { return; }
        self.ops.push(format!("verify {} {} {}", i, hex(d), hex(p)));
        let t = &self.tree;
        match guarded(|| t.root_from_paths(i, d, p)) {
            Some(r) => self.outs.push(format!("verify={}", hex(&r))),
            None => self.outs.push("verify=panic".into()),
        }
    }
    /// the same batch on a brand-new tree object
    fn fresh_tree(&self) -> Option<(MerkleTree, Vec<u8>)> {
        let ver = self.ver;
        let cur = self.cur.clone();
        guarded(move || {
            let mut t = MerkleTree::new(ver);
            for l in &cur {
                t.push_leaf(l);
            }
            let r = t.compute_root();
            (t, r)
        })
    }
    fn fresh(&mut self) {
        if self.dead { return; }
        self.ops.push("fresh".into());
        match self.fresh_tree() {
            Some((_, r)) => self.outs.push(format!("fresh={}", hex(&r))),
            None => self.outs.push("fresh=panic".into()),
        }
    }
    fn freshpaths(&mut self, i: usize) {
        if self.dead { return; }
        self.ops.push(format!("freshpaths {}", i));
        match self.fresh_tree().and_then(|(t, _)| guarded(move || t.get_paths(i))) {
            Some(p) => self.outs.push(format!("freshpaths={}", hex(&p))),
            None => self.outs.push("freshpaths=panic".into()),
        }
    }
    fn emit(self, out: &mut Out) {
        let v = if self.ver == Version::Google { "G" } else { "I" };
        let outs = if self.outs.is_empty() { "-".to_string() } else { self.outs.join(";") };
        out.case("merkle", &[v, &self.ops.join(";")], &outs);
    }
}

fn node_len(v: Version) -> usize {
    if v == Version::Google { 64 } else { 32 }
}

fn gen_leaves(r: &mut Rng, n: usize, style: u64) -> Vec<Vec<u8>> {
    (0..n)
        .map(|i| match style {
            0 => vec![i as u8],                               // distinct, 1 byte
            1 => { let mut v = r.bytes(7); v.push(i as u8); v } // distinct, 8 bytes
            2 => vec![],                                       // all empty (equal)
            3 => vec![(i % 3) as u8],                          // many equal
            4 => { let k = r.range(0, 1500) as usize; let mut v = r.bytes(k); v.extend((i as u16).to_le_bytes()); v }
            _ => if i == 0 { vec![] } else { vec![0; i] },     // includes the empty leaf, distinct
        })
        .collect()
}

/// one batch on `c`: pushes, root, then for selected positions the genuine path (positive verify)
/// and a family of negative verifies.
fn batch(c: &mut Case, r: &mut Rng, leaves: &[Vec<u8>], positions: &[usize], negatives: bool) {
    c.isempty();
    for l in leaves {
        c.push(l);
    }
    c.isempty();
    if c.root().is_none() {
        return;
    }
    c.isempty();
    c.batches += 1;
    let reused = c.batches > 1;
    if reused {
        c.fresh();
    }
    let n = leaves.len();
    let nl = node_len(c.ver);
    for &i in positions {
        let p = match c.paths(i) {
            Some(p) => p,
            None => continue,
        };
        if reused {
            c.freshpaths(i);
        }
        if i < n {
            c.verify(i, &leaves[i], &p);
        }
        if !negatives || i >= n {
            continue;
        }
        // wrong leaf
        let mut wrong = leaves[i].clone();
        wrong.push(0xaa);
        c.verify(i, &wrong, &p);
        if n > 1 {
            // other in-range index, same leaf and path
            let j = (i + 1 + r.below((n - 1) as u64) as usize) % n;
            c.verify(j, &leaves[i], &p);
            // other leaf of the batch at this index
            c.verify(i, &leaves[j], &p);
        }
        let k = p.len() / nl;
        if k > 0 {
            let e = r.below(k as u64) as usize;
            // changed element
            let mut q = p.clone();
            q[e * nl + r.below(nl as u64) as usize] ^= 1 << r.below(8);
            c.verify(i, &leaves[i], &q);
            // removed element
            let mut q = p.clone();
            q.drain(e * nl..(e + 1) * nl);
            c.verify(i, &leaves[i], &q);
            // duplicated element
            let mut q = p.clone();
            let dup: Vec<u8> = p[e * nl..(e + 1) * nl].to_vec();
            q.splice(e * nl..e * nl, dup);
            c.verify(i, &leaves[i], &q);
        }
        // added element
        let mut q = p.clone();
        q.extend(r.bytes(nl));
        c.verify(i, &leaves[i], &q);
        // index with extra high bits (ignored by the verifier beyond the path length)
        if r.chance(1, 4) {
            c.verify(i + (1usize << (k + r.below(3) as usize)), &leaves[i], &p);
        }
    }
}

pub fn run(ctx: &Ctx) {
    quiet_panics();
    let mut out = Out::new();
    let mut r = Rng::new(ctx.seed ^ 0x4d45524b);
    let versions = [Version::Google, Version::RfcDraft13];
    let (shard, nshards) = ctx.shard;
    let mut counter = 0u64;
    let mut mine = |counter: &mut u64| -> bool {
        *counter += 1;
        *counter % nshards == shard
    };

    // (a) every n, every position, fresh tree
    let max_n = if ctx.thorough { 255 } else { 64 };
    for n in 1..=max_n {
        for &v in &versions {
            if !mine(&mut counter) { continue; }
            let style = if n % 5 == 0 { 5 } else if n % 7 == 0 { 4 } else if n % 2 == 0 { 0 } else { 1 };
            let leaves = gen_leaves(&mut r, n, style);
            let positions: Vec<usize> = (0..n).collect();
            let mut c = Case::new(v);
            batch(&mut c, &mut r, &leaves, &positions, n <= 16 || n % 9 == 0);
            c.emit(&mut out);
        }
    }
    // equal / empty leaves
    for n in [1usize, 2, 3, 4, 5, 8, 9, 17, 33, 64] {
        for &v in &versions {
            for style in [2u64, 3] {
                if !mine(&mut counter) { continue; }
                let leaves = gen_leaves(&mut r, n, style);
                let positions: Vec<usize> = (0..n).collect();
                let mut c = Case::new(v);
                batch(&mut c, &mut r, &leaves, &positions, false);
                c.emit(&mut out);
            }
        }
    }

    // (b) ordered pairs of batch sizes back to back on one reused tree
    let pairs: Vec<(usize, usize)> = if ctx.thorough {
        let mut v = vec![];
        for a in 1..=64 { for b in 1..=64 { v.push((a, b)); } }
        v
    } else {
        let mut v: Vec<(usize, usize)> = vec![(1, 1), (1, 2), (2, 1), (64, 1), (1, 64), (64, 64), (3, 2), (2, 3), (5, 4), (33, 32), (32, 33), (8, 7), (7, 8), (17, 3)];
        for _ in 0..200 { v.push((r.range(1, 64) as usize, r.range(1, 64) as usize)); }
        v
    };
    for (a, b) in pairs {
        if !mine(&mut counter) { continue; }
        let v = if r.chance(1, 2) { Version::Google } else { Version::RfcDraft13 };
        let mut c = Case::new(v);
        for n in [a, b] {
            c.reset();
            let leaves = gen_leaves(&mut r, n, 0);
            let mut positions: Vec<usize> = vec![0, n - 1, n / 2];
            if ctx.thorough || n <= 8 { positions = (0..n).collect(); }
            positions.dedup();
            batch(&mut c, &mut r, &leaves, &positions, false);
        }
        c.emit(&mut out);
    }

    // (c) longer histories of random sizes on one tree
    let n_hist = if ctx.thorough { 2000 } else { 150 };
    for _ in 0..n_hist {
        if !mine(&mut counter) { continue; }
        let v = *r.pick(&versions);
        let mut c = Case::new(v);
        let len = r.range(3, if ctx.thorough { 12 } else { 6 });
        for _ in 0..len {
            c.reset();
            let n = match r.below(6) { 0 => 1, 1 => r.range(1, 4), 2 => 64, 3 => r.range(60, 70), _ => r.range(1, 40) } as usize;
            let style = r.below(2);
            let leaves = gen_leaves(&mut r, n, style);
            let positions: Vec<usize> = vec![0, n - 1, r.below(n as u64) as usize];
            let neg = r.chance(1, 3);
            batch(&mut c, &mut r, &leaves, &positions, neg);
        }
        c.emit(&mut out);
    }

    // (e) every leaf LENGTH 0..=300 and around 1 KiB / 1500 (three consecutive lengths per batch, random bytes): the
    // tree hashes "arbitrary leaf bytes" (seeded change C04-r10: a stack buffer for short inputs panicked for a
    // 129-byte leaf only)
    {
        let mut lens: Vec<usize> = (0..=300).step_by(3).collect();
        lens.extend([1020usize, 1023, 1498]);
        for (k, &l0) in lens.iter().enumerate() {
            if k as u64 % nshards != shard { continue; }
            for &v in &versions {
                let leaves: Vec<Vec<u8>> = (0..3).map(|j| r.bytes(l0 + j)).collect();
                let mut c = Case::new(v);
                batch(&mut c, &mut r, &leaves, &[0, 1, 2], false);
                c.emit(&mut out);
            }
        }
    }
    // (d) misuse sequences (outside the property; they validate the model's panic/in-place semantics)
    if shard == 0 {
        for &v in &versions {
            let mut c = Case::new(v); c.root(); c.emit(&mut out);                       // root on empty
            let mut c = Case::new(v); c.push(&[1]); c.push(&[2]); c.root(); c.paths(2); c.paths(7); c.emit(&mut out); // paths past the end
            let mut c = Case::new(v); c.push(&[1]); c.root(); c.root(); c.emit(&mut out);   // root twice (1 leaf → empty → panic)
            let mut c = Case::new(v); c.push(&[1]); c.push(&[2]); c.push(&[3]); c.root(); c.push(&[4]); c.root(); c.paths(0); c.emit(&mut out); // push after root, no reset
            let mut c = Case::new(v); c.push(&[1]); c.push(&[2]); c.paths(0); c.emit(&mut out);   // paths before root
            let mut c = Case::new(v); c.push(&[9]); c.root(); c.verify(0, &[9], &[1, 2, 3]); c.emit(&mut out); // ragged path → assert
        }
    }
    out.flush();
}

pub fn replay_one(out: &mut Out, args: &[&str]) {
    let ver = if args[0] == "G" { Version::Google } else { Version::RfcDraft13 };
    let mut c = Case::new(ver);
    for op in args[1].split(';') {
        let p: Vec<&str> = op.split(' ').collect();
        match p[0] {
            "reset" => c.reset(),
            "push" => c.push(&unhex(p[1])),
            "root" => { c.root(); }
            "paths" => { c.paths(p[1].parse().unwrap()); }
            "verify" => c.verify(p[1].parse().unwrap(), &unhex(p[2]), &unhex(p[3])),
            "fresh" => c.fresh(),
            "freshpaths" => c.freshpaths(p[1].parse().unwrap()),
            _ => {}
        }
    }
    c.emit(out);
}

//! Function-level stream for C17's "recorded totals equal what was actually sent" clause under
//! FAILING sends: `Responder::send_responses` driven directly on a real IPv4 socket with a queue of
//! requests some of whose return addresses cannot be sent to (IPv6 addresses: `send_to` fails with
//! EAFNOSUPPORT), and real recorders. What was actually sent is what the harness's receiver sockets
//! (127.0.0.1, 127.0.0.2, 127.0.0.3) got.
use crate::rig::*;
use crate::util::*;
use crate::Ctx;
use roughenough::config::MemoryConfig;
use roughenough::key::LongTermKey;
use roughenough::responder::Responder;
use roughenough::stats::{AggregatedStats, PerClientStats, ServerStats};
use roughenough::version::Version;
use std::net::{IpAddr, Ipv4Addr, Ipv6Addr, SocketAddr, UdpSocket};
use std::time::Duration;

/// address ids: 1..=3 reachable (127.0.0.id : the receiver's port); 51..=53 the SAME IP addresses with UDP port 0
/// (`send_to` fails with EINVAL — failed and successful sends for one client address); >= 100 unreachable from
/// an IPv4 socket (::id, `send_to` fails with EAFNOSUPPORT)
fn ip_of(id: u16) -> IpAddr {
    if id < 50 { IpAddr::V4(Ipv4Addr::new(127, 0, 0, id as u8)) } else if id < 100 { IpAddr::V4(Ipv4Addr::new(127, 0, 0, (id - 50) as u8)) } else { IpAddr::V6(Ipv6Addr::new(0, 0, 0, 0, 0, 0, 0, id)) }
}
fn id_of(ip: &IpAddr) -> u16 {
    match ip {
        IpAddr::V4(v) => v.octets()[3] as u16,
        IpAddr::V6(v) => v.segments()[7],
    }
}

struct Entry {
    addr: u16,
    nonce: Vec<u8>,
    request: Vec<u8>, // IETF: the whole datagram; classic: empty
}

/// `prelude`: a batch answered by the SAME responder before the measured one (its datagrams are drained and its
/// statistics go to a throw-away recorder): what the responder keeps between batches must not matter
fn one(out: &mut Out, ver: char, per_client: bool, seed: &[u8], entries: Vec<Entry>, prelude: Vec<Entry>) {
    if !out.mine() {
        out.skip();
        return;
    }
    let fmt = |v: &Vec<Entry>| if v.is_empty() { "~".to_string() } else { v.iter().map(|e| format!("{}:{}:{}", e.addr, hex(&e.nonce), if e.request.is_empty() { "-".to_string() } else { hex(&e.request) })).collect::<Vec<_>>().join(";") };
    let es = fmt(&entries);
    let ps = fmt(&prelude);
    let seed_v = seed.to_vec();
    let imp = on_named_thread("worker-0", move || {
        let receivers: Vec<UdpSocket> = (1..=3u8).map(|k| {
            let s = UdpSocket::bind(SocketAddr::new(IpAddr::V4(Ipv4Addr::new(127, 0, 0, k)), 0)).expect("bind receiver");
            s.set_read_timeout(Some(Duration::from_millis(30))).unwrap();
            s
        }).collect();
        let sender_port_cell = std::cell::Cell::new(0u16);
        let r = guarded(|| {
            let mut mc = MemoryConfig::new(0);
            mc.seed = seed_v.clone();
            mc.fault_percentage = 0;
            let mut ltk = LongTermKey::new(&seed_v);
            let version = if ver == 'I' { Version::RfcDraft13 } else { Version::Google };
            let mut resp = Responder::new(version, &mc, &mut ltk);
            let mut sock = mio::net::UdpSocket::bind(&"0.0.0.0:0".parse().unwrap()).expect("bind");
            sender_port_cell.set(sock.local_addr().unwrap().port());
            let addr_of = |e: &Entry| if e.addr < 50 { receivers[e.addr as usize - 1].local_addr().unwrap() } else if e.addr < 100 { SocketAddr::new(ip_of(e.addr), 0) } else { SocketAddr::new(ip_of(e.addr), 4000 + e.addr) };
            if !prelude.is_empty() {
                for e in &prelude {
                    let a = addr_of(e);
                    if ver == 'I' { resp.add_ietf_request(&e.request, e.nonce.clone(), a); } else { resp.add_classic_request(e.nonce.clone(), a); }
                }
                let mut throwaway: Box<dyn ServerStats> = Box::new(AggregatedStats::new());
                resp.send_responses(&mut sock, &mut throwaway);
                resp.reset(); // as Server::collect_requests does before it queues the next batch
                let mut buf = [0u8; 8192];
                for s in receivers.iter() { while recv_from_port(s, &mut buf, sender_port_cell.get()).is_ok() {} }
            }
            for e in &entries {
                let a = if e.addr < 50 { receivers[e.addr as usize - 1].local_addr().unwrap() } else if e.addr < 100 { SocketAddr::new(ip_of(e.addr), 0) } else { SocketAddr::new(ip_of(e.addr), 4000 + e.addr) };
                if ver == 'I' { resp.add_ietf_request(&e.request, e.nonce.clone(), a); } else { resp.add_classic_request(e.nonce.clone(), a); }
            }
            let mut stats: Box<dyn ServerStats> = if per_client { Box::new(PerClientStats::new()) } else { Box::new(AggregatedStats::new()) };
            resp.send_responses(&mut sock, &mut stats);
            let tot = format!("{},{},{},{},{}", stats.total_responses_sent(), stats.num_rfc_responses_sent(), stats.num_classic_responses_sent(),
                stats.total_bytes_sent(), stats.total_failed_send_attempts());
            let mut per: Vec<String> = stats.iter().map(|(ip, c)| format!("{}:{},{},{},{}", id_of(ip), c.rfc_responses_sent, c.classic_responses_sent, c.bytes_sent, c.failed_send_attempts)).collect();
            per.sort();
            (tot, per)
        });
        // what actually arrived (from the responder's socket: see util::recv_from_port)
        let sender_port = sender_port_cell.get();
        let mut recv: Vec<String> = vec![];
        let mut dgs: Vec<String> = vec![];
        for (k, s) in receivers.iter().enumerate() {
            let mut buf = [0u8; 8192];
            while let Ok((n, _)) = recv_from_port(s, &mut buf, sender_port) {
                recv.push(format!("{}:{}", k + 1, n));
                dgs.push(format!("{}:{}", k + 1, hex(&buf[..n])));
            }
        }
        recv.sort();
        let dgs = if dgs.is_empty() { "-".to_string() } else { dgs.join(",") };
        match r {
            None => format!("panic=1 recv={} dg={}", if recv.is_empty() { "-".into() } else { recv.join(",") }, dgs),
            Some((tot, per)) => format!("panic=0 tot={} per={} recv={} dg={}", tot, if per.is_empty() { "-".into() } else { per.join("|") }, if recv.is_empty() { "-".into() } else { recv.join(",") }, dgs),
        }
    });
    out.case("respsend", &[&ver.to_string(), if per_client { "pc" } else { "agg" }, &hex(seed), &es, &ps], &imp);
}

pub fn run(ctx: &Ctx) {
    quiet_panics();
    let mut out = Out::sharded(ctx.shard);
    let mut r = Rng::new(ctx.seed ^ 0x5245_5350);
    let seed = r.bytes(32);
    let n_cases = if ctx.thorough { 160 } else { 40 };
    for k in 0..n_cases {
        let ver = if k % 2 == 0 { 'G' } else { 'I' };
        let per_client = k % 4 < 2;
        let n = match k % 5 { 0 => 1, 1 => 2, 2 => 3, 3 => r.range(4, 9) as usize, _ => r.range(9, 20) as usize };
        // failure patterns: none, first only, last only, middle, all, random
        let pat: Vec<bool> = (0..n).map(|i| match (k / 5) % 6 {
            0 => true,
            1 => i != 0,
            2 => i + 1 != n,
            3 => i != n / 2,
            4 => false,
            _ => r.chance(2, 3),
        }).collect();
        let mut mk = |r: &mut Rng, ok: bool| {
            let addr = if ok { r.range(1, 3) as u16 } else if r.chance(1, 2) { 100 + r.below(3) as u16 } else { 51 + r.below(3) as u16 };
            if ver == 'I' {
                let nonce = r.bytes(32);
                let request = ietf_request(&VER13, None, &nonce, 1024);
                Entry { addr, nonce, request }
            } else {
                Entry { addr, nonce: r.bytes(64), request: vec![] }
            }
        };
        let entries: Vec<Entry> = pat.iter().map(|&ok| mk(&mut r, ok)).collect();
        // every third case: an earlier batch through the same responder (deeper or shallower tree than the measured one;
        // none / some / all of its sends failing)
        let prelude: Vec<Entry> = if k % 3 == 2 {
            let pn = *r.pick(&[1usize, 2, 3, 5, 9, 17]);
            let mode = (k / 3) % 3;
            (0..pn).map(|i| { let ok = match mode { 0 => true, 1 => i % 2 == 0, _ => false }; mk(&mut r, ok) }).collect()
        } else { vec![] };
        one(&mut out, ver, per_client, &seed, entries, prelude);
    }
    // what a responder keeps between batches: an earlier batch (every send fine / every other failing / all failing;
    // 1, 2 or 5 requests) followed, after reset(), by a batch whose return addresses can all be sent to
    for ver in ['G', 'I'] {
        for per_client in [false, true] {
            for mode in 0..3usize {
                for (j, pn) in [1usize, 2, 5].into_iter().enumerate() {
                    let mut mk = |r: &mut Rng, ok: bool| {
                        let addr = if ok { r.range(1, 3) as u16 } else if r.chance(1, 2) { 100 + r.below(3) as u16 } else { 51 + r.below(3) as u16 };
                        if ver == 'I' {
                            let nonce = r.bytes(32);
                            let request = ietf_request(&VER13, None, &nonce, 1024);
                            Entry { addr, nonce, request }
                        } else {
                            Entry { addr, nonce: r.bytes(64), request: vec![] }
                        }
                    };
                    let prelude: Vec<Entry> = (0..pn).map(|i| { let ok = match mode { 0 => true, 1 => i % 2 == 1, _ => false }; mk(&mut r, ok) }).collect();
                    let entries: Vec<Entry> = (0..[1usize, 3, 2][j]).map(|_| mk(&mut r, true)).collect();
                    one(&mut out, ver, per_client, &seed, entries, prelude);
                }
            }
        }
    }
    out.flush();
}

pub fn replay_one(out: &mut Out, args: &[&str]) {
    quiet_panics();
    let ver = args[0].chars().next().unwrap();
    let per_client = args[1] == "pc";
    let seed = unhex(args[2]);
    let parse = |a: &str| -> Vec<Entry> { if a == "~" || a.is_empty() { vec![] } else {
        a.split(';').map(|e| {
            let p: Vec<&str> = e.split(':').collect();
            Entry { addr: p[0].parse().unwrap(), nonce: unhex(p[1]), request: if p[2] == "-" { vec![] } else { unhex(p[2]) } }
        }).collect()
    } };
    let entries = parse(args[3]);
    let prelude = if args.len() > 4 { parse(args[4]) } else { vec![] };
    one(out, ver, per_client, &seed, entries, prelude);
}

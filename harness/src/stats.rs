//! Stream for C17: histories of recording operations on the real recorders, and snapshot merging
//! through a real StatsQueue into the Reporter.
use crate::util::*;
use crate::Ctx;
use roughenough::stats::{AggregatedStats, ClientStats, PerClientStats, Reporter, ServerStats, StatsQueue};
use roughenough::Error;
use std::net::{IpAddr, Ipv4Addr};
use std::sync::Arc;
use std::time::Duration;

/// address ids are spread over the three kinds of client address a dual-stack server sees: IPv4, IPv6 and IPv4-mapped
/// IPv6 (`::ffff:a.b.c.d`) — distinct `IpAddr` values must stay distinct clients (seeded change C17-r10 keyed the
/// reporter's table by `to_canonical()` while `merge` compares the raw addresses)
fn ip(a: u8) -> IpAddr {
    match a % 3 {
        0 => IpAddr::V4(Ipv4Addr::new(10, 0, 0, a)),
        1 => IpAddr::V6(std::net::Ipv6Addr::new(0x2001, 0xdb8, 0, 0, 0, 0, 0, a as u16)),
        _ => IpAddr::V6(Ipv4Addr::new(10, 0, 1, a).to_ipv6_mapped()),
    }
}
fn addr_of(ip: &IpAddr) -> u8 {
    match ip {
        IpAddr::V4(v) => v.octets()[3],
        IpAddr::V6(v) => v.octets()[15],
    }
}

#[derive(Clone)]
pub enum Op {
    Ev(char, u8, usize), // kind letter, address, bytes
    Clear,
    Snap, // (reporter cases) take a snapshot of this recorder, push it to the queue, clear
}

fn op_str(o: &Op) -> String {
    match o {
        Op::Ev(k, a, b) if *k == 'r' || *k == 'k' => format!("{} {} {}", k, a, b),
        Op::Ev(k, a, _) => format!("{} {}", k, a),
        Op::Clear => "clear".into(),
        Op::Snap => "snap".into(),
    }
}

fn apply(s: &mut dyn ServerStats, o: &Op) {
    if let Op::Ev(k, a, b) = o {
        let addr = ip(*a);
        match k {
            'i' => s.add_ietf_request(&addr),
            'c' => s.add_classic_request(&addr),
            'x' => s.add_invalid_request(&addr, &Error::InvalidRequest),
            'f' => s.add_failed_send_attempt(&addr),
            't' => s.add_retried_send_attempt(&addr),
            'h' => s.add_health_check(&addr),
            'r' => s.add_rfc_response(&addr, *b),
            'k' => s.add_classic_response(&addr, *b),
            _ => {}
        }
    } else if let Op::Clear = o {
        s.clear();
    }
}

fn cs_str(c: &ClientStats) -> String {
    format!(
        "{}:{},{},{},{},{},{},{},{},{}",
        addr_of(&c.ip_addr), c.rfc_requests, c.classic_requests, c.invalid_requests, c.health_checks,
        c.rfc_responses_sent, c.classic_responses_sent, c.bytes_sent, c.failed_send_attempts, c.retried_send_attempts
    )
}

fn getters(s: &dyn ServerStats) -> String {
    let mut per: Vec<(u8, String)> = s.iter().map(|(ip, c)| (addr_of(ip), cs_str(c))).collect();
    per.sort();
    // stats_for_client must agree with iter
    for a in 0..4u8 {
        let by_get = s.stats_for_client(&ip(a)).map(|c| cs_str(c));
        let by_iter = per.iter().find(|(x, _)| *x == a).map(|(_, s)| s.clone());
        if by_get != by_iter {
            return "inconsistent-getters".to_string();
        }
    }
    format!(
        "tot={},{},{},{},{},{},{},{},{},{},{},{} per={}",
        s.total_valid_requests(), s.num_rfc_requests(), s.num_classic_requests(), s.total_invalid_requests(),
        s.total_health_checks(), s.total_failed_send_attempts(), s.total_retried_send_attempts(),
        s.total_responses_sent(), s.num_rfc_responses_sent(), s.num_classic_responses_sent(),
        s.total_bytes_sent(), s.total_unique_clients(),
        if per.is_empty() { "-".to_string() } else { per.iter().map(|(_, s)| s.clone()).collect::<Vec<_>>().join(";") }
    )
}

/// `stats <per|agg> <limit> <ops>`: impl = getters after the history (+ overflow count for per)
fn stats_case(out: &mut Out, per: bool, limit: usize, ops: &[Op]) {
    if !out.mine() {
        out.skip();
        return;
    }
    let ops_s = if ops.is_empty() { "-".to_string() } else { ops.iter().map(op_str).collect::<Vec<_>>().join(";") };
    let imp = guarded(|| {
        if per {
            let mut s = PerClientStats::with_limit_verif(limit);
            for o in ops {
                apply(&mut s, o);
            }
            format!("{} ovf={}", getters(&s), s.num_overflows())
        } else {
            let mut s = AggregatedStats::new();
            for o in ops {
                apply(&mut s, o);
            }
            format!("{} ovf=0", getters(&s))
        }
    });
    out.case("stats", &[if per { "per" } else { "agg" }, &limit.to_string(), &ops_s], &imp.unwrap_or_else(|| "panic".into()));
}

/// `rep <nworkers> <limit> <ops with worker prefix>`: events are split across workers; `snap` ops
/// push a worker's snapshot (as Server::send_client_stats does) through a real StatsQueue; at the
/// end the Reporter receives everything. impl = merged per-address counters.
fn rep_case(out: &mut Out, nworkers: usize, limit: usize, ops: &[(usize, Op)]) {
    if !out.mine() {
        out.skip();
        return;
    }
    let ops_s = ops.iter().map(|(w, o)| format!("{}:{}", w, op_str(o))).collect::<Vec<_>>().join(";");
    let imp = guarded(|| {
        let nsnaps = ops.iter().filter(|(_, o)| matches!(o, Op::Snap)).count() + nworkers;
        let queue = Arc::new(StatsQueue::new(nsnaps.max(1)));
        let mut workers: Vec<PerClientStats> = (0..nworkers).map(|_| PerClientStats::with_limit_verif(limit)).collect();
        let mut push = |w: &mut PerClientStats, queue: &Arc<StatsQueue>| {
            // exactly what Server::send_client_stats does
            let clients: Vec<ClientStats> = w.iter().map(|(_, s)| *s).collect();
            if !clients.is_empty() {
                queue.force_push(clients);
                w.clear();
            }
        };
        for (w, o) in ops {
            match o {
                Op::Snap => push(&mut workers[*w], &queue),
                _ => apply(&mut workers[*w], o),
            }
        }
        for w in workers.iter_mut() {
            push(w, &queue);
        }
        let mut rep = Reporter::new(queue.clone(), &Duration::from_secs(3600), None);
        rep.receive_client_stats();
        let mut merged: Vec<(u8, String)> = rep.client_stats_verif().iter().map(|c| (addr_of(&c.ip_addr), cs_str(c))).collect();
        merged.sort();
        if merged.is_empty() { "-".to_string() } else { merged.iter().map(|(_, s)| s.clone()).collect::<Vec<_>>().join(";") }
    });
    out.case("rep", &[&nworkers.to_string(), &limit.to_string(), &ops_s], &imp.unwrap_or_else(|| "panic".into()));
}

const KINDS: [char; 8] = ['i', 'c', 'x', 'f', 't', 'h', 'r', 'k'];

pub fn run(ctx: &Ctx) {
    quiet_panics();
    let mut out = Out::sharded(ctx.shard);
    let mut r = Rng::new(ctx.seed ^ 0x53544154);
    // bounded-exhaustive: 8 kinds x 3 addresses (24 symbols) to length L, limits 0..3, per-client; aggregated once
    let max_len = if ctx.thorough { 4 } else { 3 };
    let symbols: Vec<Op> = KINDS.iter().flat_map(|&k| (0..3u8).map(move |a| Op::Ev(k, a, if k == 'r' { 360 } else if k == 'k' { 432 } else { 0 }))).collect();
    for len in 0..=max_len {
        let total = (symbols.len() as u64).pow(len as u32);
        for code in 0..total {
            let mut c = code;
            let mut ops = vec![];
            for _ in 0..len {
                ops.push(symbols[(c % 24) as usize].clone());
                c /= 24;
            }
            for limit in 0..=3usize {
                stats_case(&mut out, true, limit, &ops);
            }
            stats_case(&mut out, false, 0, &ops);
        }
    }
    // random long histories with clears
    for h in 0..(if ctx.thorough { 400 } else { 60 }) {
        let len = match h % 6 { 0 => 10000, 1 => 1000, _ => r.range(5, 200) as usize };
        let naddr = r.range(1, 4) as u8;
        let mut ops = vec![];
        for _ in 0..len {
            if r.chance(1, 200) {
                ops.push(Op::Clear);
            } else {
                let k = *r.pick(&KINDS);
                let b = if k == 'r' || k == 'k' { r.range(300, 1000) as usize } else { 0 };
                ops.push(Op::Ev(k, r.below(naddr as u64) as u8, b));
            }
        }
        let limit = r.range(0, 5) as usize;
        stats_case(&mut out, true, limit, &ops);
        stats_case(&mut out, false, 0, &ops);
    }
    // reporter merging: splits across 1..=4 workers with snapshot points
    for _ in 0..(if ctx.thorough { 1500 } else { 200 }) {
        let nworkers = r.range(1, 4) as usize;
        let len = r.range(1, 60) as usize;
        let limit = if r.chance(1, 4) { r.range(1, 3) as usize } else { 100 };
        let mut ops = vec![];
        for _ in 0..len {
            let w = r.below(nworkers as u64) as usize;
            if r.chance(1, 8) {
                ops.push((w, Op::Snap));
            } else {
                let k = *r.pick(&KINDS);
                let b = if k == 'r' || k == 'k' { r.range(300, 1000) as usize } else { 0 };
                ops.push((w, Op::Ev(k, r.below(4) as u8, b)));
            }
        }
        rep_case(&mut out, nworkers, limit, &ops);
    }
    out.flush();
}

fn parse_op(s: &str) -> Op {
    let p: Vec<&str> = s.split(' ').collect();
    match p[0] {
        "clear" => Op::Clear,
        "snap" => Op::Snap,
        k => Op::Ev(k.chars().next().unwrap(), p[1].parse().unwrap(), p.get(2).map(|x| x.parse().unwrap()).unwrap_or(0)),
    }
}

pub fn replay_one(out: &mut Out, op: &str, args: &[&str]) {
    match op {
        "stats" => {
            let ops: Vec<Op> = if args[2] == "-" { vec![] } else { args[2].split(';').map(parse_op).collect() };
            stats_case(out, args[0] == "per", args[1].parse().unwrap(), &ops);
        }
        "rep" => {
            let ops: Vec<(usize, Op)> = args[2].split(';').map(|x| { let (w, o) = x.split_once(':').unwrap(); (w.parse().unwrap(), parse_op(o)) }).collect();
            rep_case(out, args[0].parse().unwrap(), args[1].parse().unwrap(), &ops);
        }
        _ => {}
    }
}

//! In-process server rig: a real `roughenough::server::Server` on a loopback mio socket, driven
//! through `process_events()` from the calling (named) thread, with a capturing logger.
use crate::util::*;
use mio::net::UdpSocket as MioUdp;
use mio::Events;
use roughenough::config::MemoryConfig;
use roughenough::key::KmsProtection;
use roughenough::server::Server;
use roughenough::stats::StatsQueue;
use std::net::{SocketAddr, UdpSocket};
use std::os::unix::io::AsRawFd;
use std::sync::{Arc, Mutex};
use std::time::{Duration, SystemTime, UNIX_EPOCH};

// ---------------------------------------------------------------------------------------------
// capturing logger: formats every record (so lazily evaluated arguments are evaluated)

pub struct CapLogger {
    pub records: Mutex<Vec<String>>,
    pub keep: Mutex<bool>,
}

pub struct LoggerHandle;
static LOGGER_CELL: CapLogger = CapLogger { records: Mutex::new(Vec::new()), keep: Mutex::new(false) };
pub static LOGGER: LoggerHandle = LoggerHandle;
impl LoggerHandle {
    pub fn get(&self) -> &'static CapLogger {
        &LOGGER_CELL
    }
}

/// a slow log sink (a stalling disk, a blocked pipe): every `STALL_EVERY`-th record takes `STALL_MS` ms to write.
/// Seeded change C18-r6 panicked in `service_socket` when a call took longer than a wall-clock budget.
static STALL_EVERY: std::sync::atomic::AtomicU64 = std::sync::atomic::AtomicU64::new(0);
static STALL_MS: std::sync::atomic::AtomicU64 = std::sync::atomic::AtomicU64::new(0);
static STALL_COUNT: std::sync::atomic::AtomicU64 = std::sync::atomic::AtomicU64::new(0);
pub fn set_stall(every: u64, ms: u64) {
    use std::sync::atomic::Ordering::SeqCst;
    STALL_EVERY.store(every, SeqCst);
    STALL_MS.store(ms, SeqCst);
    STALL_COUNT.store(0, SeqCst);
}

impl log::Log for CapLogger {
    fn enabled(&self, _: &log::Metadata) -> bool {
        true
    }
    fn log(&self, record: &log::Record) {
        use std::sync::atomic::Ordering::SeqCst;
        let every = STALL_EVERY.load(SeqCst);
        if every > 0 && (STALL_COUNT.fetch_add(1, SeqCst) + 1) % every == 0 {
            std::thread::sleep(Duration::from_millis(STALL_MS.load(SeqCst)));
        }
        let s = format!("{} {} {}", record.level(), record.target(), record.args());
        if *self.keep.lock().unwrap() {
            self.records.lock().unwrap().push(s);
        }
    }
    fn flush(&self) {}
}

pub fn install_logger() {
    let _ = log::set_logger(LOGGER.get());
    log::set_max_level(log::LevelFilter::Off);
}

pub fn set_level(level: &str) {
    let l = match level {
        "off" => log::LevelFilter::Off,
        "error" => log::LevelFilter::Error,
        "warn" => log::LevelFilter::Warn,
        "info" => log::LevelFilter::Info,
        "debug" => log::LevelFilter::Debug,
        "trace" => log::LevelFilter::Trace,
        _ => panic!("level"),
    };
    log::set_max_level(l);
}

pub fn capture(on: bool) {
    *LOGGER.get().keep.lock().unwrap() = on;
    if on {
        LOGGER.get().records.lock().unwrap().clear();
    }
}

pub fn take_records() -> Vec<String> {
    std::mem::take(&mut *LOGGER.get().records.lock().unwrap())
}

// ---------------------------------------------------------------------------------------------

#[derive(Clone)]
pub struct RigCfg {
    pub seed: Vec<u8>,
    pub batch: u8,
    pub fault: u8,
    pub per_client: bool,
    pub level: String,
    /// status_interval in seconds (None = the default 600 s: the statistics timer never fires in a scenario)
    pub status: Option<u64>,
}

pub struct Rig {
    pub cfg: RigCfg,
    pub server: Server,
    pub events: Events,
    pub addr: SocketAddr,
    pub clients: Vec<UdpSocket>,
    pub panicked: bool,
    pub queue: Arc<StatsQueue>,
}

pub fn now_ns() -> (u64, u32) {
    let d = SystemTime::now().duration_since(UNIX_EPOCH).unwrap();
    (d.as_secs(), d.subsec_nanos())
}

fn force_rcvbuf(fd: i32, bytes: i32) {
    unsafe {
        let v: libc::c_int = bytes;
        // SO_RCVBUFFORCE needs CAP_NET_ADMIN (we run as root); fall back to SO_RCVBUF
        let r = libc::setsockopt(fd, libc::SOL_SOCKET, libc::SO_RCVBUFFORCE, &v as *const _ as *const libc::c_void, 4);
        if r != 0 {
            libc::setsockopt(fd, libc::SOL_SOCKET, libc::SO_RCVBUF, &v as *const _ as *const libc::c_void, 4);
        }
    }
}

/// A loopback address of this harness process's own (127.0.0.0/8 is all loopback): the in-process server and its clients
/// live on it, so that a stray datagram which another test process on this host sends to a reused port of 127.0.0.1
/// (its flooding clients have exited while their server still answers) can reach neither our server — which would
/// count it as an invalid request — nor our clients.
pub fn rig_ip() -> std::net::Ipv4Addr {
    let pid = std::process::id();
    std::net::Ipv4Addr::new(127, 101 + ((pid / 62500) % 100) as u8, 1 + ((pid / 250) % 250) as u8, 1 + (pid % 250) as u8)
}

impl Rig {
    /// Must be called from a named thread (Server::new unwraps the thread name).
    pub fn new(cfg: RigCfg, nclients: usize) -> Rig {
        Rig::new_hc(cfg, nclients, None)
    }

    /// the same with a health-check listener on `hc_port`
    pub fn new_hc(cfg: RigCfg, nclients: usize, hc_port: Option<u16>) -> Rig {
        let sock = MioUdp::bind(&SocketAddr::new(std::net::IpAddr::V4(rig_ip()), 0)).expect("bind server socket");
        force_rcvbuf(sock.as_raw_fd(), 64 << 20);
        let addr = sock.local_addr().unwrap();
        let mut mc = MemoryConfig::new(addr.port());
        mc.seed = cfg.seed.clone();
        mc.batch_size = cfg.batch;
        mc.fault_percentage = cfg.fault;
        mc.client_stats = cfg.per_client;
        mc.kms_protection = KmsProtection::Plaintext;
        mc.num_workers = 1;
        mc.health_check_port = hc_port;
        mc.interface = rig_ip().to_string();
        if let Some(st) = cfg.status {
            mc.status_interval = Duration::from_secs(st);
        }
        set_level(&cfg.level);
        let queue = Arc::new(StatsQueue::new(256));
        let server = Server::new(&mc, sock, queue.clone());
        let mut clients = vec![];
        for _ in 0..nclients {
            let c = UdpSocket::bind(SocketAddr::new(std::net::IpAddr::V4(rig_ip()), 0)).unwrap();
            c.set_nonblocking(true).unwrap();
            force_rcvbuf(c.as_raw_fd(), 16 << 20);
            clients.push(c);
        }
        Rig { cfg, server, events: Events::with_capacity(1024), addr, clients, panicked: false, queue }
    }

    pub fn add_client(&mut self) -> usize {
        let c = UdpSocket::bind(SocketAddr::new(std::net::IpAddr::V4(rig_ip()), 0)).unwrap();
        c.set_nonblocking(true).unwrap();
        force_rcvbuf(c.as_raw_fd(), 16 << 20);
        self.clients.push(c);
        self.clients.len() - 1
    }

    pub fn send(&self, client: usize, data: &[u8]) {
        // empty datagrams are legal UDP
        self.clients[client].send_to(data, self.addr).expect("send_to server");
    }

    /// one `process_events` call under catch_unwind; true if it returned normally
    pub fn process(&mut self) -> bool {
        if self.panicked {
            return false;
        }
        let server = &mut self.server;
        let events = &mut self.events;
        let ok = guarded(move || server.process_events(events)).is_some();
        if !ok {
            self.panicked = true;
        }
        ok
    }

    /// process a burst of `n` datagrams that are already queued on the server socket. One call of
    /// process_events handles at most 16 batches (MAX_BATCHES_PER_CALL in server.rs) and returns
    /// without blocking while a backlog remains, so call it often enough to drain the burst.
    pub fn process_burst(&mut self, n: usize) -> bool {
        let per_call = 16 * (self.cfg.batch.max(1) as usize);
        let calls = n / per_call + 1;
        let mut ok = true;
        for _ in 0..calls {
            ok &= self.process();
        }
        ok
    }

    /// read every client socket dry; returns (client, datagram) in per-client arrival order
    pub fn drain(&self) -> Vec<(usize, Vec<u8>)> {
        let mut out = vec![];
        let mut buf = vec![0u8; 70000];
        for round in 0..2 {
            for (i, c) in self.clients.iter().enumerate() {
                loop {
                    // only what THIS server sent (see util::recv_from_port)
                    match recv_from_port(c, &mut buf, self.addr.port()) {
                        Ok((n, _)) => out.push((i, buf[..n].to_vec())),
                        Err(_) => break,
                    }
                }
            }
            if round == 0 {
                std::thread::sleep(Duration::from_millis(1));
            }
        }
        out.sort_by_key(|(i, _)| *i); // stable: keeps per-client order
        out
    }
}

/// Run `f` on a fresh named thread with a generous stack; Server::new needs a named thread.
pub fn on_named_thread<T: Send + 'static>(name: &str, f: impl FnOnce() -> T + Send + 'static) -> T {
    std::thread::Builder::new()
        .name(name.to_string())
        .stack_size(64 << 20)
        .spawn(f)
        .unwrap()
        .join()
        .expect("rig thread panicked")
}

pub use crate::wire::{classic_request, enc_msg, frame, ietf_request, le32, VER13};

//! Stream for C16: a probe process per case runs make_config + is_valid_config and prints every
//! getter (or `refused`), once with the settings in a YAML file and once in the environment.
use crate::util::*;
use crate::Ctx;
use roughenough::config::{is_valid_config, make_config};
use std::process::{Command, Stdio};

/// `rvh cfgprobe <FILE|ENV>` — runs inside the child process
pub fn probe(arg: &str) {
    let r = std::panic::catch_unwind(|| {
        let cfg = match make_config(arg) {
            Ok(c) => c,
            Err(_) => return "refused:error".to_string(),
        };
        if !is_valid_config(cfg.as_ref()) {
            return "refused:invalid".to_string();
        }
        format!(
            "port={} interface={} seed={} batch_size={} status_interval={} kms={} health_check_port={} client_stats={} persistence_directory={} fault_percentage={} num_workers={}",
            cfg.port(), cfg.interface(), hex(&cfg.seed()), cfg.batch_size(), cfg.status_interval().as_secs(), cfg.kms_protection(),
            cfg.health_check_port().map(|p| p.to_string()).unwrap_or("none".into()),
            cfg.client_stats_enabled(),
            cfg.persistence_directory().map(|p| p.display().to_string()).unwrap_or("none".into()),
            cfg.fault_percentage(), cfg.num_workers()
        )
    });
    match r {
        Ok(s) => println!("{}", s),
        Err(_) => println!("refused:panic"),
    }
}

const KEYS: [(&str, &str); 11] = [
    ("port", "ROUGHENOUGH_PORT"), ("interface", "ROUGHENOUGH_INTERFACE"), ("seed", "ROUGHENOUGH_SEED"),
    ("batch_size", "ROUGHENOUGH_BATCH_SIZE"), ("status_interval", "ROUGHENOUGH_STATUS_INTERVAL"),
    ("kms_protection", "ROUGHENOUGH_KMS_PROTECTION"), ("health_check_port", "ROUGHENOUGH_HEALTH_CHECK_PORT"),
    ("client_stats", "ROUGHENOUGH_CLIENT_STATS"), ("fault_percentage", "ROUGHENOUGH_FAULT_PERCENTAGE"),
    ("num_workers", "ROUGHENOUGH_NUM_WORKERS"), ("persistence_directory", "ROUGHENOUGH_PERSISTENCE_DIRECTORY"),
];

fn run_probe(file_mode: bool, entries: &[(String, String)], dir: &str, n: u64) -> String {
    let exe = std::env::current_exe().unwrap();
    let mut cmd = Command::new(exe);
    cmd.arg("cfgprobe");
    // scrub inherited ROUGHENOUGH_* variables
    for (_, e) in KEYS.iter() {
        cmd.env_remove(e);
    }
    cmd.env("RUST_BACKTRACE", "0");
    if file_mode {
        let path = format!("{}/cfg-{}-{}.yaml", dir, std::process::id(), n);
        let mut body = String::new();
        for (k, v) in entries {
            body.push_str(&format!("{}: {}\n", k, v));
        }
        std::fs::write(&path, body).unwrap();
        cmd.arg(&path);
        let o = cmd.stdin(Stdio::null()).stderr(Stdio::null()).output().unwrap();
        let _ = std::fs::remove_file(&path);
        String::from_utf8_lossy(&o.stdout).trim().to_string()
    } else {
        cmd.arg("ENV");
        for (k, v) in entries {
            // a key that is not a documented setting has no environment counterpart
            let name = match KEYS.iter().find(|(f, _)| f == k) {
                Some((_, e)) => e.to_string(),
                None => continue,
            };
            // YAML quoting is not part of the environment syntax
            let raw = v.trim_matches('"').to_string();
            cmd.env(name, raw);
        }
        let o = cmd.stdin(Stdio::null()).stderr(Stdio::null()).output().unwrap();
        String::from_utf8_lossy(&o.stdout).trim().to_string()
    }
}

/// the REAL server binary with the same settings: does `main` let start-up fail? `exit:<status>` (within 1.5 s) or `running`
/// (killed). Only used for settings the loader / validator refuse, so no port is ever served for long.
fn run_main(file_mode: bool, entries: &[(String, String)], dir: &str, n: u64) -> String {
    let bin = format!("{}/roughenough-server", std::env::var("RVH_REPO_BIN").unwrap_or_else(|_| "/verif/.build/repo-target/debug".into()));
    if !std::path::Path::new(&bin).exists() { return "skip".into(); }
    let mut cmd = Command::new(bin);
    for (_, e) in KEYS.iter() { cmd.env_remove(e); }
    cmd.env("RUST_BACKTRACE", "0");
    let path = format!("{}/cfgmain-{}-{}.yaml", dir, std::process::id(), n);
    if file_mode {
        let mut body = String::new();
        for (k, v) in entries { body.push_str(&format!("{}: {}\n", k, v)); }
        std::fs::write(&path, body).unwrap();
        cmd.arg(&path);
    } else {
        cmd.arg("ENV");
        for (k, v) in entries {
            if let Some((_, e)) = KEYS.iter().find(|(f, _)| f == k) { cmd.env(e, v.trim_matches('"')); }
        }
    }
    let mut child = match cmd.stdin(Stdio::null()).stdout(Stdio::null()).stderr(Stdio::null()).spawn() { Ok(c) => c, Err(_) => return "skip".into() };
    let t0 = std::time::Instant::now();
    let res = loop {
        match child.try_wait() {
            Ok(Some(st)) => break format!("exit:{}", st.code().map(|c| c.to_string()).unwrap_or("signal".into())),
            _ if t0.elapsed() > std::time::Duration::from_millis(1500) => { let _ = child.kill(); let _ = child.wait(); break "running".to_string(); }
            _ => std::thread::sleep(std::time::Duration::from_millis(5)),
        }
    };
    let _ = std::fs::remove_file(&path);
    res
}

fn canon(s: &str) -> String {
    if s.starts_with("refused") || s.is_empty() { "refused".to_string() } else { s.replace(' ', ",") }
}

/// one case: the same settings through both sources
fn case(out: &mut Out, entries: &[(String, String)], dir: &str) {
    if !out.mine() {
        out.skip();
        return;
    }
    let n = out.lines;
    let f = run_probe(true, entries, dir, n);
    let e = run_probe(false, entries, dir, n);
    let es = if entries.is_empty() { "-".to_string() } else { entries.iter().map(|(k, v)| format!("{}={}", k, v)).collect::<Vec<_>>().join(";") };
    // what the loader / validator refuse must make the server binary's start-up fail too (main's own wiring)
    // (`~kind`: how the probe's refusal came about — error / invalid / panic — decides the status main ends with)
    let kind = |p: &str| p.strip_prefix("refused:").unwrap_or("error").to_string();
    let mf = if canon(&f) == "refused" { format!("{}~{}", run_main(true, entries, dir, n), kind(&f)) } else { "skip".to_string() };
    let me = if canon(&e) == "refused" { format!("{}~{}", run_main(false, entries, dir, n), kind(&e)) } else { "skip".to_string() };
    out.case("cfg", &[&es, &num_cpus().to_string()], &format!("file={} env={} mainfile={} mainenv={}", canon(&f), canon(&e), mf, me));
}

fn num_cpus() -> usize {
    std::thread::available_parallelism().unwrap().get()
}

pub fn run(ctx: &Ctx) {
    let mut out = Out::sharded(ctx.shard);
    let mut r = Rng::new(ctx.seed ^ 0xCF6);
    let dir = std::env::var("RVH_RUNDIR").unwrap_or_else(|_| "/verif/.build".into());
    let persist = format!("{}/persist-{}", dir, std::process::id());
    std::fs::create_dir_all(&persist).unwrap();
    let seed_hex = "a32049da0ffde0ded92ce10a0230d35fe615ec8461c14986baa63fe3b3bac3db";
    let base = |extra: Vec<(&str, String)>| -> Vec<(String, String)> {
        let mut v: Vec<(String, String)> = vec![
            ("port".into(), "8686".into()), ("interface".into(), "127.0.0.1".into()), ("seed".into(), seed_hex.into()),
        ];
        for (k, val) in extra {
            if let Some(p) = v.iter_mut().find(|(kk, _)| kk == k) { p.1 = val; } else { v.push((k.to_string(), val)); }
        }
        v
    };
    // boundary grid for the integer keys
    let grid: Vec<i64> = vec![-70000, -256, -1, 0, 1, 2, 16, 49, 50, 51, 63, 64, 65, 100, 127, 128, 254, 255, 256, 257, 300, 600, 1000, 8000, 32767, 32768, 65534, 65535, 65536, 65537, 70000, 83222, 4294967295, 4294967296, 4294967297];
    for key in ["port", "batch_size", "fault_percentage", "num_workers", "status_interval", "health_check_port"] {
        for &v in &grid {
            case(&mut out, &base(vec![(key, v.to_string())]), &dir);
        }
        // non-integers
        for bad in ["abc", "1.5", "", "12abc", "-", "1e3"] {
            case(&mut out, &base(vec![(key, bad.to_string())]), &dir);
        }
    }
    // random combinations of in-range values
    for _ in 0..(if ctx.thorough { 400 } else { 60 }) {
        let mut extra: Vec<(&str, String)> = vec![];
        if r.chance(1, 2) { extra.push(("port", r.range(1, 65535).to_string())); }
        if r.chance(1, 2) { extra.push(("batch_size", r.range(1, 64).to_string())); }
        if r.chance(1, 2) { extra.push(("fault_percentage", r.range(0, 50).to_string())); }
        if r.chance(1, 2) { extra.push(("num_workers", r.range(1, 16).to_string())); }
        if r.chance(1, 2) { extra.push(("status_interval", r.range(1, 65535).to_string())); }
        if r.chance(1, 2) { extra.push(("health_check_port", r.range(1, 65535).to_string())); }
        if r.chance(1, 3) {
            extra.push(("client_stats", r.pick(&["\"on\"", "\"yes\"", "\"off\"", "\"no\"", "\"ON\"", "\"Yes\""]).to_string()));
            if r.chance(3, 4) { extra.push(("persistence_directory", format!("\"{}\"", persist))); }
        }
        if r.chance(1, 4) { extra.push(("interface", r.pick(&["0.0.0.0", "127.0.0.1", "10.1.2.3"]).to_string())); }
        // the order of the keys of a YAML mapping (and of setting variables) carries no meaning: shuffle it
        let mut v = base(extra);
        if r.chance(2, 3) {
            for a in (1..v.len()).rev() { let b = r.below(a as u64 + 1) as usize; v.swap(a, b); }
        }
        case(&mut out, &v, &dir);
    }
    // one out-of-range / invalid setting in the company of other (valid) settings: a later, passing
    // validation step must not mask an earlier refusal
    let bad_values: [(&str, &[i64]); 4] = [
        ("port", &[0, 65536, 70000, -1]), ("batch_size", &[0, 65, 200, 256, 300]), ("fault_percentage", &[51, 100, 255, 256]), ("num_workers", &[0, -1]),
    ];
    for (key, vals) in bad_values.iter() {
        for &v in vals.iter() {
            let mut extra: Vec<(&str, String)> = vec![(key, v.to_string())];
            extra.push(("client_stats", "\"on\"".to_string()));
            extra.push(("persistence_directory", format!("\"{}\"", persist)));
            case(&mut out, &base(extra.clone()), &dir);
            // and with a few more valid settings around it
            let mut more = extra.clone();
            if *key != "batch_size" { more.push(("batch_size", r.range(1, 64).to_string())); }
            if *key != "fault_percentage" { more.push(("fault_percentage", r.range(0, 50).to_string())); }
            more.push(("health_check_port", r.range(1, 65535).to_string()));
            more.push(("status_interval", r.range(1, 65535).to_string()));
            case(&mut out, &base(more), &dir);
        }
    }
    // bad seed / missing port with client statistics enabled
    case(&mut out, &base(vec![("seed", "00".to_string()), ("client_stats", "\"on\"".to_string()), ("persistence_directory", format!("\"{}\"", persist))]), &dir);
    {
        let v: Vec<(String, String)> = base(vec![("client_stats", "\"yes\"".to_string()), ("persistence_directory", format!("\"{}\"", persist))]).into_iter().filter(|(k, _)| k != "port").collect();
        case(&mut out, &v, &dir);
    }
    // missing required settings, unknown keys
    for missing in ["port", "interface", "seed"] {
        let v: Vec<(String, String)> = base(vec![]).into_iter().filter(|(k, _)| k != missing).collect();
        case(&mut out, &v, &dir);
    }
    case(&mut out, &[], &dir);
    for unknown in ["ports", "batchsize", "Port", "foo", "num_worker"] {
        case(&mut out, &base(vec![(unknown, "5".to_string())]), &dir);
    }
    // unknown keys whose value is blank / null / a word, and documented keys with a null value (seeded change C16-r5
    // skipped null values before it looked at the key: a blank unknown key was accepted, a blank known key took its default)
    for unknown in ["ports", "foo", "Batch_size"] {
        for val in ["", "~", "null", "\"x\"", "word", "1.5"] {
            case(&mut out, &base(vec![(unknown, val.to_string())]), &dir);
        }
    }
    for key in ["port", "batch_size", "fault_percentage", "num_workers", "status_interval", "health_check_port", "interface", "seed", "kms_protection", "client_stats", "persistence_directory"] {
        for val in ["~", "null"] {
            case(&mut out, &base(vec![(key, val.to_string())]), &dir);
        }
    }
    // seeds of wrong length / alphabet
    for s in [
        "", "00", &seed_hex[..62], &format!("{}00", seed_hex), &seed_hex[..63], &seed_hex.to_uppercase(),
        &seed_hex.replace('a', "g"), &format!("\"{}\"", "1".repeat(64)), &"1".repeat(64), "zz",
    ] {
        case(&mut out, &base(vec![("seed", s.to_string())]), &dir);
    }
    // interface / kms / client_stats / persistence variants
    for i in ["\"\"", "localhost", "999.1.1.1", "::1", "127.0.0.1"] {
        case(&mut out, &base(vec![("interface", i.to_string())]), &dir);
    }
    for k in ["plaintext", "arn:aws:kms:x", "projects/x", "bogus"] {
        case(&mut out, &base(vec![("kms_protection", k.to_string())]), &dir);
    }
    for c in ["\"on\"", "\"yes\"", "\"off\"", "\"true\"", "on", "yes"] {
        case(&mut out, &base(vec![("client_stats", c.to_string())]), &dir);
        case(&mut out, &base(vec![("client_stats", c.to_string()), ("persistence_directory", format!("\"{}\"", persist))]), &dir);
        case(&mut out, &base(vec![("client_stats", c.to_string()), ("persistence_directory", "\"/nonexistent-dir-xyz\"".to_string())]), &dir);
    }
    let _ = std::fs::remove_dir_all(&persist);
    out.flush();
}

pub fn replay_one(out: &mut Out, args: &[&str]) {
    let dir = std::env::var("RVH_BUILD").unwrap_or_else(|_| "/verif/.build".into());
    let entries: Vec<(String, String)> = if args[0] == "-" { vec![] } else {
        args[0].split(';').map(|kv| { let (k, v) = kv.split_once('=').unwrap(); (k.to_string(), v.to_string()) }).collect()
    };
    case(out, &entries, &dir);
}


// ---------------------------------------------------------------------------------------------
// C20: nothing the configuration loaders log (at any level) or report contains the seed

/// `rvh cfgleakprobe <FILE|ENV> <level> <seed hex>` — runs inside the child process: loads and validates the
/// configuration and derives the long-term key under a capturing logger, then scans every record
/// and the error text for the secret patterns
pub fn leak_probe(arg: &str, level: &str, seed_hex: &str) {
    use crate::rig::{capture, install_logger, set_level, take_records};
    use crate::wire::{leak_scan, secret_patterns};
    install_logger();
    set_level(level);
    capture(true);
    let arg2 = arg.to_string();
    let r = std::panic::catch_unwind(move || {
        match make_config(&arg2) {
            Ok(c) => {
                let valid = is_valid_config(c.as_ref());
                if valid {
                    if let Ok(seed) = roughenough::kms::load_seed(c.as_ref()) {
                        let ltk = roughenough::key::LongTermKey::new(&seed);
                        return format!("loaded {}", ltk);
                    }
                }
                format!("valid={}", valid)
            }
            // the server binary prints the error
            Err(e) => format!("error {:?}", e),
        }
    });
    let mut text = take_records().join("\n");
    capture(false);
    let nrec = text.lines().count();
    text.push_str(&match r { Ok(s) => s, Err(_) => "panic".to_string() });
    let pats = secret_patterns(&unhex(seed_hex));
    let leak = leak_scan(&pats, text.as_bytes()).unwrap_or("0".into());
    println!("leak={} bytes={} records={}", leak, text.len(), nrec);
}

fn leak_case(out: &mut Out, file_mode: bool, seedcase: &str, level: &str, variant: &str, rev: bool, seed: &[u8], n: u64) {
    let dir = std::env::var("RVH_RUNDIR").unwrap_or_else(|_| "/verif/.build".into());
    let exe = std::env::current_exe().unwrap();
    let hx = hex(seed);
    let seed_text: String = match seedcase {
        "lower" => hx.clone(),
        "upper" => hx.to_uppercase(),
        _ => hx.chars().enumerate().map(|(i, c)| if (i / 3) % 2 == 0 { c.to_ascii_uppercase() } else { c }).collect(),
    };
    let mut entries: Vec<(String, String)> = vec![
        ("port".into(), "8686".into()), ("interface".into(), "127.0.0.1".into()), ("seed".into(), seed_text),
    ];
    match variant {
        "bad-batch" => entries.push(("batch_size".into(), "200".into())),
        "unknown-key" => entries.push(("no_such_setting".into(), "17".into())),
        "bad-int" => entries.push(("status_interval".into(), "abc".into())),
        "stats-no-dir" => entries.push(("client_stats".into(), "\"on\"".into())),
        // a setting that is wrong together with the seed itself, so that a diagnostic about the seed is produced
        // (seeded change C20-r5: a "helpful" message printed the value of a too-short "encrypted" seed)
        "kms-aws" => entries.push(("kms_protection".into(), "\"arn:aws:kms:us-east-2:111122223333:key/1234abcd-12ab-34cd-56ef-1234567890ab\"".into())),
        "kms-gcp" => entries.push(("kms_protection".into(), "projects/p/locations/global/keyRings/r/cryptoKeys/k".into())),
        "kms-bad" => entries.push(("kms_protection".into(), "vault".into())),
        "seed-long" => { entries[2].1.push_str("ab"); }
        // a seed that is valid once surrounding whitespace / a radix prefix / quotes are removed: whatever the loader does
        // about it (refuse, trim, warn) must not quote the value (seeded change C20-r9: a trimming helper logged the raw text)
        "seed-ws-trail" => { entries[2].1 = format!("\"{} \"", entries[2].1); }
        "seed-ws-lead" => { entries[2].1 = format!("\"  {}\"", entries[2].1); }
        "seed-newline" => { entries[2].1 = if file_mode { format!("\"{}\\n\"", entries[2].1) } else { format!("{}\n", entries[2].1) }; }
        "seed-0x" => { entries[2].1 = format!("0x{}", entries[2].1); }
        // a key given twice (yaml-rust keeps the last one): whatever the loader says about it must not quote the seed
        // (seeded change C20-r6: a duplicate-key warning quoted both source lines)
        "dup-seed" => { let other: String = entries[2].1.chars().rev().collect(); entries.insert(1, ("seed".into(), other)); }
        "dup-seed-same" => { let same = entries[2].1.clone(); entries.push(("seed".into(), same)); }
        "dup-port" => entries.push(("port".into(), "8687".into())),
        "bad-port" => { entries[0].1 = "0".into(); }
        "bad-workers" => entries.push(("num_workers".into(), "0".into())),
        "bad-fault" => entries.push(("fault_percentage".into(), "99".into())),
        "dir-missing" => { entries.push(("client_stats".into(), "\"on\"".into())); entries.push(("persistence_directory".into(), "/nonexistent/verif/dir".into())); }
        _ => {}
    }
    if rev { entries.reverse(); }
    let mut cmd = Command::new(&exe);
    cmd.arg("cfgleakprobe");
    for (_, e) in KEYS.iter() { cmd.env_remove(e); }
    cmd.env("RUST_BACKTRACE", "0");
    let path = format!("{}/cfgleak-{}-{}.yaml", dir, std::process::id(), n);
    if file_mode {
        let body: String = entries.iter().map(|(k, v)| format!("{}: {}\n", k, v)).collect();
        std::fs::write(&path, body).unwrap();
        cmd.arg(&path);
    } else {
        cmd.arg("ENV");
        for (k, v) in &entries {
            if let Some((_, e)) = KEYS.iter().find(|(f, _)| f == k) { cmd.env(e, v.trim_matches('"')); }
        }
    }
    cmd.arg(level).arg(&hx);
    let o = cmd.stdin(Stdio::null()).output().unwrap();
    let _ = std::fs::remove_file(&path);
    let so = String::from_utf8_lossy(&o.stdout).trim().to_string();
    // the child's stderr (panic messages) is part of what the process emits
    let pats = crate::wire::secret_patterns(seed);
    let imp = match crate::wire::leak_scan(&pats, &o.stderr) {
        Some(w) => format!("leak=stderr:{} bytes={} records=0", w, o.stderr.len()),
        None => if so.starts_with("leak=") { so } else { format!("leak=? bytes=0 records=0 raw={}", so.replace(' ', "_")) },
    };
    let scenario = format!("cfgload:{}:{}:{}:{}:{}", if file_mode { "file" } else { "env" }, seedcase, level, variant, if rev { "rev" } else { "fwd" });
    out.case("cfgleak", &[&scenario, &hx], &imp);
}

pub fn replay_leak(out: &mut Out, args: &[&str]) {
    let p: Vec<&str> = args[0].split(':').collect();
    leak_case(out, p[1] == "file", p[2], p[3], p[4], p.get(5) == Some(&"rev"), &unhex(args[1]), 0);
}

pub fn run_leak(ctx: &Ctx) {
    let mut out = Out::sharded(ctx.shard);
    let mut r = Rng::new(ctx.seed ^ 0xC20C);
    let mut n = 0u64;
    for file_mode in [true, false] {
        for seedcase in ["lower", "upper", "mixed"] {
            for level in ["off", "error", "warn", "info", "debug", "trace"] {
                for variant in ["valid", "bad-batch", "unknown-key", "bad-int", "stats-no-dir", "kms-aws", "kms-gcp", "kms-bad", "seed-long", "seed-ws-trail", "seed-ws-lead", "seed-newline", "seed-0x",
                                "bad-port", "bad-workers", "bad-fault", "dir-missing", "dup-seed", "dup-seed-same", "dup-port"] {
                    if !file_mode && variant.starts_with("dup-") { continue; }
                    n += 1;
                    if !out.mine() { out.skip(); continue; }
                    if !ctx.thorough && (n % 3 != 0) && level != "trace" && level != "error" { out.skip(); continue; }
                    let seed = r.bytes(32);
                    let rev = r.chance(1, 2);
                    leak_case(&mut out, file_mode, seedcase, level, variant, rev, &seed, n);
                }
            }
        }
    }
    out.flush();
}

//! Streams for C05 / C06: RtMessage::from_bytes / encode / encode_framed / Display.
use crate::util::*;
use crate::Ctx;
use roughenough::{RtMessage, Tag};

pub const TAGS: [Tag; 18] = [
    Tag::SIG, Tag::VER, Tag::SRV, Tag::NONC, Tag::DELE, Tag::PATH, Tag::RADI, Tag::PUBK, Tag::MIDP,
    Tag::SREP, Tag::VERS, Tag::MINT, Tag::ROOT, Tag::CERT, Tag::MAXT, Tag::INDX, Tag::ZZZZ, Tag::PAD,
];

pub fn fields_str(m: &RtMessage) -> String {
    if m.num_fields() == 0 {
        return "-".to_string();
    }
    m.tags()
        .iter()
        .zip(m.values().iter())
        .map(|(t, v)| format!("{}={}", t, hex(v)))
        .collect::<Vec<_>>()
        .join(",")
}

pub fn impl_dec(b: &[u8]) -> String {
    match guarded(|| RtMessage::from_bytes(b)) {
        None => "panic".to_string(),
        Some(Err(_)) => "err".to_string(),
        Some(Ok(m)) => match guarded(|| m.encode()) {
            Some(Ok(e)) => format!("ok {} {}", fields_str(&m), hex(&e)),
            _ => "panic".to_string(),
        },
    }
}

pub fn impl_disp(b: &[u8]) -> String {
    match guarded(|| RtMessage::from_bytes(b)) {
        Some(Ok(m)) => match guarded(|| format!("{}", m)) {
            Some(s) => format!("ok {}", hex(s.as_bytes())),
            None => "panic".to_string(),
        },
        _ => "deerr".to_string(),
    }
}

pub fn impl_enc(fields: &[(Tag, Vec<u8>)]) -> String {
    let r = guarded(|| {
        let mut m = RtMessage::with_capacity(fields.len() as u32);
        for (t, v) in fields {
            if m.add_field(*t, v).is_err() {
                return None;
            }
        }
        let e = m.encode().ok()?;
        let f = m.encode_framed().ok()?;
        let size = m.encoded_size();
        let pad = m.calculate_padding_length();
        Some(format!("ok {} {} {} {}", hex(&e), hex(&f), size, pad))
    });
    match r {
        Some(Some(s)) => s,
        Some(None) => "err".to_string(),
        None => "panic".to_string(),
    }
}

/// like `impl_enc`, for a caller that goes on after a rejected `add_field` (out of order / duplicate tag): the message
/// must then encode as if the rejected call had never been made
pub fn impl_enc_ignoring(fields: &[(Tag, Vec<u8>)]) -> String {
    let r = guarded(|| {
        let mut m = RtMessage::with_capacity(fields.len() as u32);
        let mut rejected = 0;
        for (t, v) in fields {
            if m.add_field(*t, v).is_err() { rejected += 1; }
        }
        let e = m.encode().ok()?;
        let f = m.encode_framed().ok()?;
        Some(format!("ok {} {} {} {} rejected={}", hex(&e), hex(&f), m.encoded_size(), m.calculate_padding_length(), rejected))
    });
    match r {
        Some(Some(s)) => s,
        Some(None) => "err".to_string(),
        None => "panic".to_string(),
    }
}

fn fields_arg(fields: &[(Tag, Vec<u8>)]) -> String {
    if fields.is_empty() {
        return "-".to_string();
    }
    fields.iter().map(|(t, v)| format!("{}={}", t, hex(v))).collect::<Vec<_>>().join(",")
}

fn parse_fields(s: &str) -> Vec<(Tag, Vec<u8>)> {
    if s == "-" {
        return vec![];
    }
    s.split(',')
        .map(|kv| {
            let (k, v) = kv.split_once('=').unwrap();
            let t = *TAGS.iter().find(|t| t.to_string() == k).expect("tag name");
            (t, unhex(v))
        })
        .collect()
}

pub fn replay_one(out: &mut Out, op: &str, args: &[&str]) {
    match op {
        "dec" => out.case("dec", args, &impl_dec(&unhex(args[0]))),
        "enci" => out.case("enci", args, &impl_enc_ignoring(&parse_fields(args[0]))),
        "disp" => out.case("disp", args, &impl_disp(&unhex(args[0]))),
        "enc" => out.case("enc", args, &impl_enc(&parse_fields(args[0]))),
        _ => {}
    }
}

fn emit_dec(out: &mut Out, b: &[u8], disp: bool) {
    let h = hex(b);
    out.case("dec", &[&h], &impl_dec(b));
    if disp && b.len() <= 4096 {
        out.case("disp", &[&h], &impl_disp(b));
    }
}

fn w32(v: &mut Vec<u8>, x: u32) {
    v.extend_from_slice(&x.to_le_bytes());
}

/// type-directed valid message: random subset of tags, aligned value lengths
fn gen_valid(r: &mut Rng, max_val: usize, max_total: usize) -> Vec<(Tag, Vec<u8>)> {
    let n = match r.below(10) {
        0 => 0,
        1 => 1,
        2 => 18,
        _ => r.range(2, 8),
    } as usize;
    let mut idx: Vec<usize> = (0..18).collect();
    // partial shuffle
    for i in 0..18 {
        let j = i + r.below((18 - i) as u64) as usize;
        idx.swap(i, j);
    }
    let mut chosen: Vec<usize> = idx[..n].to_vec();
    chosen.sort();
    let mut total = 0usize;
    let mut fields = vec![];
    for i in chosen {
        let len = match r.below(8) {
            0 => 0,
            1 => 4,
            2 => 8,
            3 => 32,
            4 => 64,
            _ => 4 * r.below((max_val / 4 + 1) as u64) as usize,
        };
        let len = len.min(max_total.saturating_sub(total)) / 4 * 4;
        total += len;
        let v = if r.chance(1, 4) { vec![r.below(256) as u8; len] } else { r.bytes(len) };
        fields.push((TAGS[i], v));
    }
    fields
}

fn encode_fields(fields: &[(Tag, Vec<u8>)]) -> Vec<u8> {
    let mut m = RtMessage::with_capacity(fields.len() as u32);
    for (t, v) in fields {
        m.add_field(*t, v).unwrap();
    }
    m.encode().unwrap()
}

/// structured mutation of a valid encoding, aimed at count / offset / tag words
fn mutate(r: &mut Rng, b: &[u8]) -> Vec<u8> {
    let mut v = b.to_vec();
    let n = if v.len() >= 4 { u32::from_le_bytes([v[0], v[1], v[2], v[3]]) as usize } else { 0 };
    let nwords = v.len() / 4;
    let header_words = if n == 0 { 1 } else { (2 * n).min(nwords) };
    let interesting: [u32; 14] = [
        0, 1, 2, 3, 4, 5, 8, 12, 0x7fff_fffc, 0x8000_0000, 0xffff_fffc, 0xffff_ffff, 1024, 1025,
    ];
    match r.below(9) {
        0 if nwords > 0 => {
            // replace one header word by an interesting value
            let w = r.below(header_words.max(1) as u64) as usize;
            let x = *r.pick(&interesting);
            v[4 * w..4 * w + 4].copy_from_slice(&x.to_le_bytes());
        }
        1 if nwords > 0 => {
            // add a small delta to one header word
            let w = r.below(header_words.max(1) as u64) as usize;
            let cur = u32::from_le_bytes([v[4 * w], v[4 * w + 1], v[4 * w + 2], v[4 * w + 3]]);
            let d = *r.pick(&[1u32, 2, 3, 4, 8, 0xffff_fffc, 0xffff_ffff, 0xffff_fff8]);
            v[4 * w..4 * w + 4].copy_from_slice(&cur.wrapping_add(d).to_le_bytes());
        }
        2 if n >= 2 && nwords >= 2 * n => {
            // swap two header words (offsets or tags): decreasing / duplicate / unordered
            let a = 1 + r.below((2 * n - 1) as u64) as usize;
            let c = 1 + r.below((2 * n - 1) as u64) as usize;
            for k in 0..4 {
                v.swap(4 * a + k, 4 * c + k);
            }
        }
        3 if n >= 2 && nwords >= 2 * n => {
            // duplicate a header word onto its neighbour
            let a = 1 + r.below((2 * n - 2).max(1) as u64) as usize;
            for k in 0..4 {
                v[4 * (a + 1) + k] = v[4 * a + k];
            }
        }
        4 => {
            // truncate
            let cut = r.below(v.len() as u64 + 1) as usize;
            v.truncate(cut);
        }
        5 => {
            // extend
            let extra = r.range(1, 16) as usize;
            v.extend(r.bytes(extra));
        }
        6 if !v.is_empty() => {
            // flip one bit anywhere
            let i = r.below(v.len() as u64) as usize;
            v[i] ^= 1 << r.below(8);
        }
        7 if nwords > 0 => {
            // unknown / near-miss tag in a tag slot
            if n >= 1 && nwords >= 2 * n {
                let w = n + r.below(n as u64) as usize;
                let x = *r.pick(&[0x58585858u32, 0x00474954, 0xff444151, 0x00000000, 0x43_4e_4f_4f]);
                v[4 * w..4 * w + 4].copy_from_slice(&x.to_le_bytes());
            }
        }
        _ => {
            // set count to a different value
            if v.len() >= 4 {
                let x = *r.pick(&[0u32, 1, 2, 3, 18, 19, 1024, 1025, 0xffff_ffff, (n as u32).wrapping_add(1), (n as u32).wrapping_sub(1)]);
                v[0..4].copy_from_slice(&x.to_le_bytes());
            }
        }
    }
    v
}

fn nested(tag: Tag, inner: &[u8]) -> Vec<u8> {
    encode_fields(&[(tag, inner.to_vec())])
}

pub fn run(ctx: &Ctx) {
    // deep Display recursion and 64 KiB inputs: run on a thread with a large explicit stack
    let ctx2 = Ctx { seed: ctx.seed, thorough: ctx.thorough, shard: ctx.shard, rest: ctx.rest.clone() };
    std::thread::Builder::new()
        .name("codec".into())
        .stack_size(512 << 20)
        .spawn(move || run_inner(&ctx2))
        .unwrap()
        .join()
        .unwrap();
}

fn run_inner(ctx: &Ctx) {
    quiet_panics();
    let mut out = Out::new();
    let mut r = Rng::new(ctx.seed);
    let (shard, nshards) = ctx.shard;

    // (i) bounded-exhaustive word sequences over an alphabet of interesting 32-bit words
    let alphabet: [u32; 12] = [
        0, 1, 2, 3, 4, 8, 12, 0xffff_ffff,
        u32::from_le_bytes(*b"SIG\0"), u32::from_le_bytes(*b"NONC"), u32::from_le_bytes(*b"CERT"),
        0x58585858,
    ];
    // near-miss spellings of every known tag (one byte changed, case changed, early-draft spellings):
    // none of them is a tag, as the only / first / last tag of small messages
    {
        let mut near: Vec<[u8; 4]> = vec![*b"PAD\0", *b"SIG\xff", *b"VER\xff", *b"SRV\xff", *b"sig\0", *b"nonc", *b"PAD ", *b"SIG ", *b"NONc", *b"ZZZZ"];
        for t in TAGS.iter() {
            let w: [u8; 4] = t.wire_value().try_into().unwrap();
            for pos in 0..4 {
                for delta in [1u8, 0x20, 0x80, 0xff] {
                    let mut x = w;
                    x[pos] = x[pos].wrapping_add(delta);
                    near.push(x);
                }
            }
        }
        for (k, w) in near.iter().enumerate() {
            if (k as u64) % nshards != shard { continue; }
            // single-tag message, two-tag messages with the word first / last
            let mut b = vec![]; w32(&mut b, 1); b.extend_from_slice(w); b.extend_from_slice(&[1, 2, 3, 4]);
            emit_dec(&mut out, &b, true);
            let mut b = vec![]; w32(&mut b, 2); w32(&mut b, 4); b.extend_from_slice(b"SIG\0"); b.extend_from_slice(w); b.extend_from_slice(&[1, 2, 3, 4, 5, 6, 7, 8]);
            emit_dec(&mut out, &b, true);
            let mut b = vec![]; w32(&mut b, 2); w32(&mut b, 4); b.extend_from_slice(w); b.extend_from_slice(b"PAD\xff"); b.extend_from_slice(&[1, 2, 3, 4, 5, 6, 7, 8]);
            emit_dec(&mut out, &b, true);
            let mut b = vec![]; w32(&mut b, 3); w32(&mut b, 4); w32(&mut b, 8); b.extend_from_slice(b"NONC"); b.extend_from_slice(w); b.extend_from_slice(b"PAD\xff"); b.extend_from_slice(&[0; 12]);
            emit_dec(&mut out, &b, true);
        }
    }
    let max_len = if ctx.thorough { 6 } else { 5 };
    let mut counter: u64 = 0;
    for len in 0..=max_len {
        let total = (alphabet.len() as u64).pow(len as u32);
        for code in 0..total {
            counter += 1;
            if counter % nshards != shard {
                continue;
            }
            let mut c = code;
            let mut b = Vec::with_capacity(4 * len);
            for _ in 0..len {
                w32(&mut b, alphabet[(c % 12) as usize]);
                c /= 12;
            }
            // Display only for a sample of these (they are tiny)
            emit_dec(&mut out, &b, code % 7 == 0);
        }
    }
    if shard != 0 {
        out.flush();
        return;
    }

    // unaligned / tiny lengths
    for len in 0..=12usize {
        let b = r.bytes(len);
        emit_dec(&mut out, &b, true);
    }

    // (ii) type-directed valid messages through the API
    let n_valid = if ctx.thorough { 6000 } else { 1200 };
    let mut valid_encodings: Vec<Vec<u8>> = vec![];
    for i in 0..n_valid {
        let (maxv, maxt) = if i % 10 == 0 { (16384, 65536 - 160) } else { (256, 2048) };
        let fields = gen_valid(&mut r, maxv, maxt);
        out.case("enc", &[&fields_arg(&fields)], &impl_enc(&fields));
        let e = encode_fields(&fields);
        emit_dec(&mut out, &e, true);
        valid_encodings.push(e);
    }
    // a message object that has REFUSED a field (out of order or duplicate) and is encoded afterwards (seeded change
    // C05-r10: a running length counter bumped before the order check)
    for i in 0..(if ctx.thorough { 1500 } else { 300 }) {
        let mut fields = gen_valid(&mut r, 64, 512);
        if fields.is_empty() { continue; }
        // insert 1..3 fields that will be refused: a copy of an earlier tag, or a tag smaller than its predecessor
        for _ in 0..r.range(1, 3) {
            let at = r.range(1, fields.len() as u64) as usize;
            let dup = fields[r.below(at as u64) as usize].0;
            let l = 4 * r.below(20) as usize;
            let val = r.bytes(l);
            fields.insert(at, (dup, val));
        }
        let _ = i;
        out.case("enci", &[&fields_arg(&fields)], &impl_enc_ignoring(&fields));
    }
    // the UNFRAMED decoder fed a framed message: magic + length word + a valid encoding (once and twice framed, exact
    // and off-by-four length words) — `from_bytes` decodes tag-value messages only; the framing belongs to the caller
    // (seeded change C05-r8: from_bytes silently stripped a ROUGHTIM frame)
    for (i, e) in valid_encodings.iter().take(if ctx.thorough { 400 } else { 80 }).enumerate() {
        let framed = |body: &[u8], delta: i64| { let mut v = b"ROUGHTIM".to_vec(); v.extend_from_slice(&((body.len() as i64 + delta) as u32).to_le_bytes()); v.extend_from_slice(body); v };
        let f1 = framed(e, 0);
        emit_dec(&mut out, &f1, i % 4 == 0);
        match i % 4 { 0 => emit_dec(&mut out, &framed(&f1, 0), false), 1 => emit_dec(&mut out, &framed(e, 4), false), 2 => emit_dec(&mut out, &framed(e, -4), false), _ => emit_dec(&mut out, &framed(&[], 0), false) }
    }
    // API use with unaligned values and unsorted / duplicate tags
    for _ in 0..(n_valid / 4) {
        let mut fields = gen_valid(&mut r, 64, 512);
        match r.below(3) {
            0 => {
                for f in fields.iter_mut() {
                    if r.chance(1, 2) {
                        let extra = r.range(1, 3) as usize;
                        f.1.extend(r.bytes(extra));
                    }
                }
            }
            1 if fields.len() >= 2 => {
                let a = r.below(fields.len() as u64) as usize;
                let b = r.below(fields.len() as u64) as usize;
                fields.swap(a, b);
            }
            _ if !fields.is_empty() => {
                let a = r.below(fields.len() as u64) as usize;
                let dup = fields[a].clone();
                fields.insert(a, dup);
            }
            _ => {}
        }
        out.case("enc", &[&fields_arg(&fields)], &impl_enc(&fields));
    }

    // (iii) structured mutants of valid encodings
    let n_mut = if ctx.thorough { 60000 } else { 12000 };
    for i in 0..n_mut {
        let base = &valid_encodings[(i * 7919) % valid_encodings.len()];
        if base.len() > 4096 && i % 50 != 0 {
            continue;
        }
        let mut m = mutate(&mut r, base);
        if r.chance(1, 4) {
            m = mutate(&mut r, &m);
        }
        emit_dec(&mut out, &m, true);
    }

    // (iv) random strings of every length class up to 65 536
    let lens: Vec<usize> = {
        let mut v: Vec<usize> = vec![4, 8, 12, 16, 20, 24, 28, 32, 64, 72, 76, 80, 1024, 1500, 4096, 65532, 65536];
        for _ in 0..(if ctx.thorough { 400 } else { 80 }) {
            v.push(r.below(2048) as usize);
        }
        for _ in 0..(if ctx.thorough { 40 } else { 8 }) {
            v.push(r.below(65537) as usize);
        }
        v
    };
    for len in lens {
        let mut b = r.bytes(len);
        emit_dec(&mut out, &b, true);
        // same with a plausible count word so that the header loops are entered
        if b.len() >= 4 {
            let n = r.range(1, 20) as u32;
            b[0..4].copy_from_slice(&n.to_le_bytes());
            emit_dec(&mut out, &b, true);
        }
    }

    // (v) nested garbage for Display: valid outer message whose CERT/DELE/SREP values are
    // random / truncated / deeply nested
    let nested_tags = [Tag::CERT, Tag::DELE, Tag::SREP];
    let n_nested = if ctx.thorough { 4000 } else { 800 };
    for i in 0..n_nested {
        let t = *r.pick(&nested_tags);
        let inner: Vec<u8> = match i % 6 {
            0 => { let k = 4 * r.range(0, 16) as usize; r.bytes(k) }
            1 => {
                let f = gen_valid(&mut r, 32, 256);
                encode_fields(&f)
            }
            2 => {
                let f = gen_valid(&mut r, 32, 256);
                let e = encode_fields(&f);
                mutate(&mut r, &e)
            }
            3 => {
                // nested chain, innermost garbage or valid
                let depth = r.range(1, 24) as usize;
                let mut cur: Vec<u8> = if r.chance(1, 2) { r.bytes(8) } else { encode_fields(&[(Tag::NONC, r.bytes(8))]) };
                for _ in 0..depth {
                    cur = nested(*r.pick(&nested_tags), &cur);
                }
                cur
            }
            4 => vec![],
            _ => vec![1, 2, 3, 4, 5, 6, 7, 8],
        };
        let inner = if inner.len() % 4 == 0 { inner } else { inner[..inner.len() / 4 * 4].to_vec() };
        // place it in a message with other fields
        let mut fields: Vec<(Tag, Vec<u8>)> = vec![];
        if r.chance(1, 2) {
            fields.push((Tag::SIG, r.bytes(64)));
        }
        fields.push((t, inner));
        if r.chance(1, 2) && t != Tag::CERT {
            let k = 4 * r.range(0, 4) as usize;
            fields.push((Tag::CERT, r.bytes(k)));
        }
        if r.chance(1, 2) {
            fields.push((Tag::INDX, r.bytes(4)));
        }
        fields.sort_by(|a, b| a.0.partial_cmp(&b.0).unwrap());
        fields.dedup_by(|a, b| a.0 == b.0);
        let e = encode_fields(&fields);
        emit_dec(&mut out, &e, true);
    }
    // deep nesting up to what fits a 4096-byte datagram (depth 510)
    for depth in [100usize, 300, 510] {
        let mut cur: Vec<u8> = vec![0, 0, 0, 0];
        for _ in 0..depth {
            cur = nested(Tag::CERT, &cur);
        }
        emit_dec(&mut out, &cur, true);
    }
    out.flush();
}

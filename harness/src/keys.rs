//! Streams for C13 (MsgSigner / MsgVerifier), C10 (LongTermKey, Server identity), C11 (make_srep).
use crate::rig::*;
use crate::util::*;
use crate::Ctx;
use ed25519_dalek::{Signature, Signer, SigningKey, Verifier, VerifyingKey};
use roughenough::key::{LongTermKey, OnlineKey};
use roughenough::sign::{MsgSigner, MsgVerifier};
use roughenough::version::Version;
use roughenough::{RtMessage, Tag};
use std::time::{Duration, UNIX_EPOCH};

fn ver_name(v: Version) -> &'static str {
    if v == Version::Google { "G" } else { "I" }
}

// ---------------------------------------------------------------- C13

/// `sign <seed> <ops>`; ops: `u <hex>` | `s`, joined by `;`
fn sign_case(out: &mut Out, seed: &[u8], ops: &[Option<Vec<u8>>]) {
    let ops_str = ops
        .iter()
        .map(|o| match o {
            Some(d) => format!("u {}", hex(d)),
            None => "s".to_string(),
        })
        .collect::<Vec<_>>()
        .join(";");
    // implementation: one MsgSigner object through the whole history
    let imp = guarded(|| {
        let mut s = MsgSigner::from_seed(seed);
        let mut sigs = vec![];
        for o in ops {
            match o {
                Some(d) => s.update(d),
                None => sigs.push(hex(&s.sign())),
            }
        }
        (sigs, hex(&s.public_key_bytes()))
    });
    // oracle: ed25519-dalek called one-shot on each concatenated message
    let dalek = guarded(|| {
        let sk = SigningKey::from_bytes(seed.try_into().unwrap());
        let mut sigs = vec![];
        let mut cur: Vec<u8> = vec![];
        for o in ops {
            match o {
                Some(d) => cur.extend_from_slice(d),
                None => {
                    sigs.push(hex(&sk.sign(&cur).to_bytes()));
                    cur.clear();
                }
            }
        }
        sigs
    });
    let i = match imp {
        Some((s, pk)) => format!("impl={} pk={}", if s.is_empty() { "-".into() } else { s.join(",") }, pk),
        None => "impl=panic pk=-".to_string(),
    };
    let d = match dalek {
        Some(s) => if s.is_empty() { "-".into() } else { s.join(",") },
        None => "panic".to_string(),
    };
    out.case("sign", &[&hex(seed), &ops_str], &format!("{} dalek={}", i, d));
}

/// `vrf <pk> <chunks> <sig>`
fn vrf_case(out: &mut Out, pk: &[u8], chunks: &[Vec<u8>], sig: &[u8]) {
    let imp = guarded(|| {
        let mut v = MsgVerifier::new(pk);
        for c in chunks {
            v.update(c);
        }
        v.verify(sig)
    });
    let msg: Vec<u8> = chunks.concat();
    let dalek: Option<bool> = (|| {
        let pk: &[u8; 32] = pk.try_into().ok()?;
        let vk = VerifyingKey::from_bytes(pk).ok()?;
        let sig = Signature::from_slice(sig).ok()?;
        Some(vk.verify(&msg, &sig).is_ok())
    })();
    let i = match imp { Some(true) => "1", Some(false) => "0", None => "panic" };
    let d = match dalek { Some(true) => "1", Some(false) => "0", None => "err" };
    let ch = if chunks.is_empty() { "-".to_string() } else { chunks.iter().map(|c| hex(c)).collect::<Vec<_>>().join(",") };
    out.case("vrf", &[&hex(pk), &ch, &hex(sig)], &format!("impl={} dalek={}", i, d));
}

fn chunking(r: &mut Rng, msg: &[u8]) -> Vec<Vec<u8>> {
    let mut out = vec![];
    let mut pos = 0;
    while pos < msg.len() {
        if r.chance(1, 6) {
            out.push(vec![]); // empty chunk
        }
        let n = match r.below(4) { 0 => 1, 1 => msg.len() - pos, _ => 1 + r.below((msg.len() - pos) as u64) as usize };
        let n = n.min(msg.len() - pos);
        out.push(msg[pos..pos + n].to_vec());
        pos += n;
    }
    if r.chance(1, 4) {
        out.push(vec![]);
    }
    out
}

pub fn run_sign(ctx: &Ctx) {
    quiet_panics();
    let mut out = Out::sharded(ctx.shard);
    let mut r = Rng::new(ctx.seed ^ 0x5349474e);
    let t = ctx.thorough;
    // signer histories
    for h in 0..(if t { 1500 } else { 200 }) {
        let seed = match h % 10 { 0 => vec![0u8; 32], 1 => vec![0xff; 32], _ => r.bytes(32) };
        let nmsg = if h % 7 == 0 { 32 } else { r.range(1, 6) as usize };
        let mut ops: Vec<Option<Vec<u8>>> = vec![];
        for _ in 0..nmsg {
            let len = match r.below(8) { 0 => 0, 1 => 1, 2 => 4096, 3 => r.below(4097) as usize, _ => r.below(200) as usize };
            let msg = r.bytes(len);
            for c in chunking(&mut r, &msg) {
                ops.push(Some(c));
            }
            ops.push(None);
            if r.chance(1, 10) {
                ops.push(None); // sign again immediately: the empty message
            }
        }
        if r.chance(1, 5) {
            ops.push(Some(r.bytes(5))); // trailing update that is never signed
        }
        sign_case(&mut out, &seed, &ops);
    }
    // verifier: valid triples and every single-bit corruption of message, signature, key
    for v in 0..(if t { 120 } else { 12 }) {
        let seed = r.bytes(32);
        let sk = SigningKey::from_bytes(seed.as_slice().try_into().unwrap());
        let pk = sk.verifying_key().to_bytes().to_vec();
        let len = if v % 4 == 0 { 0 } else { r.range(1, 24) as usize };
        let msg = r.bytes(len);
        let sig = sk.sign(&msg).to_bytes().to_vec();
        let ch = chunking(&mut r, &msg);
        vrf_case(&mut out, &pk, &ch, &sig);
        for bit in 0..(msg.len() * 8) {
            let mut m = msg.clone();
            m[bit / 8] ^= 1 << (bit % 8);
            vrf_case(&mut out, &pk, &[m], &sig);
        }
        for bit in 0..512 {
            let mut s = sig.clone();
            s[bit / 8] ^= 1 << (bit % 8);
            vrf_case(&mut out, &pk, &ch, &s);
        }
        for bit in 0..256 {
            let mut k = pk.clone();
            k[bit / 8] ^= 1 << (bit % 8);
            vrf_case(&mut out, &k, &ch, &sig);
            // a corrupted key (about half of them no longer decode to a curve point) with DEGENERATE signatures: R = the
            // neutral element or a small-order point, s = 0 (seeded change C13-r8 replaced an undecodable key by the
            // default key, the neutral element, for which these verify for every message)
            if v < 3 {
                for rhex in ["0100000000000000000000000000000000000000000000000000000000000000",
                             "ecffffffffffffffffffffffffffffffffffffffffffffffffffffffffffff7f",
                             "0000000000000000000000000000000000000000000000000000000000000080"] {
                    let mut dsig = unhex(rhex);
                    dsig.extend(vec![0u8; 32]);
                    vrf_case(&mut out, &k, &ch, &dsig);
                }
            }
        }
        // wrong lengths
        vrf_case(&mut out, &pk[..31], &ch, &sig);
        vrf_case(&mut out, &pk, &ch, &sig[..63]);
        let mut long = sig.clone();
        long.push(0);
        vrf_case(&mut out, &pk, &ch, &long);
        // message extended / truncated
        let mut m2 = msg.clone();
        m2.push(0);
        vrf_case(&mut out, &pk, &[m2], &sig);
    }
    // small-order / non-canonical keys with the all-zero-s signature
    for pkhex in [
        "0100000000000000000000000000000000000000000000000000000000000000",
        "ecffffffffffffffffffffffffffffffffffffffffffffffffffffffffffff7f",
        "0000000000000000000000000000000000000000000000000000000000000000",
        "0000000000000000000000000000000000000000000000000000000000000080",
        "eeffffffffffffffffffffffffffffffffffffffffffffffffffffffffffff7f",
        "0100000000000000000000000000000000000000000000000000000000000080",
        "c7176a703d4dd84fba3c0b760d10670f2a2053fa2c39ccc64ec7fd7792ac037a",
        "26e8958fc2b227b045c3f489f2ef98f0d5dfac05d3c63339b13802886d53fc05",
    ] {
        let pk = unhex(pkhex);
        let mut sig = pk.clone();
        sig.extend(vec![0u8; 32]);
        vrf_case(&mut out, &pk, &[b"x".to_vec()], &sig);
        let mut sig2 = unhex("0100000000000000000000000000000000000000000000000000000000000000");
        sig2.extend(vec![0u8; 32]);
        vrf_case(&mut out, &pk, &[vec![]], &sig2);
    }
    out.flush();
}

// ---------------------------------------------------------------- C10

fn ltk_case(out: &mut Out, seed: &[u8]) {
    let seed_v = seed.to_vec();
    let imp = on_named_thread("ltk", move || {
        let r = guarded(|| {
            let mut ltk = LongTermKey::new(&seed_v);
            let pk = ltk.public_key();
            let srv = ltk.srv_value().to_vec();
            let onl13 = OnlineKey::new();
            let onl0 = OnlineKey::new();
            // same order as Server::new: IETF certificate first, then classic, same signer object
            let c13 = ltk.make_cert(&Version::RfcDraft13, &onl13).encode().unwrap();
            let c0 = ltk.make_cert(&Version::Google, &onl0).encode().unwrap();
            let c13b = ltk.make_cert(&Version::RfcDraft13, &onl13).encode().unwrap(); // a later "restart"
            // three Server instances from the same seed (workers / restarts)
            let mut pubs = vec![];
            // ... and what each of them treats as ITS OWN SRV value when a request names a server (the value the
            // server matches requests against is part of its identity; seeded change C10-r5 derived it from the hex
            // text of the public key): a request carrying SHA-512(0xff || pk)[0..32], computed here independently,
            // must be answered, one carrying another value must not. One digit pair per instance: "10" is right.
            let mut srvprobe = String::new();
            let own = crate::wire::srv_of_seed(&seed_v);
            for k in 0..3 {
                let cfg = RigCfg { seed: seed_v.clone(), batch: 64, fault: 0, per_client: false, level: "off".into(), status: None };
                let mut rig = Rig::new(cfg, 2);
                pubs.push(rig.server.get_public_key().to_string());
                let mut other = own.clone();
                other[(7 * k + 3) % 32] ^= 1 << (k % 8);
                let n1: Vec<u8> = (0..32).map(|i| (i * 5 + k) as u8).collect();
                let n2: Vec<u8> = (0..32).map(|i| (i * 3 + 100 + k) as u8).collect();
                rig.send(0, &crate::wire::ietf_request(&crate::wire::VER13, Some(&own), &n1, 1024));
                rig.send(1, &crate::wire::ietf_request(&crate::wire::VER13, Some(&other), &n2, 1024));
                rig.process_burst(2);
                let got = rig.drain();
                let a0 = got.iter().filter(|(c, _)| *c == 0).count();
                let a1 = got.iter().filter(|(c, _)| *c == 1).count();
                srvprobe.push_str(&format!("{}{}", a0.min(9), a1.min(9)));
            }
            // the model takes the online seeds as parameters drawn afresh from the OS for every OnlineKey::new():
            // delegated keys of distinct key objects / Server instances must differ
            let pubk_of = |c: &Vec<u8>| -> Vec<u8> {
                RtMessage::from_bytes(c).ok().and_then(|m| m.get_field(Tag::DELE).map(|d| d.to_vec()))
                    .and_then(|d| RtMessage::from_bytes(&d).ok()).and_then(|m| m.get_field(Tag::PUBK).map(|p| p.to_vec())).unwrap_or_default()
            };
            let onl_distinct = pubk_of(&c13) != pubk_of(&c0) && !pubk_of(&c13).is_empty();
            // C20: whatever Display / Debug of the key-holding objects print (an embedding program or a log
            // statement may format them) must not contain the seed or the scalar; the signer is formatted with
            // an empty and with a pending buffer
            let mut signer = roughenough::sign::MsgSigner::from_seed(&seed_v);
            let mut formatted = format!("{} {:?} ", signer, signer);
            signer.update(b"pending bytes");
            formatted.push_str(&format!("{} {:?} {} {} {}", signer, signer, ltk, onl13, onl0));
            let degenerate = seed_v.iter().all(|b| *b == seed_v[0]);
            let fmtleak = if degenerate { None } else { crate::wire::leak_scan(&crate::wire::secret_patterns(&seed_v), formatted.as_bytes()) };
            format!("pk={} srv={} cert13={} cert0={} cert13b={} pubs={} display={} fmtleak={} onl_distinct={} srvprobe={}", hex(&pk), hex(&srv), hex(&c13), hex(&c0), hex(&c13b), pubs.join(","), format!("{}", ltk),
                fmtleak.map(|x| x.replace(' ', "_")).unwrap_or_else(|| "none".to_string()), onl_distinct as u8, srvprobe)
        });
        r.unwrap_or_else(|| "panic".to_string())
    });
    out.case("ltk", &[&hex(seed)], &imp);
}

pub fn run_ltk(ctx: &Ctx) {
    quiet_panics();
    install_logger();
    let mut out = Out::sharded(ctx.shard);
    let mut r = Rng::new(ctx.seed ^ 0x4c544b);
    let mut seeds: Vec<Vec<u8>> = vec![
        vec![0u8; 32], vec![0xff; 32],
        unhex("9d61b19deffd5a60ba844af492ec2cc44449c5697b326919703bac031cae7f60"), // RFC 8032 TEST 1
        unhex("4ccd089b28ff96da9db6c346ec114e0f5b8a319f35aba624da8cf6ed4fb8a6fb"), // TEST 2
        unhex("c5aa8df43f9f837bedb7442f31dcb7b166d38535076f094b85ce3a2e0b4458f7"), // TEST 3
        unhex("a32049da0ffde0ded92ce10a0230d35fe615ec8461c14986baa63fe3b3bac3db"), // example.cfg
    ];
    for _ in 0..(if ctx.thorough { 600 } else { 60 }) {
        seeds.push(r.bytes(32));
    }
    for s in seeds {
        ltk_case(&mut out, &s);
    }
    out.flush();
}

// ---------------------------------------------------------------- C11

fn srep_case(out: &mut Out, ver: Version, secs: u64, nanos: u32, root: &[u8]) {
    let root_v = root.to_vec();
    let imp = guarded(move || {
        let mut onl = OnlineKey::new();
        let pubk = onl.make_dele().get_field(Tag::PUBK).unwrap().to_vec();
        let now = UNIX_EPOCH + Duration::new(secs, nanos);
        let m: RtMessage = onl.make_srep(ver, now, &root_v);
        // a second call on the same key object with another time must not be influenced by the first
        format!("res={} pubk={}", hex(&m.encode().unwrap()), hex(&pubk))
    });
    out.case(
        "srep",
        &[ver_name(ver), &secs.to_string(), &nanos.to_string(), &hex(root)],
        &imp.unwrap_or_else(|| "panic".to_string()),
    );
}

pub fn run_srep(ctx: &Ctx) {
    quiet_panics();
    let mut out = Out::sharded(ctx.shard);
    let mut r = Rng::new(ctx.seed ^ 0x53524550);
    let mut secs_grid: Vec<u64> = vec![
        0, 1, 59, 60, 86399, 86400, 946684799, 946684800, 1700000000, 2147483647, 2147483648, 4294967295, 4294967296,
        7258118400, // 2200-01-01
        32503680000, // 3000-01-01
        253402300799, // 9999-12-31T23:59:59
        253402300800,
        18446744073709, // u64::MAX / 10^6 (last second whose microseconds fit)
        18446744073710, // first second that overflows the classic midpoint
        1 << 62,
    ];
    for _ in 0..(if ctx.thorough { 2000 } else { 150 }) {
        let s = match r.below(3) { 0 => r.below(4102444800), 1 => r.below(253402300800), _ => r.below(18446744073709) };
        secs_grid.push(s);
    }
    let nanos_grid: [u32; 8] = [0, 1, 999, 1000, 1001, 999_999, 999_999_000, 999_999_999];
    for &v in &[Version::Google, Version::RfcDraft13] {
        let rl = if v == Version::Google { 64 } else { 32 };
        for (k, &s) in secs_grid.iter().enumerate() {
            if k < 20 {
                for &n in &nanos_grid {
                    let root = r.bytes(rl);
                    srep_case(&mut out, v, s, n, &root);
                }
            } else {
                let n = if r.chance(1, 2) { *r.pick(&nanos_grid) } else { r.below(1_000_000_000) as u32 };
                let root = r.bytes(rl);
                srep_case(&mut out, v, s, n, &root);
            }
        }
    }
    out.flush();
}

pub fn replay_one(out: &mut Out, op: &str, args: &[&str]) {
    install_logger();
    match op {
        "sign" => {
            let ops: Vec<Option<Vec<u8>>> = if args[1].is_empty() { vec![] } else {
                args[1].split(';').map(|o| if o == "s" { None } else { Some(unhex(&o[2..])) }).collect()
            };
            sign_case(out, &unhex(args[0]), &ops);
        }
        "vrf" => {
            let chunks: Vec<Vec<u8>> = if args[1] == "-" { vec![] } else { args[1].split(',').map(unhex).collect() };
            vrf_case(out, &unhex(args[0]), &chunks, &unhex(args[2]));
        }
        "ltk" => ltk_case(out, &unhex(args[0])),
        "srep" => {
            let v = if args[0] == "G" { Version::Google } else { Version::RfcDraft13 };
            srep_case(out, v, args[1].parse().unwrap(), args[2].parse().unwrap(), &unhex(args[3]));
        }
        _ => {}
    }
}

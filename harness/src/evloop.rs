//! `evloop` stream: the real `Server::process_events` driven ONE CALL AT A TIME on a real mio socket and a
//! real health-check listener, with datagrams / TCP connections queued between calls; after every call the
//! harness records who got a reply and how many connections were answered. The Lean model
//! (Model/EventLoop.lean) is run on the same step list: per call it predicts exactly which queued datagrams
//! are read (≤ 16 batches, backlog flag, edge-triggered readiness) and which connections are answered.
//!
//! steps:  `c<k>` / `i<k>` / `x<k>`  client k sends a valid classic / valid IETF / invalid datagram
//!         `t`                      one TCP connection to the health-check port is opened (completes in the kernel)
//!         `P`                      one `process_events` call
//! observation per `P`: `<sorted client ids of the replies received, joined by '.'>/<connections answered>`
use crate::rig::*;
use crate::util::*;
use crate::Ctx;
use std::io::Read;
use std::net::{SocketAddr, TcpListener, TcpStream};
use std::time::Duration;

use crate::procs::HTTP_RESPONSE as HTTP_OK;

fn free_tcp_port() -> u16 {
    TcpListener::bind(SocketAddr::new(std::net::IpAddr::V4(crate::rig::rig_ip()), 0)).unwrap().local_addr().unwrap().port()
}

pub fn run_scenario(batch: u8, hc: bool, per_client: bool, slow: bool, steps: &[String]) -> String {
    let steps = steps.to_vec();
    // slow log sink at level debug: every third record takes 30 ms to write (a worker stalled INSIDE a call)
    crate::rig::set_stall(if slow { 3 } else { 0 }, 30);
    let r = on_named_thread("worker-0", move || {
        let nclients = 4;
        let hc_port = if hc { Some(free_tcp_port()) } else { None };
        let cfg = RigCfg { seed: vec![7u8; 32], batch, fault: 0, per_client, level: if slow { "debug".into() } else { "off".into() }, status: None };
        let mut rig = match guarded(|| Rig::new_hc(cfg, nclients, hc_port)) {
            Some(r) => r,
            None => return "newpanic=1".to_string(),
        };
        let mut conns: Vec<(TcpStream, bool)> = vec![]; // (stream, already answered)
        let mut obs: Vec<String> = vec![];
        let mut counter: u64 = 0;
        let mut panicked = false;
        for s in &steps {
            let (kind, arg) = s.split_at(1);
            match kind {
                "c" | "i" | "x" => {
                    let k: usize = arg.parse().unwrap();
                    counter += 1;
                    let mut nonce = vec![0u8; 64];
                    nonce[..8].copy_from_slice(&counter.to_le_bytes());
                    let d = match kind {
                        "c" => classic_request(&nonce, 1024),
                        "i" => ietf_request(&VER13, None, &nonce[..32], 1024),
                        _ => vec![0u8; 100],
                    };
                    rig.send(k, &d);
                }
                "t" => {
                    let addr: SocketAddr = SocketAddr::new(std::net::IpAddr::V4(crate::rig::rig_ip()), hc_port.unwrap());
                    let st = TcpStream::connect_timeout(&addr, Duration::from_secs(2)).expect("connect health port");
                    st.set_nonblocking(true).unwrap();
                    conns.push((st, false));
                }
                "P" => {
                    if !rig.process() {
                        panicked = true;
                        break;
                    }
                    let mut ids: Vec<usize> = rig.drain().into_iter().map(|(i, _)| i).collect();
                    ids.sort();
                    // connections answered by this call: the fixed response is readable, then EOF
                    std::thread::sleep(Duration::from_millis(1));
                    let mut answered = 0;
                    let mut garbled = 0;
                    for (st, done) in conns.iter_mut() {
                        if *done {
                            continue;
                        }
                        let mut buf = [0u8; 256];
                        match st.read(&mut buf) {
                            Ok(n) if n > 0 => {
                                *done = true;
                                answered += 1;
                                if &buf[..n] != HTTP_OK.as_bytes() {
                                    garbled += 1;
                                }
                            }
                            _ => {}
                        }
                    }
                    obs.push(format!(
                        "{}/{}{}",
                        ids.iter().map(|i| i.to_string()).collect::<Vec<_>>().join("."),
                        answered,
                        if garbled > 0 { format!("!{}", garbled) } else { String::new() }
                    ));
                }
                _ => panic!("bad step {}", s),
            }
        }
        // what the worker's statistics recorder holds at the end (C17: every event of the traffic served, exactly once)
        let rec = guarded(|| {
            let st = rig.server.stats_verif();
            format!("{}.{}.{}.{}", st.total_valid_requests(), st.total_invalid_requests(), st.total_health_checks(), st.total_responses_sent())
        }).unwrap_or_else(|| "panic".to_string());
        format!("panic={} obs={} rec={}", if panicked { 1 } else { 0 }, if obs.is_empty() { "-".to_string() } else { obs.join(",") }, rec)
    });
    crate::rig::set_stall(0, 0);
    crate::rig::set_level("off");
    r
}

fn emit(out: &mut Out, batch: u8, hc: bool, per_client: bool, tag: &str, steps: Vec<String>) {
    if !out.mine() {
        out.skip();
        return;
    }
    let cfg = format!("batch={},hc={},pc={},tag={}", batch, hc as u8, per_client as u8, tag);
    let imp = run_scenario(batch, hc, per_client, tag.starts_with("slowlog"), &steps);
    out.case("loop", &[&cfg, &steps.join(" ")], &imp);
}

fn sends(rng: &mut Rng, n: usize, steps: &mut Vec<String>, valid_only: bool) {
    for _ in 0..n {
        let k = rng.below(4);
        let kind = if valid_only { *rng.pick(&["c", "i"]) } else { *rng.pick(&["c", "i", "c", "i", "x"]) };
        steps.push(format!("{}{}", kind, k));
    }
}

fn tail(steps: &mut Vec<String>, queued: usize, batch: u8) {
    // enough calls to drain whatever may still be queued, plus one idle call
    let per = 16 * batch as usize;
    for _ in 0..(queued / per + 2) {
        steps.push("P".into());
    }
}

pub fn run(ctx: &Ctx) {
    quiet_panics();
    install_logger();
    let mut out = Out::sharded(ctx.shard);
    let mut rng = Rng::new(ctx.seed ^ 0x6c6f6f70);
    // 1. boundary bursts around 16 * batch for small batch sizes
    // (16 and 64: totals of 255 / 256 / 257 and more datagrams handled by ONE call — seeded change C18-r5 counted
    // them in a u8)
    let batches: &[u8] = if ctx.thorough { &[1, 2, 3, 5, 7, 16, 32, 64] } else { &[1, 2, 3, 16, 64] };
    for &b in batches {
        let per = 16 * b as usize;
        let sizes: Vec<usize> = if b == 64 { vec![1, 63, 64, 65, 200, 255, 256, 257, per - 1, per, per + 1, 2 * per + 2] } else { vec![0, 1, b as usize, per - 1, per, per + 1, 2 * per - 1, 2 * per, 2 * per + 1, 3 * per + 2] };
        for n in sizes {
            let mut steps = vec![];
            sends(&mut rng, n, &mut steps, false);
            tail(&mut steps, n, b);
            emit(&mut out, b, false, false, &format!("burst{}", n), steps);
        }
    }
    // 1b. a worker stalled inside a call (slow log sink): several non-draining batches, each response logs one record
    for &(b, n) in if ctx.thorough { &[(1u8, 20usize), (2, 40), (3, 30), (2, 70)][..] } else { &[(1u8, 12usize), (2, 36)][..] } {
        let mut steps = vec![];
        sends(&mut rng, n, &mut steps, true);
        tail(&mut steps, n, b);
        emit(&mut out, b, false, false, &format!("slowlog{}", n), steps);
    }
    // 2. arrivals between calls while a backlog exists; edge without data; idle calls in between
    let rounds = if ctx.thorough { 60 } else { 16 };
    for r in 0..rounds {
        let b = *rng.pick(&[1u8, 2, 3]);
        let per = 16 * b as usize;
        let mut steps = vec![];
        let mut queued = 0usize;
        for _ in 0..rng.range(2, 5) {
            let n = *rng.pick(&[0usize, 1, 2, per - 1, per, per + 1, per + 3, 2 * per + 1]);
            sends(&mut rng, n, &mut steps, false);
            queued += n;
            let calls = rng.range(0, 2);
            for _ in 0..calls {
                steps.push("P".into());
                queued = queued.saturating_sub(per);
            }
        }
        tail(&mut steps, queued, b);
        emit(&mut out, b, false, r % 2 == 1, "mixed", steps);
    }
    // 3. health-check connections: several pending behind one readiness event, mixed with datagrams
    let rounds = if ctx.thorough { 40 } else { 12 };
    for r in 0..rounds {
        let b = *rng.pick(&[1u8, 2, 64]);
        let mut steps = vec![];
        let mut queued = 0usize;
        for _ in 0..rng.range(1, 4) {
            let nt = *rng.pick(&[1usize, 2, 3, 5, 9, 33]);
            for _ in 0..nt {
                steps.push("t".into());
            }
            let n = *rng.pick(&[0usize, 1, 3, 17]);
            sends(&mut rng, n, &mut steps, false);
            queued += n;
            if rng.chance(2, 3) {
                steps.push("P".into());
                queued = queued.saturating_sub(16 * b as usize);
            }
        }
        tail(&mut steps, queued, b);
        emit(&mut out, b, true, r % 2 == 0, "health", steps);
    }
    out.flush();
}

pub fn replay_one(out: &mut Out, args: &[&str]) {
    install_logger();
    let kv: std::collections::HashMap<&str, &str> = args[0].split(',').filter_map(|x| x.split_once('=')).collect();
    let steps: Vec<String> = args[1].split(' ').filter(|s| !s.is_empty()).map(|s| s.to_string()).collect();
    let imp = run_scenario(kv["batch"].parse().unwrap(), kv["hc"] == "1", kv["pc"] == "1", kv.get("tag").map(|t| t.starts_with("slowlog")).unwrap_or(false), &steps);
    out.case("loop", &[args[0], args[1]], &imp);
}

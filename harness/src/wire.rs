//! Pure wire-level helpers that do NOT touch the roughenough library: request builders, the
//! request generator (valid / near-valid / junk datagrams), the secret-material patterns of the
//! C20 monitor. The process-level rigs (client.rs, procs.rs) depend only on this module and util,
//! so they keep compiling when the library's API changes.
use crate::util::*;
use ring::digest;

// ---------------------------------------------------------------------------------------------
// request builders (harness-side; independent of the client binary)

pub fn le32(x: u32) -> [u8; 4] {
    x.to_le_bytes()
}

/// encode a tag-value message from (wire tag, value) pairs given in wire order
pub fn enc_msg(fields: &[(&[u8; 4], Vec<u8>)]) -> Vec<u8> {
    let n = fields.len();
    let mut out = vec![];
    out.extend(le32(n as u32));
    let mut off = 0usize;
    for (i, (_, v)) in fields.iter().enumerate() {
        if i > 0 {
            out.extend(le32(off as u32));
        }
        off += v.len();
    }
    for (t, _) in fields {
        out.extend_from_slice(*t);
    }
    for (_, v) in fields {
        out.extend_from_slice(v);
    }
    out
}

pub fn classic_request(nonce: &[u8], total_len: usize) -> Vec<u8> {
    // NONC + PAD so that the whole message is total_len bytes: header 4 + 4 + 8 = 16
    let pad = total_len.saturating_sub(16 + nonce.len());
    enc_msg(&[(b"NONC", nonce.to_vec()), (b"PAD\xff", vec![0u8; pad])])
}

pub fn frame(body: &[u8]) -> Vec<u8> {
    let mut v = b"ROUGHTIM".to_vec();
    v.extend(le32(body.len() as u32));
    v.extend_from_slice(body);
    v
}

/// IETF request: VER [SRV] NONC ZZZZ, framed, total datagram length `total_len`
pub fn ietf_request(ver: &[u8], srv: Option<&[u8]>, nonce: &[u8], total_len: usize) -> Vec<u8> {
    let nfields = if srv.is_some() { 4 } else { 3 };
    let header = 4 + 4 * (nfields - 1) + 4 * nfields;
    let fixed = 12 + header + ver.len() + srv.map(|s| s.len()).unwrap_or(0) + nonce.len();
    let pad = total_len.saturating_sub(fixed) / 4 * 4;
    let mut fields: Vec<(&[u8; 4], Vec<u8>)> = vec![(b"VER\0", ver.to_vec())];
    if let Some(s) = srv {
        fields.push((b"SRV\0", s.to_vec()));
    }
    fields.push((b"NONC", nonce.to_vec()));
    fields.push((b"ZZZZ", vec![0u8; pad]));
    frame(&enc_msg(&fields))
}

pub const VER13: [u8; 4] = [0x0c, 0x00, 0x00, 0x80];

fn b64_variants(secret: &[u8]) -> Vec<Vec<u8>> {
    use data_encoding::{BASE64, BASE64URL, BASE64URL_NOPAD, BASE64_NOPAD};
    let mut v: Vec<Vec<u8>> = vec![];
    for k in 0..3usize {
        let mut buf = vec![0u8; k];
        buf.extend_from_slice(secret);
        for enc in [BASE64.encode(&buf), BASE64URL.encode(&buf), BASE64_NOPAD.encode(&buf), BASE64URL_NOPAD.encode(&buf)] {
            let e = enc.trim_end_matches('=').as_bytes().to_vec();
            let skip = if k == 0 { 0 } else { k + 1 };
            let inner = e[skip..e.len() - 2].to_vec();
            v.push(inner);
        }
    }
    v
}

pub fn secret_patterns(seed: &[u8]) -> Vec<(String, Vec<u8>)> {
    let h = digest::digest(&digest::SHA512, seed);
    let h = h.as_ref();
    let mut scalar = h[..32].to_vec();
    scalar[0] &= 248;
    scalar[31] &= 127;
    scalar[31] |= 64;
    let secrets: Vec<(&str, Vec<u8>)> = vec![
        ("seed", seed.to_vec()),
        ("scalar", scalar),
        ("sha512lo", h[..32].to_vec()),
        ("sha512hi", h[32..].to_vec()),
    ];
    let mut pats = vec![];
    for (name, s) in secrets {
        pats.push((format!("{}:raw", name), s.clone()));
        let hx = hex(&s);
        pats.push((format!("{}:hex", name), hx.clone().into_bytes()));
        pats.push((format!("{}:HEX", name), hx.to_uppercase().into_bytes()));
        for (i, b) in b64_variants(&s).into_iter().enumerate() {
            pats.push((format!("{}:b64-{}", name, i), b));
        }
    }
    pats
}

fn contains(hay: &[u8], needle: &[u8]) -> bool {
    !needle.is_empty() && hay.len() >= needle.len() && hay.windows(needle.len()).any(|w| w == needle)
}

pub fn leak_scan(pats: &[(String, Vec<u8>)], hay: &[u8]) -> Option<String> {
    for (name, p) in pats {
        if contains(hay, p) {
            return Some(name.clone());
        }
    }
    // hexadecimal in any mix of upper and lower case
    if hay.iter().any(|b| b.is_ascii_uppercase()) {
        let lower = hay.to_ascii_lowercase();
        for (name, p) in pats {
            if name.ends_with(":hex") && contains(&lower, p) {
                return Some(format!("{}-anycase", name));
            }
        }
    }
    // hexadecimal with separators: `{:02x?}` / `{:x?}` of a byte slice ("[a3, 20, 49, ..]"), colon- or
    // space-separated dumps, 0x-prefixed bytes. Everything that is not a hex digit is squeezed out (after
    // dropping "0x" prefixes) and the plain hex patterns are searched again.
    if hay.iter().any(|b| matches!(b, b',' | b':' | b' ')) {
        let lower = hay.to_ascii_lowercase();
        let mut sq: Vec<u8> = Vec::with_capacity(lower.len());
        let mut sq1: Vec<u8> = Vec::with_capacity(lower.len()); // variant for `{:x?}` (no zero padding): single digits padded
        let mut i = 0;
        let mut run: Vec<u8> = vec![];
        let mut flush = |run: &mut Vec<u8>, sq: &mut Vec<u8>, sq1: &mut Vec<u8>| {
            sq.extend_from_slice(run);
            if run.len() == 1 { sq1.push(b'0'); }
            sq1.extend_from_slice(run);
            run.clear();
        };
        while i < lower.len() {
            if lower[i] == b'0' && i + 1 < lower.len() && lower[i + 1] == b'x' {
                flush(&mut run, &mut sq, &mut sq1);
                i += 2;
                continue;
            }
            if lower[i].is_ascii_hexdigit() { run.push(lower[i]); } else { flush(&mut run, &mut sq, &mut sq1); }
            i += 1;
        }
        flush(&mut run, &mut sq, &mut sq1);
        for (name, p) in pats {
            if name.ends_with(":hex") && (contains(&sq, p) || contains(&sq1, p)) {
                return Some(format!("{}-separated", name));
            }
        }
    }
    None
}


pub fn srv_of_seed(seed: &[u8]) -> Vec<u8> {
    // SRV = SHA-512(0xff || pk)[0..32]; pk via ed25519-dalek directly (not via roughenough)
    use ed25519_dalek::SigningKey;
    let sk = SigningKey::from_bytes(seed.try_into().unwrap());
    let pk = sk.verifying_key().to_bytes();
    let mut ctx = digest::Context::new(&digest::SHA512);
    ctx.update(&[0xff]);
    ctx.update(&pk);
    ctx.finish().as_ref()[..32].to_vec()
}

pub struct Gen<'a> {
    pub r: &'a mut Rng,
    pub seed: Vec<u8>,
    pub srv: Vec<u8>,
}

impl<'a> Gen<'a> {
    pub fn new(r: &'a mut Rng) -> Self {
        let seed = match r.below(8) {
            // (seeds with long zero runs would make the C20 monitor fire on the Merkle zero pad node: a false alarm)
            0 => (0..32).map(|i| (i * 7 + 3) as u8).collect(),
            1 => vec![0xff; 32],
            2 => (0..32).collect(),
            _ => r.bytes(32),
        };
        let srv = srv_of_seed(&seed);
        Gen { r, seed, srv }
    }
    pub fn valid_classic(&mut self) -> Vec<u8> {
        let len = match self.r.below(4) { 0 => 1024, 1 => 1500, _ => 1024 + 4 * self.r.below(120) as usize };
        let nonce = self.r.bytes(64);
        classic_request(&nonce, len)
    }
    pub fn valid_ietf(&mut self) -> Vec<u8> {
        let len = match self.r.below(4) { 0 => 1024, 1 => 1500, _ => 1024 + 4 * self.r.below(120) as usize };
        let nonce = self.r.bytes(32);
        let srv = self.srv.clone();
        let with_srv = self.r.chance(1, 2);
        ietf_request(&VER13, if with_srv { Some(&srv) } else { None }, &nonce, len)
    }
    pub fn valid_any(&mut self) -> Vec<u8> {
        if self.r.chance(1, 2) { self.valid_classic() } else { self.valid_ietf() }
    }
    /// Parsable-but-degenerate datagrams of a valid request length: messages with fewer fields than a request
    /// needs (none at all, one, or one of the required ones missing). They must be judged on their own content
    /// only — whatever an earlier datagram made the parser or the server remember.
    pub const DEGENERATE_KINDS: usize = 9;
    pub fn degenerate(&mut self, k: usize) -> Vec<u8> {
        let len = *self.r.pick(&[1024usize, 1028, 1200, 1500]);
        let n32 = self.r.bytes(32);
        let n64 = self.r.bytes(64);
        match k % Self::DEGENERATE_KINDS {
            0 => { let mut body = vec![0u8; len - 12]; body[0..4].copy_from_slice(&0u32.to_le_bytes()); frame(&body) } // framed, zero tags
            1 => vec![0u8; len],                                                                    // classic, zero tags
            2 => frame(&enc_msg(&[(b"NONC", { let mut v = n32.clone(); v.resize(len - 12 - 8, 0); v })])), // framed, NONC only (long)
            3 => frame(&enc_msg(&[(b"VER\0", { let mut v = VER13.to_vec(); v.resize(len - 12 - 8, 0); v })])), // framed, VER only (long list)
            4 => frame(&enc_msg(&[(b"NONC", n32.clone()), (b"ZZZZ", vec![0u8; len - 12 - 16 - 32])])),   // framed, no VER
            5 => frame(&enc_msg(&[(b"VER\0", VER13.to_vec()), (b"ZZZZ", vec![0u8; len - 12 - 16 - 4])])), // framed, no NONC
            6 => frame(&enc_msg(&[(b"ZZZZ", vec![0u8; len - 12 - 8])])),                                  // framed, padding only
            7 => enc_msg(&[(b"PAD\xff", vec![0u8; len - 8])]),                                           // classic, padding only
            _ => { let _ = &n64; frame(&enc_msg(&[(b"SRV\0", self.srv.clone()), (b"ZZZZ", vec![0u8; len - 12 - 16 - 32])])) } // framed, SRV only
        }
    }
    /// A valid request of either protocol in which ONE header word (the tag count or one value offset) is replaced
    /// by a boundary value: around the length of the value area, around the length of the whole message, around the
    /// header length, around its neighbours, unaligned, huge. (Seeded change C08-r5: an offset checked against the
    /// message length instead of the value area passed the check and the slice panicked.)
    pub fn near_valid_header(&mut self) -> Vec<u8> {
        let mut d = self.valid_any();
        let base = if d.starts_with(b"ROUGHTIM") { 12 } else { 0 };
        let msg_len = (d.len() - base) as i64;
        let n = u32::from_le_bytes([d[base], d[base + 1], d[base + 2], d[base + 3]]) as usize;
        if n < 2 { return d; }
        let header = (4 + 4 * (n - 1) + 4 * n) as i64;
        let area = msg_len - header;
        let k = self.r.below(n as u64) as usize; // 0 = the tag count, 1..n-1 = offset k
        let pos = base + 4 * k;
        let cur = u32::from_le_bytes([d[pos], d[pos + 1], d[pos + 2], d[pos + 3]]) as i64;
        let anchors = [area, msg_len, header, cur, 0, msg_len + base as i64, d.len() as i64, 1 << 16, 0x1_0000_0000 - 4];
        let a = *self.r.pick(&anchors);
        let delta = *self.r.pick(&[0i64, 4, -4, 8, -8, 12, -12, 16, 1, -1, 2, 64, -64]);
        let v = if k == 0 { *self.r.pick(&[0i64, 1, (n as i64) - 1, (n as i64) + 1, 18, 19, 1024, 1025, 0xffff_ffff]) } else { (a + delta).max(0) };
        d[pos..pos + 4].copy_from_slice(&(v as u32).to_le_bytes());
        d
    }
    /// A request of either protocol (supported or unsupported version list, no / this server's / another SRV) that
    /// carries 1..3 ADDITIONAL known tags at their sorted positions — before, between and after the tags a request
    /// needs — whose values are plausible values of the needed tags (a version list, an SRV value, nonce-sized bytes).
    /// (Seeded change C12-r7: a selective decoder paired the i-th wanted tag with the i-th value on the wire.)
    pub fn extra_tags(&mut self) -> Vec<u8> {
        const KNOWN: [&[u8; 4]; 18] = [b"SIG\0", b"VER\0", b"SRV\0", b"NONC", b"DELE", b"PATH", b"RADI", b"PUBK", b"MIDP", b"SREP", b"VERS", b"MINT", b"ROOT", b"CERT", b"MAXT", b"INDX", b"ZZZZ", b"PAD\xff"];
        let ietf = self.r.chance(2, 3);
        let mut fields: Vec<(&[u8; 4], Vec<u8>)> = vec![];
        if ietf {
            let ver = match self.r.below(4) { 0 => vec![1, 0, 0, 0x80], 1 => { let mut v = vec![1, 0, 0, 0x80]; v.extend(VER13); v } _ => VER13.to_vec() };
            fields.push((b"VER\0", ver));
            match self.r.below(3) { 0 => {} 1 => fields.push((b"SRV\0", self.srv.clone())), _ => { let s = self.r.bytes(32); fields.push((b"SRV\0", s)) } }
            fields.push((b"NONC", self.r.bytes(32)));
        } else {
            fields.push((b"NONC", self.r.bytes(64)));
        }
        let pad_tag: &[u8; 4] = if ietf { b"ZZZZ" } else { b"PAD\xff" };
        for _ in 0..self.r.range(1, 3) {
            let t = KNOWN[self.r.below(18) as usize];
            if t == pad_tag || fields.iter().any(|(x, _)| *x == t) { continue; }
            let v = match self.r.below(6) {
                0 => VER13.to_vec(),
                1 => self.srv.clone(),
                2 => self.r.bytes(32),
                3 => self.r.bytes(64),
                4 => vec![1, 0, 0, 0x80],
                _ => { let k = 4 * self.r.below(12) as usize; self.r.bytes(k) }
            };
            fields.push((t, v));
        }
        let used: usize = 8 * (fields.len() + 1) + fields.iter().map(|(_, v)| v.len()).sum::<usize>() + if ietf { 12 } else { 0 };
        let total = *self.r.pick(&[1024usize, 1200, 1500]);
        fields.push((pad_tag, vec![0u8; total.saturating_sub(used)]));
        fields.sort_by_key(|(t, _)| u32::from_le_bytes(**t));
        let mut body = enc_msg(&fields);
        // every third one: ONE interior value offset moved by a few bytes (the message length stays a multiple of four;
        // a boundary between two fields a request does not need can move without touching NONC / VER / SRV lengths —
        // seeded change C07-r8 dropped the alignment check of interior offsets)
        if self.r.chance(1, 3) && fields.len() >= 3 {
            let k = 1 + self.r.below(fields.len() as u64 - 1) as usize;
            let pos = 4 * k;
            let cur = u32::from_le_bytes([body[pos], body[pos + 1], body[pos + 2], body[pos + 3]]) as i64;
            let d = *self.r.pick(&[1i64, 2, 3, -1, -2, -3, 4, -4, 6]);
            body[pos..pos + 4].copy_from_slice(&((cur + d).max(0) as u32).to_le_bytes());
        }
        if ietf { frame(&body) } else { body }
    }
    /// near-valid mutant or junk
    pub fn invalid(&mut self) -> Vec<u8> {
        if self.r.chance(1, 8) {
            return self.extra_tags();
        }
        if self.r.chance(1, 6) {
            let k = self.r.below(Self::DEGENERATE_KINDS as u64) as usize;
            return self.degenerate(k);
        }
        match self.r.below(22) {
            18 | 19 | 20 | 21 => self.near_valid_header(),
            0 => vec![],
            1 => { let n = self.r.below(64) as usize; self.r.bytes(n) }
            2 => { let n = *self.r.pick(&[1023usize, 1024, 1500, 1501, 1499, 1025]); self.r.bytes(n) }
            3 => { let n = *self.r.pick(&[4096usize, 16384, 65507, 2000]); self.r.bytes(n) }
            4 => { let mut d = self.valid_classic(); d.truncate(1020); d }           // too short
            5 => { let mut d = self.valid_classic(); d.extend(vec![0u8; 1504 - d.len().min(1504)]); d.extend([0u8; 4]); d } // too long
            6 => { let n = self.r.bytes(64); classic_request(&n, 1000) }               // short but well-formed
            7 => { // classic with wrong nonce length
                let k = *self.r.pick(&[0usize, 4, 32, 60, 68, 128, 1008]);
                let n = self.r.bytes(k);
                classic_request(&n, 1024.max(16 + k))
            }
            8 => { // ietf with wrong nonce length
                let k = *self.r.pick(&[0usize, 4, 28, 36, 64]);
                let n = self.r.bytes(k);
                ietf_request(&VER13, None, &n, 1024)
            }
            9 => { // frame length off by something
                let mut d = self.valid_ietf();
                let cur = u32::from_le_bytes([d[8], d[9], d[10], d[11]]);
                let delta = *self.r.pick(&[1u32, 4, 0xffff_fffc, 12, 0xffff_fff4]);
                d[8..12].copy_from_slice(&cur.wrapping_add(delta).to_le_bytes());
                d
            }
            10 => { // unsupported version only
                let n = self.r.bytes(32);
                ietf_request(&[1, 0, 0, 0x80], None, &n, 1024)
            }
            11 => { // wrong SRV
                let n = self.r.bytes(32);
                let s = self.r.bytes(32);
                ietf_request(&VER13, Some(&s), &n, 1024)
            }
            12 => { // no NONC at all (classic: only PAD)
                enc_msg(&[(b"PAD\xff", vec![0u8; 1016])])
            }
            13 => { // bit flip in the header area of a valid request
                let mut d = self.valid_any();
                let i = self.r.below(40) as usize;
                d[i] ^= 1 << self.r.below(8);
                d
            }
            14 => { // magic only, then junk
                let mut d = b"ROUGHTIM".to_vec();
                d.extend(self.r.bytes(1024));
                d
            }
            15 => { // classic message whose value offsets point past the end of the datagram (into whatever a
                    // previous, larger datagram left in the receive buffer)
                let total = *self.r.pick(&[1024usize, 1100, 1500]);
                let mut d = vec![0u8; total];
                let o1 = total as u32 + 4 * self.r.range(1, 40) as u32;
                let o2 = o1 + 64;
                d[0..4].copy_from_slice(&3u32.to_le_bytes());
                d[4..8].copy_from_slice(&o1.to_le_bytes());
                d[8..12].copy_from_slice(&o2.to_le_bytes());
                d[12..16].copy_from_slice(b"SIG\0");
                d[16..20].copy_from_slice(b"NONC");
                d[20..24].copy_from_slice(b"PAD\xff");
                d
            }
            16 => { // two-field classic message, PAD offset beyond the datagram
                let total = 1024usize;
                let mut d = self.r.bytes(total);
                d[0..4].copy_from_slice(&2u32.to_le_bytes());
                d[4..8].copy_from_slice(&((total as u32) + 64).to_le_bytes());
                d[8..12].copy_from_slice(b"NONC");
                d[12..16].copy_from_slice(b"PAD\xff");
                d
            }
            _ => { // valid-looking request with the tags in wrong order
                let n = self.r.bytes(64);
                enc_msg(&[(b"PAD\xff", vec![0u8; 944]), (b"NONC", n)])
            }
        }
    }
}


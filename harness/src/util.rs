//! Shared helpers: deterministic PRNG (SplitMix64), hex, line output, panic capture.
use std::io::Write;
use std::panic::{catch_unwind, AssertUnwindSafe};

#[derive(Clone)]
pub struct Rng(pub u64);

impl Rng {
    pub fn new(seed: u64) -> Self {
        Rng(seed.wrapping_mul(0x9E3779B97F4A7C15).wrapping_add(0x1234_5678_9abc_def1))
    }
    pub fn next(&mut self) -> u64 {
        self.0 = self.0.wrapping_add(0x9E3779B97F4A7C15);
        let mut z = self.0;
        z = (z ^ (z >> 30)).wrapping_mul(0xBF58476D1CE4E5B9);
        z = (z ^ (z >> 27)).wrapping_mul(0x94D049BB133111EB);
        z ^ (z >> 31)
    }
    /// uniform in 0..n (n > 0)
    pub fn below(&mut self, n: u64) -> u64 {
        self.next() % n
    }
    pub fn range(&mut self, lo: u64, hi_incl: u64) -> u64 {
        lo + self.below(hi_incl - lo + 1)
    }
    pub fn chance(&mut self, num: u64, den: u64) -> bool {
        self.below(den) < num
    }
    pub fn bytes(&mut self, n: usize) -> Vec<u8> {
        let mut v = Vec::with_capacity(n);
        while v.len() < n {
            let x = self.next().to_le_bytes();
            let take = (n - v.len()).min(8);
            v.extend_from_slice(&x[..take]);
        }
        v
    }
    pub fn pick<'a, T>(&mut self, xs: &'a [T]) -> &'a T {
        &xs[self.below(xs.len() as u64) as usize]
    }
    pub fn fork(&mut self) -> Rng {
        Rng(self.next())
    }
}

pub fn hex(b: &[u8]) -> String {
    if b.is_empty() {
        return "-".to_string();
    }
    const D: &[u8; 16] = b"0123456789abcdef";
    let mut s = String::with_capacity(b.len() * 2);
    for x in b {
        s.push(D[(x >> 4) as usize] as char);
        s.push(D[(x & 15) as usize] as char);
    }
    s
}

pub fn unhex(s: &str) -> Vec<u8> {
    if s == "-" {
        return vec![];
    }
    let b = s.as_bytes();
    let v = |c: u8| -> u8 {
        match c {
            b'0'..=b'9' => c - b'0',
            b'a'..=b'f' => c - b'a' + 10,
            b'A'..=b'F' => c - b'A' + 10,
            _ => panic!("bad hex"),
        }
    };
    (0..b.len() / 2).map(|i| v(b[2 * i]) * 16 + v(b[2 * i + 1])).collect()
}

/// Run `f` and map a panic to `None`. The default panic hook is silenced by `quiet_panics`.
pub fn guarded<T>(f: impl FnOnce() -> T) -> Option<T> {
    catch_unwind(AssertUnwindSafe(f)).ok()
}

pub fn quiet_panics() {
    if std::env::var("RVH_DEBUG").is_ok() {
        return;
    }
    std::panic::set_hook(Box::new(|_| {}));
}

pub struct Out {
    w: std::io::BufWriter<std::io::Stdout>,
    pub lines: u64,
    /// output-level sharding: only every n-th case line (offset i) is printed
    pub shard: (u64, u64),
}

impl Out {
    pub fn new() -> Self {
        Out { w: std::io::BufWriter::with_capacity(1 << 20, std::io::stdout()), lines: 0, shard: (0, 1) }
    }
    /// one case: op, args, implementation output
    pub fn sharded(shard: (u64, u64)) -> Self {
        let mut o = Out::new();
        o.shard = shard;
        o
    }
    /// should the next case be produced at all? (lets generators skip expensive work)
    pub fn mine(&self) -> bool {
        self.lines % self.shard.1 == self.shard.0
    }
    pub fn skip(&mut self) {
        self.lines += 1;
    }
    pub fn case(&mut self, op: &str, args: &[&str], imp: &str) {
        if !self.mine() {
            self.lines += 1;
            return;
        }
        self.w.write_all(op.as_bytes()).unwrap();
        for a in args {
            self.w.write_all(b"\t").unwrap();
            self.w.write_all(a.as_bytes()).unwrap();
        }
        self.w.write_all(b"\t").unwrap();
        self.w.write_all(imp.as_bytes()).unwrap();
        self.w.write_all(b"\n").unwrap();
        self.lines += 1;
    }
    pub fn flush(&mut self) {
        self.w.flush().unwrap();
    }
}

/// `recv_from` that ignores datagrams which do not come from `peer_port` on loopback: other test processes on this host
/// (another check's flooding clients have exited while their server still answers the queued requests) can hit an
/// ephemeral port that one of our sockets has since been given. A stray datagram is not an observation of the
/// implementation under test. Returns the first datagram from the expected port, or the socket's error (timeout /
/// WouldBlock) when none is left.
pub fn recv_from_port(sock: &std::net::UdpSocket, buf: &mut [u8], peer_port: u16) -> std::io::Result<(usize, std::net::SocketAddr)> {
    loop {
        let (n, a) = sock.recv_from(buf)?;
        if a.port() == peer_port {
            return Ok((n, a));
        }
    }
}

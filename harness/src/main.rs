//! rvh: correspondence harness. Each sub-command drives the real roughenough code (library
//! in-process, or the real binaries) and prints one case per line: `op \t args.. \t impl-output`.
//! The Lean driver answers each line with a verdict (see /verif/lean/Rough/Driver).
mod cfg;
mod client;
mod codec;
mod envelope;
mod keys;
mod merkle;
mod procs;
mod reqs;
mod rig;
mod srv;
mod stats;
mod util;

fn main() {
    let args: Vec<String> = std::env::args().collect();
    if args.len() >= 3 && args[1] == "cfgprobe" {
        cfg::probe(&args[2]);
        return;
    }
    if args.len() < 2 {
        eprintln!("usage: rvh <stream> [--seed N] [--tier quick|thorough] [--shard i/n]");
        std::process::exit(2);
    }
    let mut seed: u64 = 1;
    let mut tier = "quick".to_string();
    let mut shard = (0u64, 1u64);
    let mut rest: Vec<String> = vec![];
    let mut i = 2;
    while i < args.len() {
        match args[i].as_str() {
            "--seed" => {
                seed = args[i + 1].parse().expect("seed");
                i += 2;
            }
            "--tier" => {
                tier = args[i + 1].clone();
                i += 2;
            }
            "--shard" => {
                let p: Vec<&str> = args[i + 1].split('/').collect();
                shard = (p[0].parse().unwrap(), p[1].parse().unwrap());
                i += 2;
            }
            _ => {
                rest.push(args[i].clone());
                i += 1;
            }
        }
    }
    let thorough = tier == "thorough";
    let ctx = Ctx { seed, thorough, shard, rest };
    match args[1].as_str() {
        "codec" => codec::run(&ctx),
        "merkle" => merkle::run(&ctx),
        "srv" => srv::run(&ctx),
        "sign" => keys::run_sign(&ctx),
        "cfg" => cfg::run(&ctx),
        "reqs" => reqs::run(&ctx),
        "startup" => procs::run_startup(&ctx),
        "workers" => procs::run_workers(&ctx),
        "shutdown" => procs::run_shutdown(&ctx),
        "client-real" => procs::run_client_real(&ctx),
        "procleak" => procs::run_procleak(&ctx),
        "envelope" => envelope::run(&ctx),
        "client-honest" => client::run_honest(&ctx),
        "client-forged" => client::run_forged(&ctx),
        "stats" => stats::run(&ctx),
        "ltk" => keys::run_ltk(&ctx),
        "srep" => keys::run_srep(&ctx),
        "replay" => replay(&ctx),
        other => {
            eprintln!("unknown stream {}", other);
            std::process::exit(2);
        }
    }
}

pub struct Ctx {
    pub seed: u64,
    pub thorough: bool,
    pub shard: (u64, u64),
    pub rest: Vec<String>,
}

/// `rvh replay <file>`: re-run the implementation on the case lines of a file (op \t args.. [\t old-impl])
/// and print fresh `op \t args \t impl` lines. Used for corpus and replay files.
fn replay(ctx: &Ctx) {
    use std::io::BufRead;
    util::quiet_panics();
    let mut out = util::Out::new();
    let f = std::fs::File::open(&ctx.rest[0]).expect("open replay file");
    for line in std::io::BufReader::new(f).lines() {
        let line = line.unwrap();
        if line.is_empty() || line.starts_with('#') {
            continue;
        }
        let parts: Vec<&str> = line.split('\t').collect();
        let op = parts[0];
        // the last column of a stored case is the old impl output; drop it
        let args = &parts[1..parts.len() - 1];
        match op {
            "dec" | "disp" | "enc" => codec::replay_one(&mut out, op, args),
            "merkle" => merkle::replay_one(&mut out, args),
            "srv" => srv::replay_one(&mut out, args),
            "cfg" => cfg::replay_one(&mut out, args),
            "req" => reqs::replay_one(&mut out, op, args),
            "envenc" | "envdec" => envelope::replay_one(&mut out, op, args),
            "client" => client::replay_one(&mut out, args),
            "stats" | "rep" => stats::replay_one(&mut out, op, args),
            "sign" | "vrf" | "ltk" | "srep" => keys::replay_one(&mut out, op, args),
            _ => eprintln!("replay: unknown op {}", op),
        }
    }
    out.flush();
}

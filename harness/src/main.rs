//! rvh: correspondence harness. Each sub-command drives the real roughenough code (library
//! in-process, or the real binaries) and prints one case per line: `op \t args.. \t impl-output`.
//! The Lean driver answers each line with a verdict (see /verif/lean/Rough/Driver).
#[cfg(feature = "m_cfg")]
mod cfg;
mod client;
#[cfg(feature = "m_codec")]
mod codec;
#[cfg(feature = "m_envelope")]
mod envelope;
#[cfg(feature = "m_loop")]
mod evloop;
#[cfg(feature = "m_keys")]
mod keys;
#[cfg(feature = "m_merkle")]
mod merkle;
mod procs;
#[cfg(feature = "m_reqs")]
mod reqs;
#[cfg(feature = "m_resp")]
mod resp;
#[cfg(feature = "m_rig")]
mod rig;
#[cfg(feature = "m_srv")]
mod srv;
#[cfg(feature = "m_stats")]
mod stats;
mod util;
mod wire;

fn main() {
    let args: Vec<String> = std::env::args().collect();
    #[cfg(feature = "m_cfg")]
    if args.len() >= 3 && args[1] == "cfgprobe" {
        cfg::probe(&args[2]);
        return;
    }
    #[cfg(feature = "m_cfg")]
    if args.len() >= 5 && args[1] == "cfgleakprobe" {
        cfg::leak_probe(&args[2], &args[3], &args[4]);
        return;
    }
    if args.len() < 2 {
        eprintln!("usage: rvh <stream> [--seed N] [--tier quick|thorough] [--shard i/n]");
        std::process::exit(2);
    }
    let mut seed: u64 = 1;
    let mut tier = "quick".to_string();
    let mut shard = (0u64, 1u64);
    let mut rest: Vec<String> = vec![];
    let mut i = 2;
    while i < args.len() {
        match args[i].as_str() {
            "--seed" => {
                seed = args[i + 1].parse().expect("seed");
                i += 2;
            }
            "--tier" => {
                tier = args[i + 1].clone();
                i += 2;
            }
            "--shard" => {
                let p: Vec<&str> = args[i + 1].split('/').collect();
                shard = (p[0].parse().unwrap(), p[1].parse().unwrap());
                i += 2;
            }
            _ => {
                rest.push(args[i].clone());
                i += 1;
            }
        }
    }
    let thorough = tier == "thorough";
    let ctx = Ctx { seed, thorough, shard, rest };
    match args[1].as_str() {
        #[cfg(feature = "m_codec")]
        "codec" => codec::run(&ctx),
        #[cfg(feature = "m_merkle")]
        "merkle" => merkle::run(&ctx),
        #[cfg(feature = "m_srv")]
        "srv" => srv::run(&ctx),
        #[cfg(feature = "m_keys")]
        "sign" => keys::run_sign(&ctx),
        #[cfg(feature = "m_cfg")]
        "cfg" => cfg::run(&ctx),
        #[cfg(feature = "m_cfg")]
        "cfgleak" => cfg::run_leak(&ctx),
        #[cfg(feature = "m_reqs")]
        "reqs" => reqs::run(&ctx),
        #[cfg(feature = "m_resp")]
        "respsend" => resp::run(&ctx),
        #[cfg(feature = "m_loop")]
        "evloop" => evloop::run(&ctx),
        "startup" => procs::run_startup(&ctx),
        "workers" => procs::run_workers(&ctx),
        "shutdown" => procs::run_shutdown(&ctx),
        "client-real" => procs::run_client_real(&ctx),
        "procleak" => procs::run_procleak(&ctx),
        #[cfg(feature = "m_envelope")]
        "envelope" => envelope::run(&ctx),
        "client-honest" => client::run_honest(&ctx),
        "client-forged" => client::run_forged(&ctx),
        #[cfg(feature = "m_stats")]
        "stats" => stats::run(&ctx),
        #[cfg(feature = "m_keys")]
        "ltk" => keys::run_ltk(&ctx),
        #[cfg(feature = "m_keys")]
        "srep" => keys::run_srep(&ctx),
        "replay" => replay(&ctx),
        other => {
            eprintln!("unknown stream {}", other);
            std::process::exit(2);
        }
    }
}

pub struct Ctx {
    pub seed: u64,
    pub thorough: bool,
    pub shard: (u64, u64),
    pub rest: Vec<String>,
}

/// `rvh replay <file>`: re-run the implementation on the case lines of a file (op \t args.. [\t old-impl])
/// and print fresh `op \t args \t impl` lines. Used for corpus and replay files.
fn replay(ctx: &Ctx) {
    use std::io::BufRead;
    util::quiet_panics();
    let mut out = util::Out::new();
    let f = std::fs::File::open(&ctx.rest[0]).expect("open replay file");
    for line in std::io::BufReader::new(f).lines() {
        let line = line.unwrap();
        if line.is_empty() || line.starts_with('#') {
            continue;
        }
        let parts: Vec<&str> = line.split('\t').collect();
        let op = parts[0];
        // the last column of a stored case is the old impl output; drop it
        let args = &parts[1..parts.len() - 1];
        match op {
            #[cfg(feature = "m_codec")]
            "dec" | "disp" | "enc" => codec::replay_one(&mut out, op, args),
            #[cfg(feature = "m_merkle")]
            "merkle" => merkle::replay_one(&mut out, args),
            #[cfg(feature = "m_srv")]
            "srv" => srv::replay_one(&mut out, args),
            #[cfg(feature = "m_cfg")]
            "cfg" => cfg::replay_one(&mut out, args),
            #[cfg(feature = "m_reqs")]
            "req" => reqs::replay_one(&mut out, op, args),
            #[cfg(feature = "m_resp")]
            "respsend" => resp::replay_one(&mut out, args),
            #[cfg(feature = "m_loop")]
            "loop" => evloop::replay_one(&mut out, args),
            #[cfg(feature = "m_cfg")]
            "cfgleak" => cfg::replay_leak(&mut out, args),
            #[cfg(feature = "m_envelope")]
            "envenc" | "envdec" => envelope::replay_one(&mut out, op, args),
            "client" => client::replay_one(&mut out, args),
            #[cfg(feature = "m_stats")]
            "stats" | "rep" => stats::replay_one(&mut out, op, args),
            #[cfg(feature = "m_keys")]
            "sign" | "vrf" | "ltk" | "srep" => keys::replay_one(&mut out, op, args),
            _ => eprintln!("replay: unknown op {}", op),
        }
    }
    out.flush();
}

//! Process-level rig for C01 / C03: the real `roughenough-client` binary against a loopback
//! responder whose replies come from the Lean reference responder (honest or forged).
use crate::wire::{enc_msg, frame};
use crate::util::*;
use crate::Ctx;
use std::io::{BufRead, BufReader, Write};
use std::net::UdpSocket;
use std::process::{Child, ChildStdin, ChildStdout, Command, Stdio};
use std::time::Duration;

pub struct Driver {
    child: Child,
    stdin: ChildStdin,
    stdout: BufReader<ChildStdout>,
}

impl Driver {
    pub fn start() -> Driver {
        let path = std::env::var("RVH_DRIVER").unwrap_or_else(|_| "/verif/lean/.lake/build/bin/driver".into());
        let mut child = Command::new(path).stdin(Stdio::piped()).stdout(Stdio::piped()).spawn().expect("spawn driver");
        let stdin = child.stdin.take().unwrap();
        let stdout = BufReader::new(child.stdout.take().unwrap());
        Driver { child, stdin, stdout }
    }
    /// one line in, the detail column of the answer out
    pub fn ask(&mut self, line: &str) -> String {
        self.stdin.write_all(line.as_bytes()).unwrap();
        self.stdin.write_all(b"\n").unwrap();
        self.stdin.flush().unwrap();
        let mut ans = String::new();
        self.stdout.read_line(&mut ans).unwrap();
        let parts: Vec<&str> = ans.trim_end_matches('\n').split('\t').collect();
        assert!(parts[0] == "ok", "driver answered {:?}", ans);
        parts[2].to_string()
    }
}

impl Drop for Driver {
    fn drop(&mut self) {
        let _ = self.child.kill();
        let _ = self.child.wait();
    }
}

#[derive(Clone)]
pub struct Resp {
    pub wire: char,
    pub dctx: char,
    pub sctx: char,
    pub lt: Vec<u8>,
    pub onl: Vec<u8>,
    pub midp: u64,
    pub radi: u32,
    pub mint: u64,
    pub maxt: u64,
    pub n: usize,
    pub mine: usize,
    pub at: usize,
    pub salt: Vec<u8>,
}

impl Resp {
    pub fn ask(&self, d: &mut Driver, request: &[u8]) -> Vec<u8> {
        let line = format!(
            "respond\t{}\t{}\t{}\t{}\t{}\t{}\t{}\t{}\t{}\t{}\t{}\t{}\t{}\t{}",
            self.wire, self.dctx, self.sctx, hex(&self.lt), hex(&self.onl), self.midp, self.radi, self.mint, self.maxt,
            self.n, self.mine, self.at, hex(request), hex(&self.salt)
        );
        unhex(&d.ask(&line))
    }
}

// ---------------------------------------------------------------------------------------------
// mini tag-value codec for forging (lenient: no order / tag checks)

pub type Fields = Vec<([u8; 4], Vec<u8>)>;

pub fn tv_parse(b: &[u8]) -> Option<Fields> {
    if b.len() < 4 || b.len() % 4 != 0 {
        return None;
    }
    let n = u32::from_le_bytes(b[0..4].try_into().unwrap()) as usize;
    if n == 0 || n > 64 || b.len() < 8 * n {
        return None;
    }
    let mut bounds = vec![0usize];
    for i in 0..n - 1 {
        bounds.push(u32::from_le_bytes(b[4 + 4 * i..8 + 4 * i].try_into().unwrap()) as usize);
    }
    let payload = &b[8 * n..];
    bounds.push(payload.len());
    let mut out = vec![];
    for i in 0..n {
        let t: [u8; 4] = b[4 * n + 4 * i..4 * n + 4 * i + 4].try_into().unwrap();
        if bounds[i] > bounds[i + 1] || bounds[i + 1] > payload.len() {
            return None;
        }
        out.push((t, payload[bounds[i]..bounds[i + 1]].to_vec()));
    }
    Some(out)
}

pub fn tv_encode(f: &Fields) -> Vec<u8> {
    let refs: Vec<(&[u8; 4], Vec<u8>)> = f.iter().map(|(t, v)| (t, v.clone())).collect();
    enc_msg(&refs)
}

fn get_mut<'a>(f: &'a mut Fields, tag: &[u8; 4]) -> Option<&'a mut Vec<u8>> {
    f.iter_mut().find(|(t, _)| t == tag).map(|(_, v)| v)
}

/// apply `edit` to the field addressed by a path of tags (nested messages are re-encoded)
fn edit_path(body: &[u8], path: &[&[u8; 4]], edit: &mut dyn FnMut(&mut Vec<u8>)) -> Option<Vec<u8>> {
    let mut f = tv_parse(body)?;
    let v = get_mut(&mut f, path[0])?;
    if path.len() == 1 {
        edit(v);
    } else {
        let inner = edit_path(v, &path[1..], edit)?;
        *v = inner;
    }
    Some(tv_encode(&f))
}

fn unwrap_wire(wire: char, resp: &[u8]) -> Vec<u8> {
    if wire == 'I' { resp[12..].to_vec() } else { resp.to_vec() }
}
fn wrap_wire(wire: char, body: &[u8]) -> Vec<u8> {
    if wire == 'I' { frame(body) } else { body.to_vec() }
}

const REGIONS: &[(&str, &[&[u8; 4]])] = &[
    ("SIG", &[b"SIG\0"]),
    ("NONC", &[b"NONC"]),
    ("PATH", &[b"PATH"]),
    ("INDX", &[b"INDX"]),
    ("SREP.MIDP", &[b"SREP", b"MIDP"]),
    ("SREP.RADI", &[b"SREP", b"RADI"]),
    ("SREP.ROOT", &[b"SREP", b"ROOT"]),
    ("SREP.VER", &[b"SREP", b"VER\0"]),
    ("CERT.SIG", &[b"CERT", b"SIG\0"]),
    ("DELE.PUBK", &[b"CERT", b"DELE", b"PUBK"]),
    ("DELE.MINT", &[b"CERT", b"DELE", b"MINT"]),
    ("DELE.MAXT", &[b"CERT", b"DELE", b"MAXT"]),
];

// ---------------------------------------------------------------------------------------------

pub struct RunSpec {
    pub ver: char,            // 'G' | 'I'
    pub key: Option<(bool, Vec<u8>)>, // (base64?, key bytes)
    pub spell: u8,            // hex spelling of the key argument: 0 lower case, 1 upper case, 2 mixed case
    pub nreq: usize,
    pub json: bool,
    pub kind: String,
}

pub struct RunResult {
    pub requests: Vec<Vec<u8>>,
    pub responses: Vec<Vec<u8>>,
    pub exit: i32,
    pub out: Vec<String>,
    pub ver: Vec<String>,
    pub idx: Vec<String>,
    pub stderr: String,
    pub t0: String,
    pub t1: String,
}

/// the text given to `-k`
pub fn spell_key(b64: bool, k: &[u8], spell: u8) -> String {
    if b64 { return data_encoding::BASE64.encode(k); }
    match spell {
        1 => hex(k).to_uppercase(),
        2 => hex(k).chars().enumerate().map(|(i, c)| if i % 3 == 0 { c.to_ascii_uppercase() } else { c }).collect(),
        _ => hex(k),
    }
}

fn client_bin() -> String {
    let dir = std::env::var("RVH_REPO_BIN").unwrap_or_else(|_| "/verif/.build/repo-target/debug".into());
    format!("{}/roughenough-client", dir)
}

/// a classic Roughtime *response* (what another process's server may send to a reused port): six tags SIG NONC PATH SREP CERT INDX
fn looks_like_response(d: &[u8]) -> bool {
    let m = if d.starts_with(b"ROUGHTIM") && d.len() >= 12 { &d[12..] } else { d };
    d.len() < 1000 && m.len() >= 28 && m[0..4] == [6, 0, 0, 0] && &m[24..28] == b"SIG\0"
}

/// run the real client once; `respond(j, request_j, all_requests_so_far) -> datagram to send`
pub fn run_client(spec: &RunSpec, respond: &mut dyn FnMut(usize, &[u8]) -> Vec<u8>) -> RunResult {
    let sock = UdpSocket::bind("127.0.0.1:0").unwrap();
    sock.set_read_timeout(Some(Duration::from_secs(5))).unwrap();
    let port = sock.local_addr().unwrap().port();
    let mut cmd = Command::new(client_bin());
    cmd.arg("127.0.0.1").arg(port.to_string()).arg("-p").arg(if spec.ver == 'I' { "13" } else { "0" });
    cmd.arg("-z").arg("-f").arg("%s.%f").arg("-t").arg("3").arg("-v");
    if spec.json {
        cmd.arg("-j");
    }
    if spec.nreq != 1 {
        cmd.arg("-n").arg(spec.nreq.to_string());
    }
    if let Some((b64, k)) = &spec.key {
        cmd.arg("-k").arg(spell_key(*b64, k, spec.spell));
    }
    cmd.env("RUST_BACKTRACE", "0");
    cmd.stdin(Stdio::null()).stdout(Stdio::piped()).stderr(Stdio::piped());
    let child = cmd.spawn().expect("spawn client");
    let mut requests = vec![];
    let mut addrs = vec![];
    let mut buf = vec![0u8; 4096];
    for _ in 0..spec.nreq {
        // (a stray datagram from another test process on this host — always a *response* — is not the client's
        // request: see util::recv_from_port)
        let got = loop {
            match sock.recv_from(&mut buf) {
                Ok((n, _)) if looks_like_response(&buf[..n]) => continue,
                other => break other,
            }
        };
        match got {
            Ok((n, a)) => {
                requests.push(buf[..n].to_vec());
                addrs.push(a);
            }
            Err(_) => break,
        }
    }
    let mut responses = vec![];
    for j in 0..requests.len() {
        let r = respond(j, &requests[j]);
        sock.send_to(&r, addrs[j]).unwrap();
        responses.push(r);
    }
    let outp = child.wait_with_output().unwrap();
    let exit = outp.status.code().unwrap_or(-1);
    let stdout = String::from_utf8_lossy(&outp.stdout).to_string();
    let stderr = String::from_utf8_lossy(&outp.stderr).to_string();
    // time lines: plain "secs.nanos" or JSON {"midpoint": "secs.nanos", "radius": .., "verified": true, "merkle_index": i}
    let mut out = vec![];
    let mut ver = vec![];
    let mut idx = vec![];
    for l in stdout.lines() {
        let l = l.trim();
        if spec.json {
            if let Some(rest) = l.strip_prefix("{ \"midpoint\": \"") {
                let t = rest.split('"').next().unwrap_or("").to_string();
                out.push(t);
                ver.push(if l.contains("\"verified\": true") { "Yes".into() } else { "No".into() });
                let i = l.split("\"merkle_index\": ").nth(1).unwrap_or("?").trim_end_matches(" }").to_string();
                idx.push(i);
            }
        } else if l.chars().next().map(|c| c.is_ascii_digit() || c == '-').unwrap_or(false) && l.contains('.') && l.chars().all(|c| c.is_ascii_digit() || c == '.' || c == '-') {
            out.push(l.to_string());
        }
    }
    if !spec.json {
        for l in stderr.lines() {
            if let Some(p) = l.find("verified=") {
                let rest = &l[p + 9..];
                ver.push(rest.split(' ').next().unwrap_or("?").to_string());
                let i = l.split("merkle_index=").nth(1).unwrap_or("?").trim_end_matches(')').to_string();
                idx.push(i);
            }
        }
    }
    RunResult { requests, responses, exit, out, ver, idx, stderr, t0: "0".into(), t1: "0".into() }
}

fn now_s() -> String {
    let d = std::time::SystemTime::now().duration_since(std::time::UNIX_EPOCH).unwrap();
    format!("{}.{:09}", d.as_secs(), d.subsec_nanos())
}

/// run the real client against a server that is already listening on `port` (no responder here)
pub fn run_client_to(spec: &RunSpec, port: u16) -> RunResult {
    run_client_to_with(spec, port, &mut || {})
}

/// like `run_client_to`; `after_spawn` runs once the client process has been started (used to release
/// a stopped server after the client's requests are queued behind other traffic)
pub fn run_client_to_with(spec: &RunSpec, port: u16, after_spawn: &mut dyn FnMut()) -> RunResult {
    let mut cmd = Command::new(client_bin());
    cmd.arg("127.0.0.1").arg(port.to_string()).arg("-p").arg(if spec.ver == 'I' { "13" } else { "0" });
    cmd.arg("-z").arg("-f").arg("%s.%f").arg("-t").arg("3").arg("-v");
    if spec.nreq != 1 {
        cmd.arg("-n").arg(spec.nreq.to_string());
    }
    if let Some((b64, k)) = &spec.key {
        cmd.arg("-k").arg(spell_key(*b64, k, spec.spell));
    }
    cmd.env("RUST_BACKTRACE", "0");
    cmd.stdin(Stdio::null()).stdout(Stdio::piped()).stderr(Stdio::piped());
    let t0 = now_s();
    let child = cmd.spawn().expect("run client");
    after_spawn();
    let outp = child.wait_with_output().expect("run client");
    let t1 = now_s();
    let exit = outp.status.code().unwrap_or(-1);
    let stdout = String::from_utf8_lossy(&outp.stdout).to_string();
    let stderr = String::from_utf8_lossy(&outp.stderr).to_string();
    let mut out = vec![];
    let mut ver = vec![];
    let mut idx = vec![];
    for l in stdout.lines() {
        let l = l.trim();
        if l.chars().next().map(|c| c.is_ascii_digit()).unwrap_or(false) && l.contains('.') && l.chars().all(|c| c.is_ascii_digit() || c == '.') {
            out.push(l.to_string());
        }
    }
    for l in stderr.lines() {
        if let Some(p) = l.find("verified=") {
            let rest = &l[p + 9..];
            ver.push(rest.split(' ').next().unwrap_or("?").to_string());
            idx.push(l.split("merkle_index=").nth(1).unwrap_or("?").trim_end_matches(')').to_string());
        }
    }
    RunResult { requests: vec![], responses: vec![], exit, out, ver, idx, stderr, t0, t1 }
}

fn join(v: &[String]) -> String {
    if v.is_empty() { "-".into() } else { v.join("|") }
}

thread_local! {
    /// nonces of every request this harness process has seen (freshness across runs is a measurement)
    static NONCES: std::cell::RefCell<(u64, std::collections::HashSet<Vec<u8>>)> = std::cell::RefCell::new((0, Default::default()));
}

fn request_nonce(req: &[u8]) -> Option<Vec<u8>> {
    let body = if req.starts_with(b"ROUGHTIM") { req.get(12..)? } else { req };
    let f = tv_parse(body)?;
    Some(f.iter().find(|(t, _)| t == b"NONC")?.1.clone())
}

pub fn emit_nonce_pool(out: &mut Out, stream: &str) {
    // only the shard that owns line 0 would normally print; every shard reports its own pool
    NONCES.with(|n| {
        let n = n.borrow();
        let save = out.shard;
        out.shard = (0, 1);
        let keep = out.lines;
        out.lines = 0;
        out.case("noncepool", &[stream], &format!("total={} distinct={}", n.0, n.1.len()));
        out.lines = keep + 1;
        out.shard = save;
    });
}

pub fn emit(out: &mut Out, spec: &RunSpec, r: &RunResult) {
    NONCES.with(|n| {
        let mut n = n.borrow_mut();
        for q in &r.requests {
            if let Some(x) = request_nonce(q) {
                n.0 += 1;
                n.1.insert(x);
            }
        }
    });
    let keyopt = match &spec.key {
        None => "none".to_string(),
        Some((b64, k)) => format!("{}:{}", if *b64 { "b64" } else { ["hex", "hexU", "hexM"][spec.spell as usize % 3] }, hex(k)),
    };
    let reqs = if r.requests.is_empty() { "~".into() } else { r.requests.iter().map(|x| hex(x)).collect::<Vec<_>>().join(",") };
    let resps = if r.responses.is_empty() { "~".into() } else { r.responses.iter().map(|x| hex(x)).collect::<Vec<_>>().join(",") };
    let imp = format!("exit={} out={} ver={} idx={}", r.exit, join(&r.out), join(&r.ver), join(&r.idx));
    out.case("client", &[&spec.ver.to_string(), &keyopt, &spec.kind, &reqs, &resps], &imp);
}

fn pk_of(seed: &[u8]) -> Vec<u8> {
    use ed25519_dalek::SigningKey;
    SigningKey::from_bytes(seed.try_into().unwrap()).verifying_key().to_bytes().to_vec()
}

fn base_resp(r: &mut Rng, ver: char) -> Resp {
    Resp {
        wire: ver, dctx: ver, sctx: ver, lt: r.bytes(32), onl: r.bytes(32),
        midp: if ver == 'I' { 1_700_000_000 + r.below(1_000_000) } else { (1_700_000_000 + r.below(1_000_000)) * 1_000_000 + r.below(1_000_000) },
        radi: if ver == 'I' { 5 } else { 5_000_000 }, mint: 0, maxt: u64::MAX,
        n: 1, mine: 0, at: 0, salt: r.bytes(8),
    }
}

/// C03: honest responder. versions x key option x batch size/position x midpoint grid
pub fn run_honest(ctx: &Ctx) {
    let mut out = Out::sharded(ctx.shard);
    let mut r = Rng::new(ctx.seed ^ 0xC03);
    let mut d = Driver::start();
    let midp_secs: [u64; 12] = [0, 1, 59, 946684800, 1700000000, 2147483647, 2147483648, 4294967296, 7258118400, 32503680000, 253402300799, 1];
    let sizes: Vec<usize> = if ctx.thorough { (1..=64).collect() } else { vec![1, 2, 3, 4, 5, 8, 9, 16, 17, 33, 64] };
    let mut case_no = 0u64;
    for &ver in &['G', 'I'] {
        for keymode in 0..3 {
            for &n in &sizes {
                let positions: Vec<usize> = if ctx.thorough || n <= 5 { (0..n).collect() } else { vec![0, n - 1, r.below(n as u64) as usize] };
                for pos in positions {
                    case_no += 1;
                    if !out.mine() {
                        out.skip();
                        continue;
                    }
                    let mut rs = base_resp(&mut r, ver);
                    rs.n = n;
                    rs.mine = pos;
                    rs.at = pos;
                    let secs = midp_secs[(case_no % 12) as usize];
                    rs.midp = if ver == 'I' { secs } else {
                        let sub = *r.pick(&[0u64, 1, 999_999, 500_000, 123_456]);
                        secs * 1_000_000 + sub
                    };
                    let key = match keymode { 0 => None, 1 => Some((false, pk_of(&rs.lt))), _ => Some((true, pk_of(&rs.lt))) };
                    let spec = RunSpec { ver, key, spell: 0, nreq: 1, json: case_no % 5 == 0, kind: "honest".into() };
                    let rs2 = rs.clone();
                    let res = run_client(&spec, &mut |_, req| rs2.ask(&mut d, req));
                    emit(&mut out, &spec, &res);
                }
            }
        }
    }
    // multi-request runs (-n k): every request answered honestly from one batch
    for &ver in &['G', 'I'] {
        for k in [2usize, 3, 8] {
            if !out.mine() {
                out.skip();
                continue;
            }
            let rs = base_resp(&mut r, ver);
            let key = Some((false, pk_of(&rs.lt)));
            let spec = RunSpec { ver, key, spell: 0, nreq: k, json: false, kind: "honest".into() };
            let res = run_client(&spec, &mut |j, req| {
                let mut x = rs.clone();
                x.n = 4 + j;
                x.mine = j % x.n;
                x.at = x.mine;
                x.ask(&mut d, req)
            });
            emit(&mut out, &spec, &res);
        }
    }
    // key SPELLINGS: the text of `-k` must not matter beyond the bytes it encodes. Long-term seeds are searched so
    // that the base64 text of the public key starts with a chosen pair of characters (every pair of "looks like
    // something else" characters — radix markers, signs, separators — plus random pairs; thorough: 1024 more
    // random pairs), and hex keys are also given in upper and mixed case (the client's decoder is permissive)
    {
        const B64: &[u8; 64] = b"ABCDEFGHIJKLMNOPQRSTUVWXYZabcdefghijklmnopqrstuvwxyz0123456789+/";
        let odd: &[u8] = b"0xXbo+/A9z";
        let mut pairs: Vec<(u8, u8)> = vec![];
        for &a in odd { for &b in odd { pairs.push((a, b)); } }
        for _ in 0..(if ctx.thorough { 1024 } else { 28 }) { pairs.push((B64[r.below(64) as usize], B64[r.below(64) as usize])); }
        for (i, (a, b)) in pairs.into_iter().enumerate() {
            let stream_seed = r.next();
            if !out.mine() { out.skip(); continue; }
            let ver = if i % 2 == 0 { 'I' } else { 'G' };
            let mut rr = Rng::new(stream_seed);
            let mut rs = base_resp(&mut rr, ver);
            // search a seed whose public key's base64 text starts with (a, b)
            let mut found = false;
            for _ in 0..200_000 {
                let t = data_encoding::BASE64.encode(&pk_of(&rs.lt));
                if t.as_bytes()[0] == a && t.as_bytes()[1] == b { found = true; break; }
                rs.lt = rr.bytes(32);
            }
            if !found { out.skip(); continue; }
            rs.n = 1 + (i % 4); rs.mine = i % rs.n; rs.at = rs.mine;
            let spec = RunSpec { ver, key: Some((true, pk_of(&rs.lt))), spell: 0, nreq: 1, json: false, kind: "honest".into() };
            let rs2 = rs.clone();
            let res = run_client(&spec, &mut |_, req| rs2.ask(&mut d, req));
            emit(&mut out, &spec, &res);
        }
        for i in 0..(if ctx.thorough { 64 } else { 12 }) {
            if !out.mine() { out.skip(); continue; }
            let ver = if i % 2 == 0 { 'I' } else { 'G' };
            let rs = base_resp(&mut r, ver);
            let spec = RunSpec { ver, key: Some((false, pk_of(&rs.lt))), spell: 1 + (i / 2 % 2) as u8, nreq: 1, json: false, kind: "honest".into() };
            let rs2 = rs.clone();
            let res = run_client(&spec, &mut |_, req| rs2.ask(&mut d, req));
            emit(&mut out, &spec, &res);
        }
    }
    emit_nonce_pool(&mut out, "client-honest");
    out.flush();
}

/// C01: forged / faulty responses
pub fn run_forged(ctx: &Ctx) {
    let mut out = Out::sharded(ctx.shard);
    let mut r = Rng::new(ctx.seed ^ 0xC01);
    let mut d = Driver::start();
    let rounds = if ctx.thorough { 30 } else { 1 };
    let mut prev_honest: std::collections::HashMap<char, (Vec<u8>, Vec<u8>)> = Default::default(); // ver -> (lt seed, response)
    for round in 0..rounds {
        for &ver in &['G', 'I'] {
            for b64 in [false, true] {
                if round > 0 && b64 && round % 3 != 0 {
                    continue;
                }
                let other = if ver == 'G' { 'I' } else { 'G' };
                // the honest template for this (ver, key) group
                let mut tmpl = base_resp(&mut r, ver);
                tmpl.n = *r.pick(&[1usize, 2, 5, 8]);
                tmpl.mine = r.below(tmpl.n as u64) as usize;
                tmpl.at = tmpl.mine;
                let pk = pk_of(&tmpl.lt);
                let key = Some((b64, pk.clone()));
                let mut one = |out: &mut Out, d: &mut Driver, kind: &str, f: &mut dyn FnMut(&mut Driver, &[u8]) -> Vec<u8>| {
                    if !out.mine() {
                        out.skip();
                        return;
                    }
                    let spec = RunSpec { ver, key: key.clone(), spell: 0, nreq: 1, json: false, kind: kind.to_string() };
                    let res = run_client(&spec, &mut |_, req| f(d, req));
                    emit(out, &spec, &res);
                };
                // control: honest
                {
                    let t = tmpl.clone();
                    one(&mut out, &mut d, "honest", &mut |d, req| t.ask(d, req));
                }
                // single-component forgeries: bit flip / re-randomise in every region
                for (name, path) in REGIONS {
                    for mode in 0..6 {
                        let t = tmpl.clone();
                        let seedbits = r.next();
                        let kind = format!("{}-{}", name, ["bitflip", "rerand", "lastbyte", "trunc4", "grow4", "ragged"][mode]);
                        one(&mut out, &mut d, &kind, &mut |d, req| {
                            let honest = t.ask(d, req);
                            let body = unwrap_wire(ver, &honest);
                            let mut rr = Rng::new(seedbits);
                            let forged = edit_path(&body, path, &mut |v: &mut Vec<u8>| {
                                // length-changing edits (the value stays a multiple of 4 so that the
                                // message still decodes): these also apply to an empty value
                                match mode {
                                    3 => { let l = v.len(); v.truncate(l.saturating_sub(4)); return; }
                                    4 => { v.extend(rr.bytes(4)); return; }
                                    5 => { let l = *rr.pick(&[4usize, 12, 36, 100, 28, 60, 68]); *v = rr.bytes(l); return; }
                                    _ => {}
                                }
                                if v.is_empty() { return; }
                                match mode {
                                    0 => { let i = rr.below(v.len() as u64) as usize; v[i] ^= 1 << rr.below(8); }
                                    1 => { let l = v.len(); *v = rr.bytes(l); }
                                    _ => { let l = v.len(); v[l - 1] ^= 0x80; }
                                }
                            });
                            match forged { Some(b) => wrap_wire(ver, &b), None => honest }
                        });
                    }
                }
                // fully re-signed by a different long-term key
                {
                    let mut t = tmpl.clone();
                    t.lt = r.bytes(32);
                    one(&mut out, &mut d, "other-longterm-key", &mut |d, req| t.ask(d, req));
                }
                // delegation signed under the other protocol's context; response signature likewise
                {
                    let mut t = tmpl.clone();
                    t.dctx = other;
                    one(&mut out, &mut d, "dele-other-context", &mut |d, req| t.ask(d, req));
                    let mut t = tmpl.clone();
                    t.sctx = other;
                    one(&mut out, &mut d, "srep-other-context", &mut |d, req| t.ask(d, req));
                }
                // cross-protocol splice: CERT taken from the other protocol's response of the same keys
                {
                    let t = tmpl.clone();
                    one(&mut out, &mut d, "splice-cert-other-proto", &mut |d, req| {
                        let honest = t.ask(d, req);
                        let mut o = t.clone();
                        o.dctx = other;
                        let alien = o.ask(d, req);
                        let mut f = tv_parse(&unwrap_wire(ver, &honest)).unwrap();
                        let af = tv_parse(&unwrap_wire(ver, &alien)).unwrap();
                        let cert = af.iter().find(|(t, _)| t == b"CERT").unwrap().1.clone();
                        *get_mut(&mut f, b"CERT").unwrap() = cert;
                        wrap_wire(ver, &tv_encode(&f))
                    });
                }
                // an ADDITIONAL tag in one of the containers no signature covers (the top-level message, CERT): a value that
                // SHADOWS a signed one must not be used (seeded change C01-r7: one lookup helper searching outermost-first)
                {
                    let shadow: &[(&[u8; 4], usize)] = &[(b"PUBK", 32), (b"ROOT", if ver == 'I' { 32 } else { 64 }), (b"MIDP", 8), (b"RADI", 4), (b"MINT", 8), (b"MAXT", 8), (b"DELE", 72), (b"VER\0", 4)];
                    for (tag, len) in shadow {
                        for level in ["top", "CERT"] {
                            let t = tmpl.clone();
                            let sb = r.next();
                            let kind = format!("shadow-{}@{}", String::from_utf8_lossy(&tag[..]).trim_end_matches('\0'), level);
                            one(&mut out, &mut d, &kind, &mut |d, req| {
                                let honest = t.ask(d, req);
                                let mut rr = Rng::new(sb);
                                let val = match (rr.below(3), *len) { (0, 8) => (t.midp + 1_000_000).to_le_bytes().to_vec(), (1, 8) => 0u64.to_le_bytes().to_vec(), _ => rr.bytes(*len) };
                                let mut f = tv_parse(&unwrap_wire(ver, &honest)).unwrap();
                                if level == "top" {
                                    if f.iter().any(|(x, _)| x == *tag) { return honest; }
                                    f.push((**tag, val));
                                    f.sort_by_key(|(x, _)| u32::from_le_bytes(*x));
                                } else {
                                    let mut c = tv_parse(&f.iter().find(|(x, _)| x == b"CERT").unwrap().1).unwrap();
                                    if c.iter().any(|(x, _)| x == *tag) { return honest; }
                                    c.push((**tag, val));
                                    c.sort_by_key(|(x, _)| u32::from_le_bytes(*x));
                                    *get_mut(&mut f, b"CERT").unwrap() = tv_encode(&c);
                                }
                                wrap_wire(ver, &tv_encode(&f))
                            });
                        }
                    }
                    // the attack the shadowing enables: SREP + SIG made with an attacker's online key, the GENUINE certificate,
                    // and the attacker's online public key as a top-level PUBK
                    let t = tmpl.clone();
                    let mut attacker = tmpl.clone();
                    attacker.lt = r.bytes(32);
                    attacker.onl = r.bytes(32);
                    one(&mut out, &mut d, "attacker-srep-genuine-cert-shadow-PUBK", &mut |d, req| {
                        let genuine = t.ask(d, req);
                        let alien = attacker.ask(d, req);
                        let gf = tv_parse(&unwrap_wire(ver, &genuine)).unwrap();
                        let mut af = tv_parse(&unwrap_wire(ver, &alien)).unwrap();
                        let get = |f: &Fields, t: &[u8; 4]| f.iter().find(|(x, _)| x == t).unwrap().1.clone();
                        let acert = tv_parse(&get(&af, b"CERT")).unwrap();
                        let adele = tv_parse(&get(&acert, b"DELE")).unwrap();
                        let apk = get(&adele, b"PUBK");
                        *get_mut(&mut af, b"CERT").unwrap() = get(&gf, b"CERT");
                        af.push((*b"PUBK", apk));
                        af.sort_by_key(|(x, _)| u32::from_le_bytes(*x));
                        wrap_wire(ver, &tv_encode(&af))
                    });
                }
                // whole response in the other protocol's wire format
                {
                    let mut t = tmpl.clone();
                    t.wire = other; t.dctx = other; t.sctx = other;
                    t.midp = if other == 'I' { 1_700_000_000 } else { 1_700_000_000_000_000 };
                    one(&mut out, &mut d, "other-protocol-response", &mut |d, req| t.ask(d, req));
                }
                // response for another request of the same batch
                if tmpl.n > 1 {
                    let mut t = tmpl.clone();
                    t.at = (t.mine + 1) % t.n;
                    one(&mut out, &mut d, "other-request-same-batch", &mut |d, req| t.ask(d, req));
                    // own NONC but the other leaf's path/index
                    let t2 = t.clone();
                    let mine = tmpl.clone();
                    one(&mut out, &mut d, "own-nonce-other-path", &mut |d, req| {
                        let alien = t2.ask(d, req);
                        let honest = mine.ask(d, req);
                        let mut f = tv_parse(&unwrap_wire(ver, &alien)).unwrap();
                        let hf = tv_parse(&unwrap_wire(ver, &honest)).unwrap();
                        let nonc = hf.iter().find(|(t, _)| t == b"NONC").unwrap().1.clone();
                        *get_mut(&mut f, b"NONC").unwrap() = nonc;
                        wrap_wire(ver, &tv_encode(&f))
                    });
                }
                // midpoint outside the (properly signed) delegation window
                {
                    let mut t = tmpl.clone();
                    t.mint = t.midp + 1;
                    one(&mut out, &mut d, "midp-before-window", &mut |d, req| t.ask(d, req));
                    let mut t = tmpl.clone();
                    t.maxt = t.midp - 1;
                    one(&mut out, &mut d, "midp-after-window", &mut |d, req| t.ask(d, req));
                    let mut t = tmpl.clone();
                    t.mint = t.midp; t.maxt = t.midp;
                    one(&mut out, &mut d, "honest", &mut |d, req| t.ask(d, req)); // boundary: still inside
                }
                // replay across runs: the previous genuine response of this protocol under ITS key
                if let Some((lt, resp)) = prev_honest.get(&ver).cloned() {
                    if !out.mine() { out.skip(); } else {
                        let spec = RunSpec { ver, key: Some((b64, pk_of(&lt))), spell: 0, nreq: 1, json: false, kind: "replay-previous-run".into() };
                        let res = run_client(&spec, &mut |_, _| resp.clone());
                        emit(&mut out, &spec, &res);
                    }
                }
                // the same replay with its PATH swapped for a value that is not a whole number of nodes
                if let Some((lt, resp)) = prev_honest.get(&ver).cloned() {
                    if !out.mine() { out.skip(); } else {
                        let spec = RunSpec { ver, key: Some((b64, pk_of(&lt))), spell: 0, nreq: 1, json: false, kind: "replay-previous-run-ragged-path".into() };
                        let l = *r.pick(&[4usize, 12, 36, 100]);
                        let junk = r.bytes(l);
                        let body = unwrap_wire(ver, &resp);
                        let forged = match edit_path(&body, &[b"PATH"], &mut |v: &mut Vec<u8>| { *v = junk.clone(); }) { Some(b) => wrap_wire(ver, &b), None => resp.clone() };
                        let res = run_client(&spec, &mut |_, _| forged.clone());
                        emit(&mut out, &spec, &res);
                    }
                }
                // replay within one multi-request run: the second request gets the first one's response
                {
                    if !out.mine() { out.skip(); } else {
                        let t = tmpl.clone();
                        let spec = RunSpec { ver, key: key.clone(), spell: 0, nreq: 2, json: false, kind: "replay-within-run".into() };
                        let mut first: Vec<u8> = vec![];
                        let res = run_client(&spec, &mut |j, req| {
                            if j == 0 { first = t.ask(&mut d, req); first.clone() } else { first.clone() }
                        });
                        emit(&mut out, &spec, &res);
                    }
                }
                // stateful forgeries: a multi-request run whose FIRST response is genuine and whose SECOND
                // is forged — anything the client carries over from the first response (cached
                // certificates, keys, roots) must not vouch for the second
                {
                    let honest_t = tmpl.clone();
                    let mut attacker = tmpl.clone();
                    attacker.lt = r.bytes(32);
                    attacker.onl = r.bytes(32);
                    let kinds: Vec<&str> = vec!["second:other-longterm-key", "second:attacker-dele-genuine-certsig", "second:attacker-srep-genuine-cert",
                        "second:CERT.SIG-bitflip", "second:SREP.MIDP-bitflip", "second:SIG-bitflip", "second:DELE.PUBK-rerand", "second:midp-after-window", "second:honest"];
                    for kind in kinds {
                        if !out.mine() { out.skip(); continue; }
                        let spec = RunSpec { ver, key: key.clone(), spell: 0, nreq: 2, json: false, kind: if kind == "second:honest" { "honest".into() } else { kind.to_string() } };
                        let sb = r.next();
                        let res = run_client(&spec, &mut |j, req| {
                            if j == 0 { return honest_t.ask(&mut d, req); }
                            let genuine = honest_t.ask(&mut d, req);
                            let alien = attacker.ask(&mut d, req);
                            let gf = tv_parse(&unwrap_wire(ver, &genuine)).unwrap();
                            let mut af = tv_parse(&unwrap_wire(ver, &alien)).unwrap();
                            let get = |f: &Fields, t: &[u8; 4]| f.iter().find(|(x, _)| x == t).unwrap().1.clone();
                            let mut rr = Rng::new(sb);
                            match kind {
                                "second:other-longterm-key" => alien,
                                "second:attacker-dele-genuine-certsig" => {
                                    // attacker's DELE (own online key) under the GENUINE certificate signature
                                    let gcert = tv_parse(&get(&gf, b"CERT")).unwrap();
                                    let mut acert = tv_parse(&get(&af, b"CERT")).unwrap();
                                    *get_mut(&mut acert, b"SIG\0").unwrap() = get(&gcert, b"SIG\0");
                                    *get_mut(&mut af, b"CERT").unwrap() = tv_encode(&acert);
                                    wrap_wire(ver, &tv_encode(&af))
                                }
                                "second:attacker-srep-genuine-cert" => {
                                    // genuine CERT, but SREP+SIG made with the attacker's online key
                                    *get_mut(&mut af, b"CERT").unwrap() = get(&gf, b"CERT");
                                    wrap_wire(ver, &tv_encode(&af))
                                }
                                "second:midp-after-window" => {
                                    let mut t = honest_t.clone();
                                    t.maxt = t.midp - 1;
                                    t.ask(&mut d, req)
                                }
                                "second:honest" => genuine,
                                other => {
                                    let region = &other[7..other.rfind('-').unwrap()];
                                    let path = REGIONS.iter().find(|(n, _)| *n == region).unwrap().1;
                                    let rerand = other.ends_with("rerand");
                                    let body = unwrap_wire(ver, &genuine);
                                    match edit_path(&body, path, &mut |v: &mut Vec<u8>| {
                                        if v.is_empty() { return; }
                                        if rerand { let l = v.len(); *v = rr.bytes(l); } else { let i = rr.below(v.len() as u64) as usize; v[i] ^= 1 << rr.below(8); }
                                    }) { Some(b) => wrap_wire(ver, &b), None => genuine }
                                }
                            }
                        });
                        emit(&mut out, &spec, &res);
                    }
                }
                // a long multi-request run: every request answered honestly except the LAST, which gets the
                // FIRST request's genuine response (only acceptable if the client reused a nonce)
                if !b64 {
                    if !out.mine() { out.skip(); } else {
                        let t = tmpl.clone();
                        let k = 40usize;
                        let spec = RunSpec { ver, key: key.clone(), spell: 0, nreq: k, json: false, kind: "long-run-replay-first-to-last".into() };
                        let mut first: Vec<u8> = vec![];
                        let res = run_client(&spec, &mut |j, req| {
                            if j == 0 { first = t.ask(&mut d, req); first.clone() }
                            else if j == k - 1 { first.clone() }
                            else { t.ask(&mut d, req) }
                        });
                        emit(&mut out, &spec, &res);
                    }
                }
                // remember a genuine response for the next group's cross-run replay
                {
                    let t = tmpl.clone();
                    let spec = RunSpec { ver, key: key.clone(), spell: 0, nreq: 1, json: false, kind: "honest".into() };
                    if out.mine() {
                        let mut saved: Vec<u8> = vec![];
                        let res = run_client(&spec, &mut |_, req| { saved = t.ask(&mut d, req); saved.clone() });
                        emit(&mut out, &spec, &res);
                        prev_honest.insert(ver, (t.lt.clone(), saved));
                    } else {
                        out.skip();
                    }
                }
                // truncations at 4-byte boundaries and random mutations
                let cuts: Vec<usize> = if ctx.thorough { (0..110).map(|i| i * 4).collect() } else { vec![0, 4, 8, 12, 48, 64, 200, 300, 400] };
                for cut in cuts {
                    let t = tmpl.clone();
                    one(&mut out, &mut d, "truncated", &mut |d, req| {
                        let mut h = t.ask(d, req);
                        h.truncate(cut.min(h.len().saturating_sub(4)));
                        h
                    });
                }
                for _ in 0..(if ctx.thorough { 40 } else { 10 }) {
                    let t = tmpl.clone();
                    let sb = r.next();
                    one(&mut out, &mut d, "random-mutation", &mut |d, req| {
                        let mut h = t.ask(d, req);
                        let mut rr = Rng::new(sb);
                        for _ in 0..rr.range(1, 4) {
                            let i = rr.below(h.len() as u64) as usize;
                            h[i] = rr.below(256) as u8;
                        }
                        h
                    });
                }
                // extended / garbage / empty
                {
                    let t = tmpl.clone();
                    one(&mut out, &mut d, "extended", &mut |d, req| { let mut h = t.ask(d, req); h.extend([0u8; 8]); h });
                    one(&mut out, &mut d, "garbage", &mut |_, _| vec![0xde, 0xad, 0xbe, 0xef]);
                    one(&mut out, &mut d, "empty", &mut |_, _| vec![]);
                }
            }
        }
    }
    emit_nonce_pool(&mut out, "client-forged");
    out.flush();
}

pub fn replay_one(out: &mut Out, args: &[&str]) {
    // args: ver keyopt kind reqs resps — replays send the stored responses to a fresh client run;
    // the new requests carry new nonces, so this is a faithful *re-run of the scenario shape* only
    // for kinds that do not depend on the nonce. It is mainly used to re-judge stored transcripts.
    let ver = args[0].chars().next().unwrap();
    let key = if args[1] == "none" { None } else {
        let (m, h) = args[1].split_once(':').unwrap();
        Some((m == "b64", unhex(h)))
    };
    let resps: Vec<Vec<u8>> = if args[4] == "~" { vec![] } else { args[4].split(',').map(unhex).collect() };
    let spell = if args[1].starts_with("hexU:") { 1 } else if args[1].starts_with("hexM:") { 2 } else { 0 };
    let spec = RunSpec { ver, key, spell, nreq: resps.len().max(1), json: false, kind: args[2].to_string() };
    let res = run_client(&spec, &mut |j, _| resps.get(j).cloned().unwrap_or_default());
    emit(out, &spec, &res);
}

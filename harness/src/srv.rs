//! `srv` cases: scenarios against the in-process server (C02, C07, C08, C09, C11, C12, C17, C20).
use crate::rig::*;
use crate::util::*;
use crate::Ctx;
use ring::digest;

pub struct Scenario {
    pub cfg: RigCfg,
    pub nclients: usize,
    /// bursts: every burst is sent completely, then process_events() is called once
    pub bursts: Vec<Vec<(usize, Vec<u8>)>>,
    /// last burst is a sentinel (one valid request from a client that sent nothing else)
    pub sentinel: bool,
    pub tag: String,
    /// idle time (ms) before burst k is sent (missing = 0)
    pub pauses: Vec<u64>,
}

pub use crate::wire::{leak_scan, secret_patterns, srv_of_seed, Gen};

/// run a scenario on the real server and emit one `srv` case line
pub fn run_scenario(out: &mut Out, sc: Scenario) {
    if !out.mine() {
        out.skip();
        return;
    }
    let cfg_str = format!(
        "seed={},batch={},fault={},stats={},log={},sentinel={},status={},tag={}",
        hex(&sc.cfg.seed), sc.cfg.batch, sc.cfg.fault, if sc.cfg.per_client { "per" } else { "agg" },
        sc.cfg.level, if sc.sentinel { 1 } else { 0 }, sc.cfg.status.map(|x| x.to_string()).unwrap_or("default".into()), sc.tag
    );
    let bursts_str = sc
        .bursts
        .iter()
        .map(|b| b.iter().map(|(c, d)| format!("{}:{}", c, hex(d))).collect::<Vec<_>>().join(";"))
        .collect::<Vec<_>>()
        .join("|");
    let cfg = sc.cfg.clone();
    let nclients = sc.nclients;
    let bursts = sc.bursts;
    let pauses = sc.pauses.clone();
    let imp = on_named_thread("rig", move || {
        capture(true);
        let t0 = now_ns();
        let made = guarded(|| Rig::new(cfg.clone(), nclients));
        let mut rig = match made {
            Some(r) => r,
            None => return "newpanic=1".to_string(),
        };
        let pubkey = rig.server.get_public_key().to_string();
        let mut replies: Vec<(usize, Vec<u8>)> = vec![];
        // clock bracket of every burst, and the burst each reply arrived in
        let mut brackets: Vec<String> = vec![];
        let mut reply_burst: Vec<usize> = vec![];
        for (k, burst) in bursts.iter().enumerate() {
            if burst.is_empty() {
                let ms = pauses.get(k).copied().unwrap_or(0);
                if ms == 0 {
                    brackets.push("0.0-0.0".into());
                    continue;
                }
                // a STALL: the worker is not scheduled for `ms` (nothing is processed), then it goes on serving what
                // the previous burst left queued. Whatever is signed now must carry a clock reading taken now
                // (seeded change C11-r6 kept the reading of the wake-up that found the backlog).
                std::thread::sleep(std::time::Duration::from_millis(ms));
                let b0 = now_ns();
                for _ in 0..6 { rig.process(); }
                let got = rig.drain();
                let b1 = now_ns();
                brackets.push(format!("{}.{:09}-{}.{:09}", b0.0, b0.1, b1.0, b1.1));
                for _ in 0..got.len() { reply_burst.push(k); }
                replies.extend(got);
                continue;
            }
            // a burst followed by a stall gets ONE process_events call (at most 16 batches), so that a backlog stays
            let stall_next = bursts.get(k + 1).map(|b| b.is_empty()).unwrap_or(false) && pauses.get(k + 1).copied().unwrap_or(0) > 0;
            if let Some(ms) = pauses.get(k) {
                if *ms > 0 {
                    // idle: the worker polls (and times out) as it would in production
                    let until = std::time::Instant::now() + std::time::Duration::from_millis(*ms);
                    while std::time::Instant::now() < until {
                        rig.process();
                    }
                }
            }
            let b0 = now_ns();
            for (c, d) in burst {
                rig.send(*c, d);
            }
            if stall_next { rig.process(); } else { rig.process_burst(burst.len()); }
            let got = rig.drain();
            let b1 = now_ns();
            brackets.push(format!("{}.{:09}-{}.{:09}", b0.0, b0.1, b1.0, b1.1));
            for _ in 0..got.len() { reply_burst.push(k); }
            replies.extend(got);
        }
        // a straggler pass: nothing may arrive any more
        rig.process();
        let late = rig.drain();
        let t1 = now_ns();
        for _ in 0..late.len() { reply_burst.push(bursts.len()); }
        replies.extend(late);
        let mut order: Vec<usize> = (0..replies.len()).collect();
        order.sort_by_key(|&i| replies[i].0); // stable: keeps per-client order
        let replies: Vec<(usize, Vec<u8>)> = order.iter().map(|&i| replies[i].clone()).collect();
        let reply_burst: Vec<usize> = order.iter().map(|&i| reply_burst[i]).collect();
        let st = rig.server.stats_verif();
        let stats = format!(
            "{},{},{},{},{},{},{},{},{},{},{},{}",
            st.total_valid_requests(), st.num_rfc_requests(), st.num_classic_requests(), st.total_invalid_requests(),
            st.total_health_checks(), st.total_failed_send_attempts(), st.total_retried_send_attempts(),
            st.total_responses_sent(), st.num_rfc_responses_sent(), st.num_classic_responses_sent(),
            st.total_bytes_sent(), st.total_unique_clients()
        );
        // snapshots the worker published through the statistics queue (status timer)
        let mut q = [0u64; 11];
        let mut snaps = 0u64;
        while let Some(snap) = rig.queue.pop() {
            snaps += 1;
            for c in snap {
                q[0] += (c.rfc_requests + c.classic_requests) as u64; q[1] += c.rfc_requests as u64; q[2] += c.classic_requests as u64;
                q[3] += c.invalid_requests as u64; q[4] += c.health_checks as u64; q[5] += c.failed_send_attempts as u64;
                q[6] += c.retried_send_attempts as u64; q[7] += (c.rfc_responses_sent + c.classic_responses_sent) as u64;
                q[8] += c.rfc_responses_sent as u64; q[9] += c.classic_responses_sent as u64; q[10] += c.bytes_sent as u64;
            }
        }
        let qstats = format!("{},{},{},{},{},{},{},{},{},{},{},{}", q[0], q[1], q[2], q[3], q[4], q[5], q[6], q[7], q[8], q[9], q[10], snaps);
        let records = take_records();
        capture(false);
        // C20 monitor: seed / scalar / SHA-512 halves in raw, hex, base64 forms, every offset
        let pats = secret_patterns(&cfg.seed);
        let mut leak = "0".to_string();
        for (_, r) in &replies {
            if let Some(w) = leak_scan(&pats, r) {
                leak = format!("datagram:{}", w);
            }
        }
        for r in &records {
            if let Some(w) = leak_scan(&pats, r.as_bytes()) {
                leak = format!("log:{}", w);
            }
        }
        let rep = if replies.is_empty() {
            "-".to_string()
        } else {
            replies.iter().map(|(c, d)| format!("{}:{}", c, hex(d))).collect::<Vec<_>>().join(";")
        };
        let rb = if reply_burst.is_empty() { "-".to_string() } else { reply_burst.iter().map(|b| b.to_string()).collect::<Vec<_>>().join(",") };
        format!(
            "panic={} t0={}.{:09} t1={}.{:09} pub={} stats={} qstats={} leak={} logs={} brackets={} rburst={} replies={}",
            if rig.panicked { 1 } else { 0 }, t0.0, t0.1, t1.0, t1.1, pubkey, stats, qstats, leak, records.len(), brackets.join(","), rb, rep
        )
    });
    out.case("srv", &[&cfg_str, &bursts_str], &imp);
}

// ---------------------------------------------------------------------------------------------
// generators

fn cfg_of(g: &mut Gen, batch: u8, fault: u8, level: &str) -> RigCfg {
    RigCfg { seed: g.seed.clone(), batch, fault, per_client: g.r.chance(1, 3), level: level.to_string(), status: None }
}

fn pick_level(r: &mut Rng) -> &'static str {
    *r.pick(&["off", "error", "warn", "info", "debug", "trace"])
}

/// general mixed scenario: interleaved valid classic / valid IETF / invalid from several sockets
fn mixed(r: &mut Rng, thorough: bool, tag: &str, fault: u8, p_invalid: u64) -> Scenario {
    let mut g = Gen::new(r);
    let batch = match g.r.below(6) { 0 => 1, 1 => 2, 2 => 63, 3 => 64, _ => g.r.range(1, 64) } as u8;
    let level = pick_level(g.r);
    let cfg = cfg_of(&mut g, batch, fault, level);
    let nclients = g.r.range(1, 8) as usize;
    let nbursts = g.r.range(1, if thorough { 6 } else { 3 }) as usize;
    let mut bursts = vec![];
    let mut reuse_nonce: Option<Vec<u8>> = None;
    for _ in 0..nbursts {
        // smaller than / equal to / larger than the batch size
        let n = match g.r.below(5) {
            0 => batch as usize,
            1 => batch as usize + g.r.range(1, 8) as usize,
            2 => (2 * batch as usize).min(140),
            _ => g.r.range(1, 40) as usize,
        };
        let mut burst = vec![];
        for _ in 0..n {
            let c = g.r.below(nclients as u64) as usize;
            let d = if g.r.chance(p_invalid, 100) {
                g.invalid()
            } else if g.r.chance(1, 10) {
                // identical nonce reused from another socket
                let nonce = reuse_nonce.clone().unwrap_or_else(|| g.r.bytes(64));
                reuse_nonce = Some(nonce.clone());
                // classic: the same request again; IETF: the same NONC in a DIFFERENT packet (other length, with / without
                // SRV) — the draft-13 Merkle leaf is the whole packet (seeded change C02-r8 shared a leaf per nonce)
                match g.r.below(3) {
                    0 => classic_request(&nonce, 1024),
                    1 => { let len = 1024 + 4 * g.r.below(100) as usize; ietf_request(&VER13, None, &nonce[..32], len) }
                    _ => { let srv = g.srv.clone(); let len = 1024 + 4 * g.r.below(100) as usize; ietf_request(&VER13, Some(&srv), &nonce[..32], len) }
                }
            } else {
                g.valid_any()
            };
            burst.push((c, d));
        }
        bursts.push(burst);
    }
    // sentinel from a dedicated extra client
    let s = g.valid_any();
    bursts.push(vec![(nclients, s)]);
    Scenario { cfg, nclients: nclients + 1, bursts, sentinel: true, tag: tag.to_string(), pauses: vec![] }
}

/// C12: exhaustive VER lists over 5 symbols × SRV absent / correct / wrong
fn c12_cases(out: &mut Out, r: &mut Rng, max_len: usize) {
    let symbols: [[u8; 4]; 5] = [VER13, [0, 0, 0, 0], [1, 0, 0, 0x80], [0x0b, 0, 0, 0x80], [0xff, 0xff, 0xff, 0xff]];
    let mut g = Gen::new(r);
    let cfg = RigCfg { seed: g.seed.clone(), batch: 64, fault: 0, per_client: false, level: "off".into(), status: None };
    // lists of length 0..=max_len; 48 requests per scenario (one client each → replies attributable)
    let mut all: Vec<Vec<u8>> = vec![];
    for len in 0..=max_len {
        let total = 5usize.pow(len as u32);
        for code in 0..total {
            let mut c = code;
            let mut ver = vec![];
            for _ in 0..len {
                ver.extend(symbols[c % 5]);
                c /= 5;
            }
            all.push(ver);
        }
    }
    let mut reqs: Vec<Vec<u8>> = vec![];
    for ver in &all {
        for srv_mode in 0..3 {
            let nonce = g.r.bytes(32);
            let wrong = g.r.bytes(32);
            let srv = g.srv.clone();
            let s: Option<&[u8]> = match srv_mode { 0 => None, 1 => Some(&srv), _ => Some(&wrong) };
            reqs.push(ietf_request(ver, s, &nonce, 1024));
        }
    }
    // minimal list with SRV under every single-bit corruption, wrong lengths, another server's value
    for bit in 0..256 {
        let mut s = g.srv.clone();
        s[bit / 8] ^= 1 << (bit % 8);
        let nonce = g.r.bytes(32);
        reqs.push(ietf_request(&VER13, Some(&s), &nonce, 1024));
    }
    for len in [0usize, 28, 36, 64] {
        let mut s = g.srv.clone();
        s.resize(len, 0);
        let nonce = g.r.bytes(32);
        reqs.push(ietf_request(&VER13, Some(&s), &nonce, 1024));
    }
    let other = srv_of_seed(&[7u8; 32]);
    let nonce = g.r.bytes(32);
    reqs.push(ietf_request(&VER13, Some(&other), &nonce, 1024));
    // ragged VER (not a multiple of 4) cannot be encoded in an aligned message; VER with trailing half word is impossible on the wire
    stale_state_cases(out, &mut g, &cfg, "c12");
    for chunk in reqs.chunks(40) {
        let burst: Vec<(usize, Vec<u8>)> = chunk.iter().cloned().enumerate().collect();
        let n = burst.len();
        run_scenario(out, Scenario { cfg: cfg.clone(), nclients: n, bursts: vec![burst], sentinel: false, tag: "c12".into(), pauses: vec![] });
    }
    // servers with OTHER seeds created later in the same process (every harness shard): each must answer requests naming
    // ITS OWN long-term key and no other — nothing a server is may be carried over from a server created before it
    // (seeded change C12-r9: a process-wide cache of the unwrapped seed)
    for k in 0..3u8 {
        let mut seed2 = g.r.bytes(32);
        seed2[0] = k; // (distinct from the first server's seed and from each other)
        let srv2 = srv_of_seed(&seed2);
        let cfg2 = RigCfg { seed: seed2, batch: 64, fault: 0, per_client: false, level: "off".into(), status: None };
        let mut burst: Vec<(usize, Vec<u8>)> = vec![];
        for (i, s) in [None, Some(srv2.clone()), Some(g.srv.clone()), Some(srv2.clone()), None, Some(g.srv.clone())].iter().enumerate() {
            let nonce = g.r.bytes(32);
            burst.push((i, ietf_request(&VER13, s.as_deref(), &nonce, 1024)));
        }
        let n = burst.len();
        run_scenario(out, Scenario { cfg: cfg2, nclients: n, bursts: vec![burst], sentinel: false, tag: "c12-second-server".into(), pauses: vec![] });
    }
}

/// Degenerate datagrams (no fields / one field / a required field missing, valid length and framing) sent right
/// after valid requests of either protocol, in the same batch (batch_size 64) and in the next one (batch_size 1):
/// only the valid ones may be answered — nothing a datagram lacks may be taken from an earlier one.
fn stale_state_cases(out: &mut Out, g: &mut Gen, cfg: &RigCfg, tag: &str) {
    for batch in [64u8, 1] {
        let mut cfg = cfg.clone();
        cfg.batch = batch;
        for primer in 0..3 {
            let mut burst: Vec<(usize, Vec<u8>)> = vec![];
            let mut c = 0;
            for k in 0..Gen::DEGENERATE_KINDS {
                let n32 = g.r.bytes(32);
                let n64 = g.r.bytes(64);
                let srv = g.srv.clone();
                let p = match primer {
                    0 => ietf_request(&VER13, None, &n32, 1024),
                    1 => ietf_request(&VER13, Some(&srv), &n32, 1024),
                    _ => classic_request(&n64, 1024),
                };
                burst.push((c, p)); c += 1;
                burst.push((c, g.degenerate(k))); c += 1;
                burst.push((c, g.degenerate(k + 1))); c += 1;
            }
            let s = g.valid_any();
            burst.push((c, s)); c += 1;
            run_scenario(out, Scenario { cfg: cfg.clone(), nclients: c, bursts: vec![burst], sentinel: false, tag: tag.into(), pauses: vec![] });
        }
    }
}

/// C07: boundary lengths, nonces of every aligned length, frame-length values, full batches
fn c07_cases(out: &mut Out, r: &mut Rng, thorough: bool) {
    let mut g = Gen::new(r);
    let cfg = RigCfg { seed: g.seed.clone(), batch: 64, fault: 0, per_client: false, level: "off".into(), status: None };
    let mut reqs: Vec<Vec<u8>> = vec![];
    // classic: nonce of every aligned length 0..=1400 (step 4 in thorough, 20 in quick + the interesting ones)
    let step = if thorough { 4 } else { 44 };
    let mut lens: Vec<usize> = (0..=1400).step_by(step).collect();
    lens.extend([0usize, 4, 32, 60, 64, 68, 272, 276, 1008, 1016, 1400]);
    for k in lens {
        let n = g.r.bytes(k);
        reqs.push(classic_request(&n, 1024.max(16 + k)));
        if k <= 1300 {
            reqs.push(ietf_request(&VER13, None, &n, 1024.max(60 + k)));
        }
        // single-field message: NONC only
        if 8 + k >= 1024 && 8 + k <= 1500 {
            reqs.push(enc_msg(&[(b"NONC", n.clone())]));
        }
    }
    // boundary datagram lengths with otherwise valid content
    for len in [1020usize, 1023, 1024, 1028, 1496, 1500, 1501, 1504, 2048] {
        let n = g.r.bytes(64);
        let mut d = classic_request(&n, len / 4 * 4);
        d.resize(len, 0); // unaligned tails
        reqs.push(d);
        let n = g.r.bytes(32);
        reqs.push(ietf_request(&VER13, None, &n, len / 4 * 4));
    }
    // every frame-length value near the true one
    let n = g.r.bytes(32);
    let base = ietf_request(&VER13, None, &n, 1024);
    for delta in -16i64..=16 {
        let mut d = base.clone();
        let v = (1012i64 + delta) as u32;
        d[8..12].copy_from_slice(&v.to_le_bytes());
        reqs.push(d);
    }
    // big and tiny
    for len in [0usize, 1, 4, 8, 12, 100, 4096, 65507] {
        reqs.push(g.r.bytes(len));
    }
    // receive-buffer reuse: a maximal datagram full of plausible field content, then short datagrams whose
    // offsets point beyond their own end (they must be judged on their own bytes only)
    for _ in 0..6 {
        let mut big = vec![0u8; 65507];
        for (i, b) in big.iter_mut().enumerate() { *b = (i % 251) as u8; }
        reqs.push(big);
        for _ in 0..3 {
            let bad = loop { let d = g.invalid(); if d.len() >= 1024 && d.len() <= 1500 && d[0] <= 3 && d[1] == 0 && &d[0..8] != b"ROUGHTIM" { break d; } };
            reqs.push(bad);
        }
    }
    for chunk in reqs.chunks(32) {
        let mut burst: Vec<(usize, Vec<u8>)> = chunk.iter().cloned().enumerate().collect();
        let n = burst.len();
        // sentinel proves the earlier datagrams were consumed
        let s = g.valid_any();
        burst.push((n, s));
        run_scenario(out, Scenario { cfg: cfg.clone(), nclients: n + 1, bursts: vec![burst], sentinel: false, tag: "c07".into(), pauses: vec![] });
    }
    stale_state_cases(out, &mut g, &cfg, "c07");
    // full batches of 64 (maximum path depth), all minimum-size requests
    for ietf in [false, true] {
        let burst: Vec<(usize, Vec<u8>)> = (0..64)
            .map(|i| {
                let d = if ietf { let n = g.r.bytes(32); ietf_request(&VER13, None, &n, 1024) } else { let n = g.r.bytes(64); classic_request(&n, 1024) };
                (i, d)
            })
            .collect();
        run_scenario(out, Scenario { cfg: cfg.clone(), nclients: 64, bursts: vec![burst], sentinel: false, tag: "c07-full".into(), pauses: vec![] });
    }
}

/// C02: batch compositions, consecutive batches on one server; fault injection runs
fn c02_cases(out: &mut Out, r: &mut Rng, thorough: bool) {
    // every batch size 1..=64 in a single pass, mixed protocols, consecutive batches of varying size
    let sizes: Vec<usize> = if thorough { (1..=64).collect() } else { vec![1, 2, 3, 4, 5, 7, 8, 9, 16, 17, 31, 32, 33, 63, 64] };
    for &n in &sizes {
        let mut g = Gen::new(r);
        let batch = 64u8;
        let cfg = cfg_of(&mut g, batch, 0, "off");
        let mut bursts = vec![];
        // three consecutive batches: n, something smaller, n again (stale tree state would show)
        for m in [n, 1 + g.r.below(n as u64) as usize, n] {
            let mode = g.r.below(3);
            let burst: Vec<(usize, Vec<u8>)> = (0..m)
                .map(|i| {
                    let d = match mode { 0 => g.valid_classic(), 1 => g.valid_ietf(), _ => g.valid_any() };
                    (i % 8, d)
                })
                .collect();
            bursts.push(burst);
        }
        run_scenario(out, Scenario { cfg, nclients: 8, bursts, sentinel: false, tag: "c02".into(), pauses: vec![] });
    }
    // requests that SHARE a nonce without being the same request (the same NONC in packets of different length, with and
    // without SRV, both protocols from the first 32 bytes of one 64-byte nonce) next to exact retransmissions, in one
    // batch: every reply must still prove ITS OWN request (the draft-13 leaf is the whole packet — seeded change C02-r8)
    for k in 0..(if thorough { 24 } else { 6 }) {
        let mut g = Gen::new(r);
        let cfg = cfg_of(&mut g, 64, 0, "off");
        let nonce = if k % 3 == 0 { vec![0u8; 64] } else { g.r.bytes(64) };
        let m = 2 + g.r.below(12) as usize;
        let mut burst: Vec<(usize, Vec<u8>)> = vec![];
        for i in 0..m {
            let srv = g.srv.clone();
            let d = match g.r.below(5) {
                0 => classic_request(&nonce, 1024),
                1 => classic_request(&nonce, 1024 + 4 * g.r.below(100) as usize),
                2 => ietf_request(&VER13, None, &nonce[..32], 1024 + 4 * g.r.below(100) as usize),
                3 => ietf_request(&VER13, Some(&srv), &nonce[..32], 1024 + 4 * g.r.below(100) as usize),
                _ => ietf_request(&VER13, None, &nonce[..32], 1024),
            };
            burst.push((i % 8, d));
        }
        run_scenario(out, Scenario { cfg, nclients: 8, bursts: vec![burst], sentinel: false, tag: "c02-samenonce".into(), pauses: vec![] });
    }
    // configured batch_size 1..=64 with bursts larger than the batch
    let bsizes: Vec<u8> = if thorough { (1..=64).collect() } else { vec![1, 2, 3, 8, 63, 64] };
    for &b in &bsizes {
        let mut g = Gen::new(r);
        let cfg = cfg_of(&mut g, b, 0, "off");
        let m = (b as usize * 2 + 3).min(100);
        let burst: Vec<(usize, Vec<u8>)> = (0..m).map(|i| (i % 5, g.valid_any())).collect();
        run_scenario(out, Scenario { cfg, nclients: 5, bursts: vec![burst], sentinel: false, tag: "c02-bs".into(), pauses: vec![] });
    }
    // fault injection: >= 2000 replies per setting
    let faults: Vec<u8> = if thorough { vec![1, 5, 10, 25, 50] } else { vec![10, 50] };
    for &p in &faults {
        // full batches (deep paths) and single-request batches (empty PATH): the failing share must be p in both
        for &bs in &[64u8, 1u8] {
            let mut g = Gen::new(r);
            let cfg = cfg_of(&mut g, bs, p, "off");
            let mut bursts = vec![];
            for _ in 0..34 {
                let burst: Vec<(usize, Vec<u8>)> = (0..64).map(|i| (i % 16, g.valid_any())).collect();
                bursts.push(burst);
            }
            run_scenario(out, Scenario { cfg, nclients: 16, bursts, sentinel: false, tag: format!("fault{}b{}", p, bs), pauses: vec![] });
        }
    }
}

/// C11: the midpoint is the clock reading taken when the batch is signed — also after idle periods
/// and after bursts in which nothing was signed
fn c11_cases(out: &mut Out, r: &mut Rng, thorough: bool) {
    for k in 0..(if thorough { 36 } else { 12 }) {
        let mut g = Gen::new(r);
        let batch = *g.r.pick(&[1u8, 2, 64]);
        let cfg = cfg_of(&mut g, batch, 0, "off");
        let junk = |g: &mut Gen, n: usize| -> Vec<(usize, Vec<u8>)> { (0..n).map(|_| (0usize, g.invalid())).collect() };
        let valid = |g: &mut Gen, n: usize| -> Vec<(usize, Vec<u8>)> { (0..n).map(|i| (1 + i % 3, g.valid_any())).collect() };
        // shapes: [valid] idle [valid]; [invalid only] idle [valid]; [valid] [invalid only] idle [valid] [valid]
        // retransmissions: the SAME datagram again and again at short intervals (each time a batch with
        // the same Merkle root as the one before) — every reply must carry the time of ITS signing
        let retrans = |g: &mut Gen, ietf: bool, n: usize, gap: u64| -> (Vec<Vec<(usize, Vec<u8>)>>, Vec<u64>) {
            let q = if ietf { g.valid_ietf() } else { g.valid_classic() };
            ((0..n).map(|_| vec![(1usize, q.clone())]).collect(), (0..n).map(|i| if i == 0 { 0 } else { gap }).collect())
        };
        let (bursts, pauses): (Vec<Vec<(usize, Vec<u8>)>>, Vec<u64>) = match k % 6 {
            4 => retrans(&mut g, k % 12 == 4, 7, 300),
            5 => {
                // the same pair of requests (two clients) repeated, then once more after an idle period
                let a = g.valid_any(); let b = g.valid_any();
                let pair = vec![(1usize, a.clone()), (2usize, b.clone())];
                (vec![pair.clone(), pair.clone(), pair.clone(), pair.clone(), pair], vec![0, 400, 400, 400, 1200])
            }
            0 => (vec![valid(&mut g, 2), valid(&mut g, 3)], vec![0, 1300]),
            1 => (vec![junk(&mut g, 1), valid(&mut g, 2), valid(&mut g, 1)], vec![0, 2200, 0]),
            2 => (vec![valid(&mut g, 1), junk(&mut g, 3), valid(&mut g, 4), valid(&mut g, 1)], vec![0, 0, 1300, 1100]),
            _ => (vec![junk(&mut g, 2), junk(&mut g, 1), valid(&mut g, 1)], vec![0, 1100, 1200]),
        };
        run_scenario(out, Scenario { cfg, nclients: 4, bursts, sentinel: false, tag: "c11".into(), pauses });
    }
    // backlog + stall: more than 16 batches queued, ONE process_events call, the worker is not scheduled for 1.2–1.6 s,
    // then the rest is served: every reply must state the clock at ITS signing, also when a call starts with a backlog
    for k in 0..(if thorough { 12 } else { 4 }) {
        let mut g = Gen::new(r);
        let batch = *g.r.pick(&[1u8, 2]);
        let cfg = cfg_of(&mut g, batch, 0, "off");
        let n = 16 * batch as usize + 3 + (k % 3) * batch as usize;
        let big: Vec<(usize, Vec<u8>)> = (0..n).map(|i| (1 + i % 3, match k % 3 { 0 => g.valid_classic(), 1 => g.valid_ietf(), _ => g.valid_any() })).collect();
        let (bursts, pauses) = (vec![big, vec![], (0..2).map(|i| (1 + i, g.valid_any())).collect()], vec![0, 1200 + 200 * (k as u64 % 3), 0]);
        run_scenario(out, Scenario { cfg, nclients: 4, bursts, sentinel: false, tag: "c11-stall".into(), pauses });
    }
}

pub fn run(ctx: &Ctx) {
    quiet_panics();
    install_logger();
    let mode = ctx.rest.get(0).map(|s| s.as_str()).unwrap_or("mixed").to_string();
    let mut out = Out::sharded(ctx.shard);
    let mut r = Rng::new(ctx.seed ^ 0x5352_5600 ^ (mode.len() as u64 * 7919));
    let t = ctx.thorough;
    match mode.as_str() {
        "c02" => c02_cases(&mut out, &mut r, t),
        "c07" => {
            c07_cases(&mut out, &mut r, t);
            for _ in 0..(if t { 600 } else { 30 }) {
                run_scenario(&mut out, mixed(&mut r, t, "c07-mix", 0, 50));
            }
        }
        "c08" => {
            for i in 0..(if t { 8000 } else { 150 }) {
                let fault = if i % 3 == 0 { r.range(1, 50) as u8 } else { 0 };
                run_scenario(&mut out, mixed(&mut r, t, "c08", fault, 60));
            }
        }
        "c09" => {
            for _ in 0..(if t { 4000 } else { 120 }) {
                run_scenario(&mut out, mixed(&mut r, t, "c09", 0, 25));
            }
        }
        "c11" => c11_cases(&mut out, &mut r, t),
        "c12" => c12_cases(&mut out, &mut r, if t { 6 } else { 4 }),
        "c17" => {
            for _ in 0..(if t { 1500 } else { 80 }) {
                run_scenario(&mut out, mixed(&mut r, t, "c17", 0, 35));
            }
            // the status timer (status_interval 1 s -> every 100 ms) publishes per-client snapshots through the
            // queue and clears the recorder between bursts: nothing may be lost or counted twice
            for k in 0..(if t { 60 } else { 10 }) {
                let mut sc = mixed(&mut r, t, "c17-timer", 0, 35);
                sc.cfg.per_client = k % 5 != 4;
                sc.cfg.status = Some(1);
                sc.pauses = (0..sc.bursts.len()).map(|i| if i == 0 { 0 } else { 150 + 60 * (i as u64 % 3) }).collect();
                run_scenario(&mut out, sc);
            }
        }
        "c20" => {
            for i in 0..(if t { 1500 } else { 60 }) {
                let fault = if i % 2 == 0 { r.range(1, 50) as u8 } else { 0 };
                run_scenario(&mut out, mixed(&mut r, t, "c20", fault, 40));
            }
        }
        _ => {
            for _ in 0..20 {
                run_scenario(&mut out, mixed(&mut r, t, "mixed", 0, 30));
            }
        }
    }
    out.flush();
}

pub fn replay_one(out: &mut Out, args: &[&str]) {
    install_logger();
    // args: cfg, bursts
    let mut cfg = RigCfg { seed: vec![0; 32], batch: 64, fault: 0, per_client: false, level: "off".into(), status: None };
    let mut sentinel = false;
    let mut tag = String::new();
    for kv in args[0].split(',') {
        let (k, v) = kv.split_once('=').unwrap();
        match k {
            "seed" => cfg.seed = unhex(v),
            "batch" => cfg.batch = v.parse().unwrap(),
            "fault" => cfg.fault = v.parse().unwrap(),
            "stats" => cfg.per_client = v == "per",
            "log" => cfg.level = v.to_string(),
            "status" => cfg.status = v.parse().ok(),
            "sentinel" => sentinel = v == "1",
            "tag" => tag = v.to_string(),
            _ => {}
        }
    }
    let mut nclients = 0usize;
    let bursts: Vec<Vec<(usize, Vec<u8>)>> = args[1]
        .split('|')
        .map(|b| {
            if b.is_empty() { return vec![]; }
            b.split(';')
                .map(|x| {
                    let (c, h) = x.split_once(':').unwrap();
                    let c: usize = c.parse().unwrap();
                    nclients = nclients.max(c + 1);
                    (c, unhex(h))
                })
                .collect()
        })
        .collect();
    run_scenario(out, Scenario { cfg, nclients, bursts, sentinel, tag, pauses: vec![] });
}
